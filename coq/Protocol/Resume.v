(* C05, protocol level: progress can resume from ANY reachable state.
   Whatever happened before (partitions, loss, Byzantine behaviour, any interleaving), for every
   quorum Q of honest members there is a continuation of exactly three views (the commit-chain
   length) in which only members of Q act -- a block per view on top of the highest lock held in
   Q, every member of Q votes for it -- after which every member of Q has committed a block that
   did not exist before.  So the vote rule, the lock discipline and the commit rule can never
   wedge the protocol ("hidden lock" problems are excluded); what remains for liveness is the
   pacemaker bringing Q into a common view and the leader learning the highest QC. *)
From Coq Require Import List NArith Lia Bool Arith.
From HS Require Import Protocol.Core Protocol.Chained.
Import ListNotations.
Open Scope N_scope.

Section Resume.
  Variable rs : ruleset.
  Variable member : rid -> bool.
  Variable honest : rid -> bool.
  Variable qsize : nat.
  Hypothesis quorum_inter : forall A B : list rid,
      NoDup A -> NoDup B -> (qsize <= length A)%nat -> (qsize <= length B)%nat ->
      (forall i, In i A -> member i = true) -> (forall i, In i B -> member i = true) ->
      exists i, In i A /\ In i B /\ honest i = true.
  Hypothesis quorum_has_honest : forall A : list rid,
      NoDup A -> (qsize <= length A)%nat -> (forall i, In i A -> member i = true) ->
      exists i, In i A /\ honest i = true.
  Variable genesis : block.
  Hypothesis genesis_view : b_view genesis = 0.
  Hypothesis genesis_parent_ne : b_parent genesis <> b_hash genesis.
  Hypothesis genesis_qc_ne : b_qc genesis <> b_hash genesis.

  Local Notation step := (Chained.step rs member honest qsize genesis).
  Local Notation reach := (Chained.reach rs member honest qsize genesis).
  Local Notation certified := (Chained.certified member qsize genesis).
  Local Notation loc := (Chained.loc genesis).
  Local Notation three_chain := (Chained.three_chain member qsize genesis).
  Local Notation inv := (Chained.inv member honest qsize genesis).

  Let RI s (R : reach s) : inv s :=
    reach_inv rs member honest qsize quorum_inter quorum_has_honest genesis
              genesis_view genesis_parent_ne genesis_qc_ne s R.

  Inductive steps : state -> state -> Prop :=
  | steps_refl s : steps s s
  | steps_step s1 s2 s3 : steps s1 s2 -> step s2 s3 -> steps s1 s3.

  Lemma steps_reach s s' : reach s -> steps s s' -> reach s'.
  Proof.
    intros R St. induction St as [|s1 s2 s3 St IH Sp]; [exact R|].
    eapply reach_step; [apply IH; exact R|exact Sp].
  Qed.

  Lemma steps_trans s1 s2 s3 : steps s1 s2 -> steps s2 s3 -> steps s1 s3.
  Proof. intros A B. induction B as [|a b c B IH Sp]; auto. eapply steps_step; [apply IH; exact A|exact Sp]. Qed.

  Lemma steps_U_mono s s' h b : steps s s' -> U s h = Some b -> U s' h = Some b.
  Proof. intros St. induction St as [|a b' c St IH Sp]; auto. intros E. eapply step_U_mono; [exact Sp|auto]. Qed.

  Lemma steps_voted_mono s s' i h : steps s s' -> voted s i h -> voted s' i h.
  Proof. intros St. induction St as [|a b' c St IH Sp]; auto. intros E. eapply step_voted_mono; [exact Sp|auto]. Qed.

  Lemma steps_certified_mono s s' h : steps s s' -> certified s h -> certified s' h.
  Proof. intros St. induction St as [|a b' c St IH Sp]; auto. intros E. eapply step_certified_mono; [exact Sp|auto]. Qed.

  (* ---------- one view: every member of Q votes for the block b ---------- *)
  Lemma vote_round (Q : list rid) : forall s b c1,
    reach s -> NoDup Q -> (forall r, In r Q -> honest r = true) ->
    U s (b_hash b) = Some b -> U s (b_qc b) = Some c1 -> certified s (b_qc b) ->
    b_parent b = b_qc b -> b_view c1 < b_view b ->
    (b_qc b = b_hash genesis \/ exists c2, U s (b_qc c1) = Some c2) ->
    (forall r, In r Q -> lastVoted (loc s r) < b_view b /\ b_view (lock (loc s r)) <= b_view c1) ->
    exists s', steps s s' /\ U s' = U s /\
               (forall r, In r Q -> voted s' r (b_hash b)) /\
               (forall r, In r Q -> lastVoted (loc s' r) = b_view b /\
                                    head (loc s' r) = head (loc s r) /\
                                    log (loc s' r) = log (loc s r)) /\
               (forall r, ~ In r Q -> loc s' r = loc s r).
  Proof.
    induction Q as [|r Q IH]; intros s b c1 R ND Hh Eb Ec Cq Par Vc Av Pre.
    - exists s. split; [apply steps_refl|]. split; [reflexivity|].
      split; [intros ? []|]. split; [intros ? []|]. reflexivity.
    - inversion ND as [|? ? Hnin ND']; subst.
      destruct (Pre r (or_introl eq_refl)) as [Lv Lk].
      assert (St : step s (cast_vote genesis s r b)).
      { eapply (vote_enabled rs member honest qsize quorum_inter quorum_has_honest genesis
                             genesis_view genesis_parent_ne genesis_qc_ne s r b c1); auto.
        apply Hh; now left. }
      set (s1 := cast_vote genesis s r b) in *.
      assert (R1 : reach s1) by (eapply reach_step; eauto).
      assert (Lo : forall x, x <> r -> loc s1 x = loc s x).
      { intros x Hx. unfold s1. rewrite loc_cast. now apply upd_other. }
      destruct (IH s1 b c1 R1 ND') as (s' & St' & U' & V' & L' & O'); auto.
      + intros x Hx. apply Hh. now right.
      + eapply step_certified_mono; eauto.
      + intros x Hx. rewrite Lo; [apply Pre; now right|]. intros ->. contradiction.
      + exists s'. split; [eapply steps_trans; [eapply steps_step; [apply steps_refl|exact St]|exact St']|].
        split; [exact U'|]. split; [|split].
        * intros x [<-|Hx]; [|now apply V'].
          eapply steps_voted_mono; eauto. unfold s1, voted, cast_vote. simpl. now right.
        * intros x [<-|Hx].
          -- rewrite (O' r Hnin). unfold s1. rewrite loc_cast, upd_same. simpl. auto.
          -- destruct (L' x Hx) as (A & B & C). rewrite Lo in B, C by (intros ->; contradiction). auto.
        * intros x Hx. rewrite O' by (intros Hc; apply Hx; now right).
          apply Lo. intros ->. apply Hx. now left.
  Qed.

  (* ---------- every member of Q commits the tail of a three-chain ---------- *)
  Lemma commit_round (Q : list rid) : forall s B1 B2 B3,
    reach s -> NoDup Q -> (forall r, In r Q -> honest r = true) ->
    three_chain s B1 B2 B3 ->
    (forall r, In r Q -> b_view (head (loc s r)) < b_view B1) ->
    exists s', steps s s' /\ U s' = U s /\
               (forall r, In r Q -> exists l', log (loc s' r) = log (loc s r) ++ l' ++ [B1]) /\
               (forall r, ~ In r Q -> loc s' r = loc s r).
  Proof.
    induction Q as [|r Q IH]; intros s B1 B2 B3 R ND Hh T Hd.
    - exists s. split; [apply steps_refl|]. split; [reflexivity|].
      split; [intros ? []|]. reflexivity.
    - inversion ND as [|? ? Hnin ND']; subst.
      destruct (commit_enabled rs member honest qsize quorum_inter quorum_has_honest genesis
                               genesis_view genesis_parent_ne genesis_qc_ne s r B1 B2 B3 R
                               (Hh r (or_introl eq_refl)) T) as (l & Sl & St & Hl).
      destruct (Hl (Hd r (or_introl eq_refl))) as (l' & ->).
      match type of St with Chained.step _ _ _ _ _ _ ?x => set (s1 := x) in * end.
      assert (R1 : reach s1) by (eapply reach_step; eauto).
      assert (Lo : forall x, x <> r -> loc s1 x = loc s x).
      { intros x Hx. unfold s1. rewrite loc_set. now apply upd_other. }
      assert (T1 : three_chain s1 B1 B2 B3) by (eapply (three_chain_mono rs member honest qsize genesis s s1); [exact St|exact T]).
      destruct (IH s1 B1 B2 B3 R1 ND') as (s' & St' & U' & L' & O'); auto.
      + intros x Hx. apply Hh. now right.
      + intros x Hx. rewrite Lo; [apply Hd; now right|]. intros ->. contradiction.
      + exists s'. split; [eapply steps_trans; [eapply steps_step; [apply steps_refl|exact St]|exact St']|].
        split; [exact U'|]. split.
        * intros x [<-|Hx].
          -- rewrite (O' r Hnin). unfold s1. rewrite loc_set, upd_same. simpl. eauto.
          -- destruct (L' x Hx) as (l2 & E). rewrite Lo in E by (intros ->; contradiction). eauto.
        * intros x Hx. rewrite O' by (intros Hc; apply Hx; now right).
          apply Lo. intros ->. apply Hx. now left.
  Qed.

  (* ---------- choosing the next view, the block to extend and fresh hashes ---------- *)
  Lemma max_lock (Q : list rid) (f : rid -> N) :
    Q <> [] -> exists r0, In r0 Q /\ forall r, In r Q -> f r <= f r0.
  Proof.
    induction Q as [|a Q IH]; [congruence|]. intros _.
    destruct Q as [|a' Q'].
    - exists a. split; [now left|]. intros r [<-|[]]. lia.
    - destruct IH as (r0 & I0 & M0); [discriminate|].
      destruct (N.leb_spec (f a) (f r0)).
      + exists r0. split; [now right|]. intros r [<-|Hr]; auto.
      + exists a. split; [now left|]. intros r [<-|Hr]; [lia|]. specialize (M0 r Hr). lia.
  Qed.

  Lemma upper_bound (Q : list rid) (f : rid -> N) : exists m, forall r, In r Q -> f r < m.
  Proof.
    induction Q as [|a Q (m & Hm)]; [exists 0; intros ? []|].
    exists (N.max m (f a + 1)). intros r [<-|Hr]; [lia|]. specialize (Hm r Hr). lia.
  Qed.

  Lemma fresh_above (l : list block) : exists m, forall h, m <= h -> lookup_block l h = None.
  Proof.
    induction l as [|b l (m & Hm)]; [exists 0; reflexivity|].
    exists (N.max m (b_hash b + 1)). intros h Hh. simpl.
    destruct (N.eqb_spec h (b_hash b)); [lia|]. apply Hm. lia.
  Qed.

  Lemma U_add_same s b : U (add_block s b) (b_hash b) = Some b.
  Proof. unfold U, add_block. simpl. now rewrite N.eqb_refl. Qed.
  Lemma U_add_other s b h : h <> b_hash b -> U (add_block s b) h = U s h.
  Proof. unfold U, add_block. simpl. intros. destruct (N.eqb_spec h (b_hash b)); congruence. Qed.
  Lemma loc_add s b x : loc (add_block s b) x = loc s x.
  Proof. reflexivity. Qed.

  (* ---------- the theorem ---------- *)
  Theorem progress_resumes_from_any_state (Q : list rid) s :
    reach s ->
    NoDup Q -> (qsize <= length Q)%nat ->
    (forall r, In r Q -> member r = true /\ honest r = true) ->
    exists s' B1 B2 B3,
      steps s s' /\
      (* three new blocks in three consecutive views, each the parent of the next *)
      U s (b_hash B1) = None /\ three_chain s' B1 B2 B3 /\
      (* every member of the quorum has committed the first of them *)
      forall r, In r Q -> exists l', log (loc s' r) = log (loc s r) ++ l' ++ [B1].
  Proof.
    intros R ND LQ HQ.
    assert (Hh : forall r, In r Q -> honest r = true) by (intros r Hr; apply HQ; auto).
    assert (Hm : forall r, In r Q -> member r = true) by (intros r Hr; apply HQ; auto).
    assert (Qne : Q <> []).
    { intros ->. destruct (quorum_has_honest [] (NoDup_nil _) LQ) as (i & [] & _). intros ? []. }
    pose proof (RI s R) as I. pose proof (reach_uwf _ _ _ _ _ _ R) as W.
    (* the highest lock in Q *)
    destruct (max_lock Q (fun r => b_view (lock (loc s r))) Qne) as (r0 & In0 & Mx).
    set (c0 := lock (loc s r0)).
    destruct (i_lock _ _ _ _ _ I r0 (Hh r0 In0)) as [[Cin Ccert] _]. fold c0 in Cin, Ccert.
    (* the next view *)
    destruct (upper_bound Q (fun r => N.max (lastVoted (loc s r)) (b_view (head (loc s r)))))
      as (v0 & Hv0).
    set (v := N.max v0 (b_view c0 + 1)).
    (* fresh hashes *)
    destruct (fresh_above (blocks s)) as (m0 & Hfresh).
    set (m := N.max m0 (N.max (b_parent genesis + 1) (b_qc genesis + 1))).
    set (B1 := {| b_hash := m; b_parent := b_hash c0; b_view := v; b_qc := b_hash c0 |}).
    set (B2 := {| b_hash := m + 1; b_parent := m; b_view := v + 1; b_qc := m |}).
    set (B3 := {| b_hash := m + 2; b_parent := m + 1; b_view := v + 2; b_qc := m + 1 |}).
    assert (F1 : U s m = None) by (apply Hfresh; unfold m; lia).
    assert (F2 : U s (m + 1) = None) by (apply Hfresh; unfold m; lia).
    assert (F3 : U s (m + 2) = None) by (apply Hfresh; unfold m; lia).
    assert (Hc0m : b_hash c0 <> m) by (intros E; rewrite E in Cin; congruence).
    assert (Hc0m1 : b_hash c0 <> m + 1) by (intros E; rewrite E in Cin; congruence).
    (* ---- view v: B1 ---- *)
    set (s1 := add_block s B1).
    assert (St1 : step s s1).
    { apply step_addblock; simpl; auto; unfold m; lia. }
    assert (R1 : reach s1) by (eapply reach_step; eauto).
    assert (A1 : b_qc B1 = b_hash genesis \/ exists c2, U s1 (b_qc c0) = Some c2).
    { destruct (N.eq_dec (b_hash c0) (b_hash genesis)) as [E|NE]; [left; exact E|right].
      destruct (qc_of_certified member honest qsize quorum_has_honest genesis s W I _ _ Ccert NE Cin)
        as (_ & _ & _ & c1 & E1 & _).
      exists c1. eapply step_U_mono; eauto. }
    assert (P1a : U s1 (b_hash B1) = Some B1) by apply U_add_same.
    assert (P1b : U s1 (b_qc B1) = Some c0).
    { change (U (add_block s B1) (b_hash c0) = Some c0). rewrite U_add_other by exact Hc0m. exact Cin. }
    assert (P1c : certified s1 (b_qc B1)).
    { change (certified s1 (b_hash c0)).
      eapply (step_certified_mono rs member honest qsize genesis s s1); [exact St1|exact Ccert]. }
    assert (P1d : b_parent B1 = b_qc B1) by reflexivity.
    assert (P1e : b_view c0 < b_view B1) by (change (b_view c0 < v); unfold v; lia).
    assert (P1f : forall r, In r Q -> lastVoted (loc s1 r) < b_view B1 /\
                                      b_view (lock (loc s1 r)) <= b_view c0).
    { intros r Hr. unfold s1. rewrite loc_add. split.
      - change (lastVoted (loc s r) < v). specialize (Hv0 r Hr). cbv beta in Hv0. unfold v. lia.
      - apply (Mx r Hr). }
    destruct (vote_round Q s1 B1 c0 R1 ND Hh P1a P1b P1c P1d P1e A1 P1f)
      as (s1' & S1 & U1 & V1 & L1 & O1).
    assert (R1' : reach s1') by (eapply steps_reach; eauto).
    assert (C1 : certified s1' m).
    { right. exists Q. repeat split; auto. }
    (* ---- view v+1: B2 ---- *)
    assert (F2' : U s1' (m + 1) = None).
    { rewrite U1. unfold s1. rewrite U_add_other by (simpl; lia). exact F2. }
    set (s2 := add_block s1' B2).
    assert (St2 : step s1' s2).
    { apply step_addblock; simpl; auto; unfold m; lia. }
    assert (R2 : reach s2) by (eapply reach_step; eauto).
    assert (UB1 : U s1' m = Some B1) by (rewrite U1; apply (U_add_same s B1)).
    assert (P2a : U s2 (b_hash B2) = Some B2) by apply U_add_same.
    assert (P2b : U s2 (b_qc B2) = Some B1).
    { change (U (add_block s1' B2) m = Some B1). rewrite U_add_other by (simpl; lia). exact UB1. }
    assert (P2c : certified s2 (b_qc B2)).
    { change (certified s2 m).
      eapply (step_certified_mono rs member honest qsize genesis s1' s2); [exact St2|exact C1]. }
    assert (P2d : b_parent B2 = b_qc B2) by reflexivity.
    assert (P2e : b_view B1 < b_view B2) by (change (v < v + 1); lia).
    assert (P2g : b_qc B2 = b_hash genesis \/ exists c2, U s2 (b_qc B1) = Some c2).
    { right. exists c0. change (U (add_block s1' B2) (b_hash c0) = Some c0).
      rewrite U_add_other by exact Hc0m1.
      rewrite U1. unfold s1. rewrite U_add_other by exact Hc0m. exact Cin. }
    assert (P2f : forall r, In r Q -> lastVoted (loc s2 r) < b_view B2 /\
                                      b_view (lock (loc s2 r)) <= b_view B1).
    { intros r Hr. unfold s2. rewrite loc_add. destruct (L1 r Hr) as (Lv & _ & _).
      destruct (i_lock _ _ _ _ _ (RI _ R1') r (Hh r Hr)) as [_ Lk].
      rewrite Lv in *. change (b_view B1) with v in *. change (b_view B2) with (v + 1). split; lia. }
    destruct (vote_round Q s2 B2 B1 R2 ND Hh P2a P2b P2c P2d P2e P2g P2f)
      as (s2' & S2 & U2 & V2 & L2 & O2).
    assert (R2' : reach s2') by (eapply steps_reach; eauto).
    assert (C2 : certified s2' (m + 1)).
    { right. exists Q. repeat split; auto. }
    (* ---- view v+2: B3 ---- *)
    assert (UB2 : U s2' (m + 1) = Some B2) by (rewrite U2; apply (U_add_same s1' B2)).
    assert (UB1' : U s2' m = Some B1).
    { rewrite U2. unfold s2. rewrite U_add_other by (simpl; lia). exact UB1. }
    assert (F3' : U s2' (m + 2) = None).
    { rewrite U2. unfold s2. rewrite U_add_other by (simpl; lia). rewrite U1.
      unfold s1. rewrite U_add_other by (simpl; lia). exact F3. }
    set (s3 := add_block s2' B3).
    assert (St3 : step s2' s3).
    { apply step_addblock; simpl; auto; unfold m; lia. }
    assert (R3 : reach s3) by (eapply reach_step; eauto).
    assert (P3a : U s3 (b_hash B3) = Some B3) by apply U_add_same.
    assert (P3b : U s3 (b_qc B3) = Some B2).
    { change (U (add_block s2' B3) (m + 1) = Some B2). rewrite U_add_other by (simpl; lia). exact UB2. }
    assert (P3c : certified s3 (b_qc B3)).
    { change (certified s3 (m + 1)).
      eapply (step_certified_mono rs member honest qsize genesis s2' s3); [exact St3|exact C2]. }
    assert (P3d : b_parent B3 = b_qc B3) by reflexivity.
    assert (P3e : b_view B2 < b_view B3) by (change (v + 1 < v + 2); lia).
    assert (P3g : b_qc B3 = b_hash genesis \/ exists c2, U s3 (b_qc B2) = Some c2).
    { right. exists B1. change (U (add_block s2' B3) m = Some B1).
      rewrite U_add_other by (simpl; lia). exact UB1'. }
    assert (P3f : forall r, In r Q -> lastVoted (loc s3 r) < b_view B3 /\
                                      b_view (lock (loc s3 r)) <= b_view B2).
    { intros r Hr. unfold s3. rewrite loc_add. destruct (L2 r Hr) as (Lv & _ & _).
      destruct (i_lock _ _ _ _ _ (RI _ R2') r (Hh r Hr)) as [_ Lk].
      rewrite Lv in *. change (b_view B2) with (v + 1) in *. change (b_view B3) with (v + 2). split; lia. }
    destruct (vote_round Q s3 B3 B2 R3 ND Hh P3a P3b P3c P3d P3e P3g P3f)
      as (s3' & S3 & U3 & V3 & L3 & O3).
    assert (R3' : reach s3') by (eapply steps_reach; eauto).
    assert (C3 : certified s3' (m + 2)).
    { right. exists Q. repeat split; auto. }
    (* ---- the three-chain and the commits ---- *)
    assert (T : three_chain s3' B1 B2 B3).
    { unfold Chained.three_chain. simpl. repeat split; auto; try lia.
      - rewrite U3. apply (U_add_same s2' B3).
      - rewrite U3. unfold s3. rewrite U_add_other by (simpl; lia). exact UB2.
      - rewrite U3. unfold s3. rewrite U_add_other by (simpl; lia). exact UB1'. }
    assert (Hd : forall r, In r Q -> b_view (head (loc s3' r)) < b_view B1).
    { intros r Hr. destruct (L3 r Hr) as (_ & H3 & _). destruct (L2 r Hr) as (_ & H2 & _).
      destruct (L1 r Hr) as (_ & H1 & _).
      rewrite H3. unfold s3. rewrite loc_add, H2. unfold s2. rewrite loc_add, H1. unfold s1. rewrite loc_add.
      specialize (Hv0 r Hr). cbv beta in Hv0. change (b_view B1) with v. unfold v. lia. }
    destruct (commit_round Q s3' B1 B2 B3 R3' ND Hh T Hd) as (s4 & S4 & U4 & L4 & O4).
    exists s4, B1, B2, B3. split; [|split; [|split]].
    - eapply steps_trans; [|exact S4].
      eapply steps_trans; [|exact S3]. eapply steps_step; [|exact St3].
      eapply steps_trans; [|exact S2]. eapply steps_step; [|exact St2].
      eapply steps_trans; [|exact S1]. eapply steps_step; [apply steps_refl|exact St1].
    - exact F1.
    - clear - T S4 U4 C3. unfold Chained.three_chain in *. rewrite U4.
      destruct T as (a & b & c & d & e & f & g & h). repeat split; auto.
      eapply steps_certified_mono; eauto.
    - intros r Hr. destruct (L4 r Hr) as (l' & E). exists l'. rewrite E.
      destruct (L3 r Hr) as (_ & _ & G3). destruct (L2 r Hr) as (_ & _ & G2).
      destruct (L1 r Hr) as (_ & _ & G1).
      rewrite G3. unfold s3. rewrite loc_add, G2. unfold s2. rewrite loc_add, G1. unfold s1. now rewrite loc_add.
  Qed.
End Resume.

(* Certificate verification with the verifier-side key usability made explicit (BLS12-381 proof of
   possession) and with QuorumCert.Equals at its real granularity.  Definitions only.

   CertModel.v takes [c_replicas c] as "the replicas, each with a usable public key".  In the Go code
   the two notions differ for BLS: the quorum size comes from ReplicaCount(), but
   bls12Base.publicKey(id) yields a key only if id = self or the proof of possession registered
   in the replica's metadata verifies (checkPop; its result is cached per (proof, key) and must not
   depend on the history of calls).  Here the verifier's view [vctx] names the replicas whose
   registered proof is missing or invalid; [usable] is the set of ids with a key.  The functions
   below are CertModel's with [usable c x] in place of [c_replicas c] at the key look-ups; with no bad
   proof they coincide with CertModel's (CertPopProofs: *_p_plain).

   QuorumCert.Equals compares view, hash and signature.ToBytes() — not the claimed signer ids —
   whereas [qc_digest] names QuorumCert.ToBytes(), which covers the ids since 11503d7.  [sd] maps a QC
   digest to the name of its signature bytes; [qc_equals_sd] is Equals. *)
From HS Require Import Base.Prelude Crypto.Symbolic Crypto.SchemeModel Cert.CertModel.

Record vctx : Type := mkV {
  v_self : rid;               (* config.ID(): no proof of possession is checked for self *)
  v_badpop : list rid         (* replicas whose registered proof of possession is missing or does not verify *)
}.

Definition pop_ok (x : vctx) (i : rid) : bool := N.eqb i (v_self x) || negb (memN i (v_badpop x)).

Definition usable (c : cfg) (x : vctx) : list rid :=
  match c_scheme c with
  | Bls12 => filter (pop_ok x) (c_replicas c)
  | _ => c_replicas c
  end.

Section VerifyP.
  Variable c : cfg.
  Variable x : vctx.
  Variable st : store.

  Definition verify_qc_p (q : qc) : result unit :=
    if N.eqb (qc_hash q) (c_genesis c) then
      (if N.eqb (qc_view q) 0%N
       then (match qc_sig q with None => Ok tt | Some _ => Reject end)
       else Reject)
    else match qc_sig q with
    | None => Reject
    | Some s =>
        if Nat.ltb (part_len s) (qsize c) then Reject
        else match st (qc_hash q) with
        | None => Reject
        | Some b =>
            if negb (N.eqb (bi_view b) (qc_view q)) then Reject
            else ok_if (scheme_verify (usable c x) (c_scheme c) s (MBlock (bi_hash b)))
        end
    end.

  Definition qc_valid_p (q : qc) : bool := match verify_qc_p q with Ok _ => true | _ => false end.

  Definition verify_tc_p (t : tc) : result unit :=
    if N.eqb (tc_view t) 0%N then Ok tt
    else match tc_sig t with
    | None => Reject
    | Some s =>
        if Nat.ltb (part_len s) (qsize c) then Reject
        else ok_if (scheme_verify (usable c x) (c_scheme c) s (MView (tc_view t)))
    end.

  Fixpoint first_valid_by (valid : qc -> bool) (l : list qc) : result qc :=
    match l with
    | [] => Reject
    | q :: r => if valid q then Ok q else first_valid_by valid r
    end.
  Definition find_highest_p (qcs : list qc) : result qc := first_valid_by qc_valid_p (qc_sort_desc qcs).

  Definition admissible_high_p (qcs : list qc) (h : qc) : Prop :=
    In h qcs /\ qc_valid_p h = true /\
    forall q, In q qcs -> qc_valid_p q = true -> (qc_view q <= qc_view h)%N.
  Definition admissible_highb_p (qcs : list qc) (d : qcdigest) (hv : view) : bool :=
    existsb (fun q => N.eqb (qc_digest q) d && N.eqb (qc_view q) hv && qc_valid_p q) qcs &&
    forallb (fun q => negb (qc_valid_p q) || N.leb (qc_view q) hv) qcs.

  Definition verify_aggqc_p (a : aggqc) : result qc :=
    let qcs := map_of (aq_qcs a) in
    let batch := map (timeout_msg (aq_view a)) qcs in
    match aq_sig a with
    | None => Panic
    | Some s =>
        if Nat.ltb (part_len s) (qsize c) then Reject
        else if negb (scheme_batch_verify (usable c x) (c_scheme c) s batch) then Reject
        else find_highest_p (aggqc_pool qcs)
    end.

  (* QuorumCert.Equals *)
  Definition qc_equals_sd (sd : qcdigest -> N) (a b : qc) : bool :=
    N.eqb (qc_view a) (qc_view b) && N.eqb (qc_hash a) (qc_hash b) &&
    match qc_sig a, qc_sig b with
    | None, None => true
    | Some _, Some _ => N.eqb (sd (qc_digest a)) (sd (qc_digest b))
    | _, _ => false
    end.

  (* VerifyAnyQC (repaired: the block's QC is compared with the high QC by view and block hash only,
     see CertModel.qc_same_block; [qc_equals_sd] above documents what QuorumCert.Equals compares) *)
  Definition verify_any_qc_p (bqc : qc) (agg : option aggqc)
             (pick : result qc -> result qc) : result unit :=
    match (if c_aggqc c then agg else None) with
    | Some a =>
        match aq_sig a with
        | None => Reject
        | Some _ =>
            match pick (verify_aggqc_p a) with
            | Ok hq => if negb (qc_same_block bqc hq) then Reject else verify_qc_p bqc
            | Reject => Reject
            | Panic => Panic
            end
        end
    | None => verify_qc_p bqc
    end.
End VerifyP.

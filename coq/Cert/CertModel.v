(* Model of /repo/security/cert/auth.go: VerifyQuorumCert, VerifyTimeoutCert, VerifyAggregateQC,
   findHighestValidQC, VerifyAnyQC, CreateQuorumCert, CreateTimeoutCert, CreateAggregateQC over the
   symbolic signature model.  Definitions only.

   REPAIRED behaviour modelled (three pending patches, see fixes/):
     C02-distinct-signers  list schemes reject a repeated signer label        (SchemeModel.distinct_signers)
     C02-qc-view           VerifyQuorumCert compares the QC's view with the block's view and
                           accepts the genesis hash only with view 0          ([verify_qc])
     C02-highqc-sort       findHighestValidQC orders by the uint64 views themselves
                           (the tree subtracts after converting to int)       ([qc_sort_desc])
   Absent (nil) signature objects: VerifyQuorumCert, VerifyTimeoutCert and VerifyAnyQC reject them;
   VerifyAggregateQC called directly dereferences it -> [Panic] (crash class owned by C10; the
   correspondence also accepts "reject" there so that guarding it does not raise an alarm here). *)
From HS Require Import Base.Prelude Crypto.Symbolic Crypto.SchemeModel Quorum.QuorumModel.
Close Scope Z_scope.

(* a QC value: signature object (None = nil interface), claimed view, block hash, and the
   name of its byte string QuorumCert.ToBytes() *)
Record qc : Type := mkQC { qc_sig : option qsig; qc_view : view; qc_hash : hash; qc_digest : qcdigest }.
Record tc : Type := mkTC { tc_sig : option qsig; tc_view : view }.
(* AggregateQC: map id -> QC (as a binding list), signature, view *)
Record aggqc : Type := mkAgg { aq_qcs : list (rid * qc); aq_sig : option qsig; aq_view : view }.

(* what the certificate code reads of a stored block *)
Record blockinfo : Type := mkBI { bi_hash : hash; bi_view : view }.
Definition store := hash -> option blockinfo.        (* blockchain.Get (local or fetched) *)

Record cfg : Type := mkCfg {
  c_scheme : scheme;
  c_replicas : list rid;        (* keys of RuntimeConfig.replicas (each with a usable public key) *)
  c_genesis : hash;             (* hotstuff.GetGenesis().Hash() *)
  c_aggqc : bool                (* RuntimeConfig.HasAggregateQC() *)
}.

Definition zero_hash : hash := 0%N.                   (* the all-zero Hash{} is interned as 0 *)

Definition qsize (c : cfg) : nat :=
  Z.to_nat (quorum_size (Z.of_nat (length (c_replicas c)))).

Definition ok_if (b : bool) : result unit := if b then Ok tt else Reject.

Section Verify.
  Variable c : cfg.
  Variable st : store.

  (* func (c *Authority) VerifyQuorumCert(qc) error *)
  Definition verify_qc (q : qc) : result unit :=
    if N.eqb (qc_hash q) (c_genesis c) then
      (if N.eqb (qc_view q) 0%N                                            (* patch qc-view *)
       then (match qc_sig q with None => Ok tt | Some _ => Reject end)     (* 9eff227: only without a signature *)
       else Reject)
    else match qc_sig q with
    | None => Reject                                                      (* nil signature *)
    | Some s =>
        if Nat.ltb (part_len s) (qsize c) then Reject                     (* participants.Len() < quorumSize *)
        else match st (qc_hash q) with
        | None => Reject                                                  (* block not found *)
        | Some b =>
            if negb (N.eqb (bi_view b) (qc_view q)) then Reject           (* patch qc-view *)
            else ok_if (scheme_verify (c_replicas c) (c_scheme c) s (MBlock (bi_hash b)))
        end
    end.

  Definition qc_valid (q : qc) : bool := match verify_qc q with Ok _ => true | _ => false end.

  (* func (c *Authority) VerifyTimeoutCert(tc) error *)
  Definition verify_tc (t : tc) : result unit :=
    if N.eqb (tc_view t) 0%N then Ok tt
    else match tc_sig t with
    | None => Reject                                                      (* nil signature (guarded since 76e98b4) *)
    | Some s =>
        if Nat.ltb (part_len s) (qsize c) then Reject
        else ok_if (scheme_verify (c_replicas c) (c_scheme c) s (MView (tc_view t)))
    end.

  (* slices.SortFunc(qcs, descending view): insertion sort, stable *)
  Fixpoint insert_desc (q : qc) (l : list qc) : list qc :=
    match l with
    | [] => [q]
    | x :: r => if N.ltb (qc_view x) (qc_view q) then q :: l else x :: insert_desc q r
    end.
  Fixpoint qc_sort_desc (l : list qc) : list qc :=
    match l with [] => [] | x :: r => insert_desc x (qc_sort_desc r) end.

  Fixpoint first_valid (l : list qc) : result qc :=
    match l with
    | [] => Reject
    | q :: r => if qc_valid q then Ok q else first_valid r
    end.

  (* func (c *Authority) findHighestValidQC(qcs) (QuorumCert, error).  Go's sort is unstable, so
     which of several equal-view valid QCs is returned is not determined; the model returns one
     of them and [admissible_high] is the set. *)
  Definition find_highest_valid_qc (qcs : list qc) : result qc := first_valid (qc_sort_desc qcs).

  Definition admissible_high (qcs : list qc) (h : qc) : Prop :=
    In h qcs /\ qc_valid h = true /\
    forall q, In q qcs -> qc_valid q = true -> (qc_view q <= qc_view h)%N.
  (* executable form used by the correspondence *)
  Definition admissible_highb (qcs : list qc) (d : qcdigest) (hv : view) : bool :=
    existsb (fun q => N.eqb (qc_digest q) d && N.eqb (qc_view q) hv && qc_valid q) qcs &&
    forallb (fun q => negb (qc_valid q) || N.leb (qc_view q) hv) qcs.

  Definition zero_qc : qc := mkQC None 0%N zero_hash 0%N.
  (* TimeoutMsg{ID: id, View: aggQC.View(), SyncInfo: NewSyncInfoWith(qc)}.ToBytes() *)
  Definition timeout_msg (v : view) (p : rid * qc) : rid * msg :=
    (fst p, MTimeout (fst p) v (Some (qc_digest (snd p)))).

  (* qcs := make([]QuorumCert, len(m)); append each  — len(m) zero values followed by the map's QCs *)
  Definition aggqc_pool (qcs : list (rid * qc)) : list qc := repeat zero_qc (length qcs) ++ map snd qcs.

  (* func (c *Authority) VerifyAggregateQC(aggQC) (highQC, error) *)
  Definition verify_aggqc (a : aggqc) : result qc :=
    let qcs := map_of (aq_qcs a) in
    let batch := map (timeout_msg (aq_view a)) qcs in
    match aq_sig a with
    | None => Panic                                                       (* aggQC.Sig().Participants() on nil *)
    | Some s =>
        if Nat.ltb (part_len s) (qsize c) then Reject
        else if negb (scheme_batch_verify (c_replicas c) (c_scheme c) s batch) then Reject
        else find_highest_valid_qc (aggqc_pool qcs)
    end.

  (* the comparison VerifyAnyQC makes between the block's QC and the aggregate's high QC (repaired,
     fixes/C02-anyqc-deterministic-highqc.patch): same view and same block; the tree compared with
     QuorumCert.Equals, i.e. also the signature bytes, which made the verdict depend on WHICH of several
     equal-view valid QCs findHighestValidQC happened to return *)
  Definition qc_same_block (a b : qc) : bool :=
    N.eqb (qc_view a) (qc_view b) && N.eqb (qc_hash a) (qc_hash b).

  (* QuorumCert.Equals: view, hash, and signature bytes (or both nil) *)
  Definition qc_equals (a b : qc) : bool :=
    N.eqb (qc_view a) (qc_view b) && N.eqb (qc_hash a) (qc_hash b) &&
    match qc_sig a, qc_sig b with
    | None, None => true
    | Some _, Some _ => N.eqb (qc_digest a) (qc_digest b)
    | _, _ => false
    end.

  (* func (c *Authority) VerifyAnyQC(proposal) error, given the high QC that VerifyAggregateQC
     returned ([hq] ranges over the admissible ones) *)
  Definition verify_any_qc_with (bqc : qc) (agg : option aggqc) (pick : result qc -> result qc) : result unit :=
    match (if c_aggqc c then agg else None) with
    | Some a =>
        match aq_sig a with
        | None => Reject                                                  (* aggQC.Sig() == nil guard *)
        | Some _ =>
        match pick (verify_aggqc a) with
        | Ok hq => if negb (qc_same_block bqc hq) then Reject else verify_qc bqc
        | Reject => Reject
        | Panic => Panic
        end
        end
    | None => verify_qc bqc
    end.
  Definition verify_any_qc (bqc : qc) (agg : option aggqc) : result unit :=
    verify_any_qc_with bqc agg (fun r => r).
End Verify.

(* ---- assembly ---- *)
Section Create.
  Variable c : cfg.

  (* CreateQuorumCert(block, partial certs): [d] names the byte string of the result *)
  Definition create_qc (b : blockinfo) (sigs : list qsig) (d : qcdigest) : result qc :=
    if N.eqb (bi_hash b) (c_genesis c) then Ok (mkQC None 0%N (c_genesis c) d)
    else match scheme_combine (c_scheme c) sigs with
         | None => Reject
         | Some s => Ok (mkQC (Some s) (bi_view b) (bi_hash b) d)
         end.

  (* CreateTimeoutCert(view, timeouts): the view signatures are combined *)
  Definition create_tc (v : view) (viewsigs : list qsig) : result tc :=
    if N.eqb v 0%N then Ok (mkTC None 0%N)
    else match scheme_combine (c_scheme c) viewsigs with
         | None => Reject
         | Some s => Ok (mkTC (Some s) v)
         end.

  (* the fields of a TimeoutMsg that CreateAggregateQC reads *)
  Record timeout : Type := mkTO { to_id : rid; to_qc : option qc; to_msgsig : option qsig }.

  Fixpoint to_qcs (ts : list timeout) : list (rid * qc) :=     (* qcs[timeout.ID] = qc: last write wins *)
    match ts with
    | [] => []
    | t :: r => match to_qc t with
                | Some q => if memN (to_id t) (map fst (to_qcs r)) then to_qcs r else (to_id t, q) :: to_qcs r
                | None => to_qcs r
                end
    end.
  Definition to_sigs (ts : list timeout) : list qsig :=
    flat_map (fun t => match to_msgsig t with Some s => [s] | None => [] end) ts.

  Definition create_aggqc (v : view) (ts : list timeout) : result aggqc :=
    match scheme_combine (c_scheme c) (to_sigs ts) with
    | None => Reject
    | Some s => Ok (mkAgg (to_qcs ts) (Some s) v)
    end.
End Create.

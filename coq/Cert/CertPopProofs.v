(* Soundness of the proof-of-possession aware certificate verification (CertPopModel.v) and its
   agreement with CertModel.v when every registered proof is valid. *)
From Coq Require Import Permutation Sorting.Sorted.
From HS Require Import Base.Prelude Crypto.Symbolic Crypto.SchemeModel Crypto.SchemeProofs
  Cert.CertModel Cert.CertProofs Cert.CertPopModel.

(* ---- who has a usable key ---- *)
Lemma usable_incl c x : incl (usable c x) (c_replicas c).
Proof.
  unfold usable. destruct (c_scheme c); try apply incl_refl.
  intros i Hi. now apply filter_In in Hi.
Qed.

Lemma usable_bls_pop c x i :
  c_scheme c = Bls12 -> In i (usable c x) -> i = v_self x \/ ~ In i (v_badpop x).
Proof.
  intros Hs Hi. unfold usable in Hi. rewrite Hs in Hi. apply filter_In in Hi. destruct Hi as [_ Hp].
  unfold pop_ok in Hp. apply orb_true_iff in Hp. destruct Hp as [Hp|Hp].
  - left. now apply N.eqb_eq.
  - right. apply negb_true_iff in Hp. now apply memN_false.
Qed.

Lemma usable_plain c x : v_badpop x = [] -> usable c x = c_replicas c.
Proof.
  intros Hb. unfold usable. destruct (c_scheme c); try reflexivity.
  apply filter_all_id. apply forallb_forall. intros i _. unfold pop_ok. rewrite Hb. cbn. apply orb_true_r.
Qed.

(* ---- with no bad proof the functions are CertModel's ---- *)
Lemma verify_qc_p_plain c x st q : v_badpop x = [] -> verify_qc_p c x st q = verify_qc c st q.
Proof. intros Hb. unfold verify_qc_p, verify_qc. now rewrite usable_plain. Qed.

Lemma verify_tc_p_plain c x t : v_badpop x = [] -> verify_tc_p c x t = verify_tc c t.
Proof. intros Hb. unfold verify_tc_p, verify_tc. now rewrite usable_plain. Qed.

Lemma first_valid_by_ext f g l : (forall q, f q = g q) -> first_valid_by f l = first_valid_by g l.
Proof. intros H. induction l as [|q r IH]; cbn; [reflexivity|]. now rewrite H, IH. Qed.

Lemma first_valid_by_plain c st l : first_valid_by (qc_valid c st) l = first_valid c st l.
Proof. induction l as [|q r IH]; cbn; [reflexivity | now rewrite IH]. Qed.

Lemma verify_aggqc_p_plain c x st a : v_badpop x = [] -> verify_aggqc_p c x st a = verify_aggqc c st a.
Proof.
  intros Hb. unfold verify_aggqc_p, verify_aggqc, find_highest_p, find_highest_valid_qc.
  rewrite usable_plain by assumption.
  rewrite (first_valid_by_ext (qc_valid_p c x st) (qc_valid c st)).
  - now rewrite first_valid_by_plain.
  - intros q. unfold qc_valid_p, qc_valid. now rewrite verify_qc_p_plain.
Qed.

(* ---- soundness ---- *)
Definition quorum_signed_p (c : cfg) (x : vctx) (s : qsig) (m : msg) : Prop :=
  exists S : list rid, NoDup S /\ (qsize c <= length S)%nat /\ incl S (usable c x) /\
                        forall i, In i S -> genuine s i m.

Lemma verify_quorum_p c x s m :
  (part_len s <? qsize c)%nat = false ->
  scheme_verify (usable c x) (c_scheme c) s m = true ->
  quorum_signed_p c x s m.
Proof.
  intros Hlen Hv. apply Nat.ltb_ge in Hlen.
  destruct (scheme_verify_sound _ _ _ _ Hv) as [Hnd Hall].
  exists (participants s). split; [assumption|]. split; [exact Hlen|]. split.
  - intros i Hi. now apply Hall.
  - intros i Hi. now apply Hall.
Qed.

Theorem qc_sound_p c x st q :
  verify_qc_p c x st q = Ok tt ->
  (qc_hash q = c_genesis c /\ qc_view q = 0%N /\ qc_sig q = None) \/
  exists s b, qc_sig q = Some s /\ st (qc_hash q) = Some b /\ bi_view b = qc_view q /\
              quorum_signed_p c x s (MBlock (bi_hash b)).
Proof.
  unfold verify_qc_p. destruct (N.eqb (qc_hash q) (c_genesis c)) eqn:Hg.
  - destruct (N.eqb (qc_view q) 0) eqn:Hv; [|discriminate].
    destruct (qc_sig q); [discriminate|]. intros _. left.
    apply N.eqb_eq in Hg, Hv. repeat split; assumption.
  - destruct (qc_sig q) as [s|]; [|discriminate].
    destruct (part_len s <? qsize c)%nat eqn:Hlen; [discriminate|].
    destruct (st (qc_hash q)) as [b|]; [|discriminate].
    destruct (N.eqb (bi_view b) (qc_view q)) eqn:Hv; cbn [negb]; [|discriminate].
    intros H. apply ok_if_Ok in H. right. exists s, b.
    apply N.eqb_eq in Hv. repeat split; try assumption. now apply verify_quorum_p.
Qed.

Theorem tc_sound_p c x t :
  verify_tc_p c x t = Ok tt ->
  tc_view t = 0%N \/ exists s, tc_sig t = Some s /\ quorum_signed_p c x s (MView (tc_view t)).
Proof.
  unfold verify_tc_p. destruct (N.eqb (tc_view t) 0) eqn:Hv.
  - intros _. left. now apply N.eqb_eq.
  - destruct (tc_sig t) as [s|]; [|discriminate].
    destruct (part_len s <? qsize c)%nat eqn:Hlen; [discriminate|].
    intros H. apply ok_if_Ok in H. right. exists s. split; [reflexivity|]. now apply verify_quorum_p.
Qed.

Section HighestBy.
  Variable valid : qc -> bool.

  Lemma first_valid_by_max l h :
    StronglySorted ge_view l -> first_valid_by valid l = Ok h ->
    In h l /\ valid h = true /\ forall q, In q l -> valid q = true -> (qc_view q <= qc_view h)%N.
  Proof.
    induction 1 as [|y r Hs IH Hall]; cbn; [discriminate|].
    destruct (valid y) eqn:Hv.
    - intros H. inversion H; subst. split; [now left|]. split; [assumption|].
      intros q [<-|Hq] _; [lia|]. rewrite Forall_forall in Hall. exact (Hall q Hq).
    - intros H. destruct (IH H) as [H1 [H2 H3]]. split; [now right|]. split; [assumption|].
      intros q [<-|Hq] Hq'; [congruence | now apply H3].
  Qed.
End HighestBy.

Lemma find_highest_p_sound c x st l h :
  find_highest_p c x st l = Ok h -> admissible_high_p c x st l h.
Proof.
  unfold find_highest_p. intros H.
  destruct (first_valid_by_max _ _ _ (qc_sort_desc_sorted l) H) as [H1 [H2 H3]].
  split; [eapply Permutation_in; [apply qc_sort_desc_perm | exact H1]|].
  split; [assumption|]. intros q Hq. apply H3.
  eapply Permutation_in; [symmetry; apply qc_sort_desc_perm | exact Hq].
Qed.

Lemma zero_qc_invalid_p c x st : c_genesis c <> zero_hash -> qc_valid_p c x st zero_qc = false.
Proof.
  intros Hg. unfold qc_valid_p, verify_qc_p, zero_qc, zero_hash in *. cbn.
  destruct (c_genesis c); [congruence | reflexivity].
Qed.

Theorem aggqc_sound_p c x st a h :
  c_genesis c <> zero_hash ->
  verify_aggqc_p c x st a = Ok h ->
  exists s S, aq_sig a = Some s /\ NoDup S /\ (qsize c <= length S)%nat /\ incl S (usable c x) /\
    (forall i, In i S -> exists q, lookupN i (aq_qcs a) = Some q /\
                                   genuine s i (MTimeout i (aq_view a) (Some (qc_digest q)))) /\
    (forall i, In i (map fst (aq_qcs a)) -> In i S) /\
    admissible_high_p c x st (map snd (map_of (aq_qcs a))) h.
Proof.
  intros Hg. unfold verify_aggqc_p. destruct (aq_sig a) as [s|]; [|discriminate].
  destruct (part_len s <? qsize c)%nat eqn:Hlen; [discriminate|]. apply Nat.ltb_ge in Hlen.
  destruct (scheme_batch_verify (usable c x) (c_scheme c) s
              (map (timeout_msg (aq_view a)) (map_of (aq_qcs a)))) eqn:Hb; cbn [negb]; [|discriminate].
  intros Hf.
  apply scheme_batch_verify_sound in Hb; [|rewrite map_fst_timeout; apply map_of_NoDup].
  destruct Hb as [S [Hnd [Hl [Hall Hkeys]]]].
  exists s, S. split; [reflexivity|]. split; [assumption|]. split; [lia|]. split.
  - intros i Hi. now apply Hall.
  - split.
    + intros i Hi. destruct (Hall i Hi) as [_ [m [Hm Hgen]]].
      rewrite lookupN_map_timeout, lookupN_map_of in Hm.
      destruct (lookupN i (aq_qcs a)) as [q|]; [|discriminate].
      exists q. split; [reflexivity|]. inversion Hm; subst. exact Hgen.
    + split.
      * intros i Hi. apply Hkeys. rewrite map_fst_timeout. now apply In_keys_map_of.
      * apply find_highest_p_sound in Hf. destruct Hf as [H1 [H2 H3]]. unfold aggqc_pool in *. split.
        -- apply in_app_or in H1. destruct H1 as [H1|H1]; [|assumption].
           apply repeat_spec in H1. subst. rewrite zero_qc_invalid_p in H2 by assumption. discriminate.
        -- split; [assumption|]. intros q Hq. apply H3. apply in_or_app. now right.
Qed.

(* VerifyAnyQC: the block QC itself verifies — agreeing with the high QC under Equals is never enough *)
Theorem any_qc_sound_p c x st bq ag pick :
  verify_any_qc_p c x st bq ag pick = Ok tt ->
  verify_qc_p c x st bq = Ok tt /\
  (c_aggqc c = true -> forall a, ag = Some a ->
     exists h, pick (verify_aggqc_p c x st a) = Ok h /\ qc_view bq = qc_view h /\ qc_hash bq = qc_hash h).
Proof.
  unfold verify_any_qc_p. destruct (c_aggqc c); [destruct ag as [a|]|]; cbn.
  - destruct (aq_sig a); [|discriminate].
    destruct (pick (verify_aggqc_p c x st a)) as [h| |] eqn:E; try discriminate.
    destruct (qc_same_block bq h) eqn:Eq; cbn [negb]; [|discriminate].
    unfold qc_same_block in Eq. apply andb_true_iff in Eq. destruct Eq as [E1 E2].
    apply N.eqb_eq in E1, E2.
    intros H. split; [assumption|]. intros _ a' Ha. inversion Ha; subst. now exists h.
  - intros H. split; [assumption|]. intros _ a' Ha. discriminate.
  - intros H. split; [assumption|]. intros Hf. discriminate.
Qed.

(* the verdict of VerifyAnyQC does not depend on WHICH admissible high QC VerifyAggregateQC returned, as
   long as the candidates certify the same block in the same view (equal-view valid QCs for one block:
   other signer subsets, other signature bytes) *)
Theorem any_qc_pick_irrelevant c x st bq ag h1 h2 :
  qc_view h1 = qc_view h2 -> qc_hash h1 = qc_hash h2 ->
  verify_any_qc_p c x st bq ag (fun _ => Ok h1) = verify_any_qc_p c x st bq ag (fun _ => Ok h2).
Proof.
  intros Hv Hh. unfold verify_any_qc_p, qc_same_block. now rewrite Hv, Hh.
Qed.

(* completeness of VerifyAnyQC: a proposal whose block QC verifies on its own and certifies the block and
   view of the high QC returned for its (verifying) aggregate QC is accepted *)
Theorem any_qc_complete_p c x st bq a h pick :
  aq_sig a <> None ->
  pick (verify_aggqc_p c x st a) = Ok h ->
  qc_view bq = qc_view h -> qc_hash bq = qc_hash h ->
  verify_qc_p c x st bq = Ok tt ->
  verify_any_qc_p c x st bq (Some a) pick = Ok tt.
Proof.
  intros Hs Hp Hv Hh Hq. unfold verify_any_qc_p. destruct (c_aggqc c); [|assumption].
  destruct (aq_sig a); [|congruence]. rewrite Hp. unfold qc_same_block.
  now rewrite Hv, Hh, !N.eqb_refl.
Qed.

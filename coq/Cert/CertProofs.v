(* Soundness and completeness of certificate verification (model of security/cert/auth.go with the
   three C02 repairs) over the symbolic signature model. *)
From Coq Require Import Permutation Sorting.Sorted.
From HS Require Import Base.Prelude Crypto.Symbolic Crypto.SchemeModel Crypto.SchemeProofs
  Cert.CertModel Quorum.QuorumModel Quorum.QuorumProofs.
Close Scope Z_scope.

(* the evidence a verified certificate carries for message m: a duplicate-free set S of at least a
   quorum of configured replicas each of which genuinely signed m *)
Definition quorum_signed (c : cfg) (s : qsig) (m : msg) : Prop :=
  exists S : list rid, NoDup S /\ (qsize c <= length S)%nat /\ incl S (c_replicas c) /\
                        forall i, In i S -> genuine s i m.

Lemma ok_if_Ok b : ok_if b = Ok tt -> b = true.
Proof. destruct b; cbn; [reflexivity | discriminate]. Qed.

Lemma verify_quorum c s m :
  (part_len s <? qsize c)%nat = false ->
  scheme_verify (c_replicas c) (c_scheme c) s m = true ->
  quorum_signed c s m.
Proof.
  intros Hlen Hv. apply Nat.ltb_ge in Hlen.
  destruct (scheme_verify_sound _ _ _ _ Hv) as [Hnd Hall].
  exists (participants s). split; [assumption|]. split; [exact Hlen|]. split.
  - intros i Hi. now apply Hall.
  - intros i Hi. now apply Hall.
Qed.

(* ---- QC ---- *)
Theorem qc_sound c st q :
  verify_qc c st q = Ok tt ->
  (qc_hash q = c_genesis c /\ qc_view q = 0%N /\ qc_sig q = None) \/
  exists s b, qc_sig q = Some s /\ st (qc_hash q) = Some b /\ bi_view b = qc_view q /\
              quorum_signed c s (MBlock (bi_hash b)).
Proof.
  unfold verify_qc. destruct (N.eqb (qc_hash q) (c_genesis c)) eqn:Hg.
  - destruct (N.eqb (qc_view q) 0) eqn:Hv; [|discriminate].
    destruct (qc_sig q); [discriminate|]. intros _. left.
    apply N.eqb_eq in Hg, Hv. repeat split; assumption.
  - destruct (qc_sig q) as [s|]; [|discriminate].
    destruct (part_len s <? qsize c)%nat eqn:Hlen; [discriminate|].
    destruct (st (qc_hash q)) as [b|]; [|discriminate].
    destruct (N.eqb (bi_view b) (qc_view q)) eqn:Hv; cbn [negb]; [|discriminate].
    intros H. apply ok_if_Ok in H. right. exists s, b.
    apply N.eqb_eq in Hv. repeat split; try assumption. now apply verify_quorum.
Qed.

Lemma qc_valid_Ok c st q : qc_valid c st q = true <-> verify_qc c st q = Ok tt.
Proof.
  unfold qc_valid. destruct (verify_qc c st q) as [[]| |]; split; congruence.
Qed.

(* ---- TC ---- *)
Theorem tc_sound c t :
  verify_tc c t = Ok tt ->
  tc_view t = 0%N \/
  exists s, tc_sig t = Some s /\ quorum_signed c s (MView (tc_view t)).
Proof.
  unfold verify_tc. destruct (N.eqb (tc_view t) 0) eqn:Hv.
  - intros _. left. now apply N.eqb_eq.
  - destruct (tc_sig t) as [s|]; [|discriminate].
    destruct (part_len s <? qsize c)%nat eqn:Hlen; [discriminate|].
    intros H. apply ok_if_Ok in H. right. exists s. split; [reflexivity|]. now apply verify_quorum.
Qed.

(* ---- findHighestValidQC ---- *)
Section Highest.
  Variable c : cfg.
  Variable st : store.

  Definition ge_view (a b : qc) : Prop := (qc_view b <= qc_view a)%N.

  Lemma insert_desc_perm q l : Permutation (insert_desc q l) (q :: l).
  Proof.
    induction l as [|x r IH]; cbn; [reflexivity|].
    destruct (N.ltb (qc_view x) (qc_view q)); [reflexivity|].
    rewrite IH. apply perm_swap.
  Qed.

  Lemma qc_sort_desc_perm l : Permutation (qc_sort_desc l) l.
  Proof.
    induction l as [|x r IH]; cbn; [reflexivity|].
    rewrite insert_desc_perm. now constructor.
  Qed.

  Lemma insert_desc_sorted q l : StronglySorted ge_view l -> StronglySorted ge_view (insert_desc q l).
  Proof.
    induction 1 as [|x r Hs IH Hall]; cbn.
    - constructor; constructor.
    - destruct (N.ltb (qc_view x) (qc_view q)) eqn:E.
      + apply N.ltb_lt in E. constructor; [now constructor|].
        constructor; [unfold ge_view; lia|].
        eapply Forall_impl; [|exact Hall]. unfold ge_view. intros y Hy. lia.
      + apply N.ltb_ge in E. constructor; [assumption|].
        eapply Permutation_Forall; [symmetry; apply insert_desc_perm|].
        constructor; [exact E | exact Hall].
  Qed.

  Lemma qc_sort_desc_sorted l : StronglySorted ge_view (qc_sort_desc l).
  Proof. induction l as [|x r IH]; cbn; [constructor | now apply insert_desc_sorted]. Qed.

  Lemma first_valid_max l h :
    StronglySorted ge_view l -> first_valid c st l = Ok h ->
    In h l /\ qc_valid c st h = true /\
    forall q, In q l -> qc_valid c st q = true -> (qc_view q <= qc_view h)%N.
  Proof.
    induction 1 as [|x r Hs IH Hall]; cbn; [discriminate|].
    destruct (qc_valid c st x) eqn:Hv.
    - intros H. inversion H; subst. split; [now left|]. split; [assumption|].
      intros q [<-|Hq] _; [lia|]. rewrite Forall_forall in Hall. exact (Hall q Hq).
    - intros H. destruct (IH H) as [H1 [H2 H3]]. split; [now right|]. split; [assumption|].
      intros q [<-|Hq] Hq'; [congruence | now apply H3].
  Qed.

  Lemma first_valid_reject l : first_valid c st l = Reject -> forall q, In q l -> qc_valid c st q = false.
  Proof.
    induction l as [|x r IH]; cbn; [intros _ q []|].
    destruct (qc_valid c st x) eqn:Hv; [discriminate|].
    intros H q [<-|Hq]; [assumption | now apply IH].
  Qed.

  Lemma first_valid_not_panic l : first_valid c st l <> Panic.
  Proof. induction l as [|x r IH]; cbn; [discriminate|]. now destruct (qc_valid c st x). Qed.

  Theorem find_highest_sound l h :
    find_highest_valid_qc c st l = Ok h -> admissible_high c st l h.
  Proof.
    unfold find_highest_valid_qc. intros H.
    destruct (first_valid_max _ _ (qc_sort_desc_sorted l) H) as [H1 [H2 H3]].
    split; [eapply Permutation_in; [apply qc_sort_desc_perm | exact H1]|].
    split; [assumption|]. intros q Hq. apply H3.
    eapply Permutation_in; [symmetry; apply qc_sort_desc_perm | exact Hq].
  Qed.

  (* conversely a valid QC in the list guarantees an answer *)
  Lemma find_highest_complete l q :
    In q l -> qc_valid c st q = true -> exists h, find_highest_valid_qc c st l = Ok h.
  Proof.
    intros Hq Hv. unfold find_highest_valid_qc.
    destruct (first_valid c st (qc_sort_desc l)) as [h| |] eqn:E.
    - now exists h.
    - pose proof (first_valid_reject _ E q) as H. rewrite H in Hv; [discriminate|].
      eapply Permutation_in; [symmetry; apply qc_sort_desc_perm | exact Hq].
    - exfalso. eapply first_valid_not_panic. exact E.
  Qed.

  Lemma zero_qc_invalid : c_genesis c <> zero_hash -> qc_valid c st zero_qc = false.
  Proof.
    intros Hg. unfold qc_valid, verify_qc, zero_qc, zero_hash in *. cbn.
    destruct (c_genesis c); [congruence | reflexivity].
  Qed.

  Lemma admissible_pool qcs h :
    c_genesis c <> zero_hash ->
    admissible_high c st (aggqc_pool qcs) h -> admissible_high c st (map snd qcs) h.
  Proof.
    intros Hg [H1 [H2 H3]]. unfold aggqc_pool in *. split.
    - apply in_app_or in H1. destruct H1 as [H1|H1]; [|assumption].
      apply repeat_spec in H1. subst. rewrite zero_qc_invalid in H2 by assumption. discriminate.
    - split; [assumption|]. intros q Hq. apply H3. apply in_or_app. now right.
  Qed.
End Highest.

(* ---- AggregateQC ---- *)
Lemma lookupN_map_timeout v i (qcs : list (rid * qc)) :
  lookupN i (map (timeout_msg v) qcs) =
  match lookupN i qcs with Some q => Some (MTimeout i v (Some (qc_digest q))) | None => None end.
Proof.
  induction qcs as [|[k q] r IH]; cbn; [reflexivity|].
  destruct (N.eqb i k) eqn:E; [apply N.eqb_eq in E; now subst | exact IH].
Qed.

Lemma map_fst_timeout v (qcs : list (rid * qc)) : map fst (map (timeout_msg v) qcs) = map fst qcs.
Proof. rewrite map_map. apply map_ext. now intros [k q]. Qed.

Lemma In_keys_map_of {A} k (l : list (N * A)) : In k (map fst l) -> In k (map fst (map_of l)).
Proof.
  intros H. destruct (lookupN k (map_of l)) as [a|] eqn:E.
  - apply lookupN_In in E. apply in_map_iff. now exists (k, a).
  - rewrite lookupN_map_of in E. apply lookupN_None in E. contradiction.
Qed.

Theorem aggqc_sound c st a h :
  c_genesis c <> zero_hash ->
  verify_aggqc c st a = Ok h ->
  exists s S, aq_sig a = Some s /\ NoDup S /\ (qsize c <= length S)%nat /\ incl S (c_replicas c) /\
    (forall i, In i S -> exists q, lookupN i (aq_qcs a) = Some q /\
                                   genuine s i (MTimeout i (aq_view a) (Some (qc_digest q)))) /\
    (forall i, In i (map fst (aq_qcs a)) -> In i S) /\
    admissible_high c st (map snd (map_of (aq_qcs a))) h.
Proof.
  intros Hg. unfold verify_aggqc. destruct (aq_sig a) as [s|]; [|discriminate].
  destruct (part_len s <? qsize c)%nat eqn:Hlen; [discriminate|]. apply Nat.ltb_ge in Hlen.
  destruct (scheme_batch_verify (c_replicas c) (c_scheme c) s
              (map (timeout_msg (aq_view a)) (map_of (aq_qcs a)))) eqn:Hb; cbn [negb]; [|discriminate].
  intros Hf.
  apply scheme_batch_verify_sound in Hb; [|rewrite map_fst_timeout; apply map_of_NoDup].
  destruct Hb as [S [Hnd [Hl [Hall Hkeys]]]].
  exists s, S. split; [reflexivity|]. split; [assumption|]. split; [lia|]. split.
  - intros i Hi. now apply Hall.
  - split.
    + intros i Hi. destruct (Hall i Hi) as [_ [m [Hm Hgen]]].
      rewrite lookupN_map_timeout, lookupN_map_of in Hm.
      destruct (lookupN i (aq_qcs a)) as [q|]; [|discriminate].
      exists q. split; [reflexivity|]. inversion Hm; subst. exact Hgen.
    + split.
      * intros i Hi. apply Hkeys. rewrite map_fst_timeout. now apply In_keys_map_of.
      * apply admissible_pool; [assumption|]. now apply find_highest_sound.
Qed.

(* ---- VerifyAnyQC ---- *)
Theorem any_qc_sound c st bq ag pick :
  verify_any_qc_with c st bq ag pick = Ok tt ->
  verify_qc c st bq = Ok tt /\
  (c_aggqc c = true -> forall a, ag = Some a ->
     exists h, pick (verify_aggqc c st a) = Ok h /\ qc_view bq = qc_view h /\ qc_hash bq = qc_hash h).
Proof.
  unfold verify_any_qc_with. destruct (c_aggqc c); [destruct ag as [a|]|]; cbn.
  - destruct (aq_sig a); [|discriminate].
    destruct (pick (verify_aggqc c st a)) as [h| |] eqn:E; try discriminate.
    destruct (qc_same_block bq h) eqn:Eq; cbn [negb]; [|discriminate].
    unfold qc_same_block in Eq. apply andb_true_iff in Eq. destruct Eq as [E1 E2].
    apply N.eqb_eq in E1, E2.
    intros H. split; [assumption|]. intros _ a' Ha. inversion Ha; subst. now exists h.
  - intros H. split; [assumption|]. intros _ a' Ha. discriminate.
  - intros H. split; [assumption|]. intros Hf. discriminate.
Qed.

(* ---- completeness (clusters of two or more: Combine needs at least two signatures) ---- *)
Lemma qsize_ge2 c : (2 <= length (c_replicas c))%nat -> (2 <= qsize c)%nat.
Proof.
  intros H. unfold qsize.
  assert (Hq : (2 <= quorum_size (Z.of_nat (length (c_replicas c))))%Z).
  { pose proof (f_nonneg (Z.of_nat (length (c_replicas c)))) as Hf.
    unfold quorum_size, ceil_half. apply Z.div_le_lower_bound; lia. }
  lia.
Qed.

Definition same_membership (c c' : cfg) : Prop :=
  c_scheme c' = c_scheme c /\ c_replicas c' = c_replicas c /\ c_genesis c' = c_genesis c.

Lemma qsize_same c c' : same_membership c c' -> qsize c' = qsize c.
Proof. intros [_ [H _]]. unfold qsize. now rewrite H. Qed.

Theorem qc_complete c b signers d :
  (2 <= length (c_replicas c))%nat -> bi_hash b <> c_genesis c ->
  NoDup signers -> incl signers (c_replicas c) -> (qsize c <= length signers)%nat ->
  exists q, create_qc c b (map (fun i => sign (c_scheme c) i (MBlock (bi_hash b))) signers) d = Ok q /\
    forall c' st, same_membership c c' -> st (bi_hash b) = Some b -> verify_qc c' st q = Ok tt.
Proof.
  intros Hn Hg Hnd Hincl Hq. pose proof (qsize_ge2 c Hn) as Hq2.
  destruct (combine_verify_complete (c_replicas c) (c_scheme c) (fun _ => MBlock (bi_hash b)) signers (MBlock (bi_hash b)))
    as [s [Hc [Hp Hv]]]; try assumption; [lia | reflexivity|].
  unfold create_qc. apply N.eqb_neq in Hg. rewrite Hg, Hc. eexists. split; [reflexivity|].
  intros c' st Hsame Hst. pose proof (qsize_same _ _ Hsame) as Hqs. destruct Hsame as [Hs [Hr Hgen]].
  unfold verify_qc. cbn [qc_hash qc_sig qc_view]. rewrite Hgen, Hg, Hst.
  unfold part_len. rewrite Hp.
  assert (Hlt : (length signers <? qsize c')%nat = false) by (apply Nat.ltb_ge; lia).
  rewrite Hlt, N.eqb_refl. cbn [negb]. now rewrite Hs, Hr, Hv.
Qed.

Theorem tc_complete c v signers :
  (2 <= length (c_replicas c))%nat -> v <> 0%N ->
  NoDup signers -> incl signers (c_replicas c) -> (qsize c <= length signers)%nat ->
  exists t, create_tc c v (map (fun i => sign (c_scheme c) i (MView v)) signers) = Ok t /\
    forall c', same_membership c c' -> verify_tc c' t = Ok tt.
Proof.
  intros Hn Hv0 Hnd Hincl Hq. pose proof (qsize_ge2 c Hn) as Hq2.
  destruct (combine_verify_complete (c_replicas c) (c_scheme c) (fun _ => MView v) signers (MView v))
    as [s [Hc [Hp Hv]]]; try assumption; [lia | reflexivity|].
  unfold create_tc. apply N.eqb_neq in Hv0. rewrite Hv0, Hc. eexists. split; [reflexivity|].
  intros c' Hsame. pose proof (qsize_same _ _ Hsame) as Hqs. destruct Hsame as [Hs [Hr Hgen]].
  unfold verify_tc. cbn [tc_view tc_sig]. rewrite Hv0. unfold part_len. rewrite Hp.
  assert (Hlt : (length signers <? qsize c')%nat = false) by (apply Nat.ltb_ge; lia).
  now rewrite Hlt, Hs, Hr, Hv.
Qed.

(* honest timeout messages: replica i reports QC q and signs (i, v, q) *)
Definition honest_timeout (sch : scheme) (v : view) (p : rid * qc) : timeout :=
  mkTO (fst p) (Some (snd p)) (Some (sign sch (fst p) (MTimeout (fst p) v (Some (qc_digest (snd p)))))).

Lemma to_qcs_honest sch v ts : NoDup (map fst ts) -> to_qcs (map (honest_timeout sch v) ts) = ts.
Proof.
  induction ts as [|[i q] r IH]; cbn; [reflexivity|]. intros H. inversion H; subst.
  rewrite IH by assumption. apply memN_false in H2. now rewrite H2.
Qed.

Lemma to_sigs_honest sch v ts :
  to_sigs (map (honest_timeout sch v) ts) =
  map (fun p => sign sch (fst p) (MTimeout (fst p) v (Some (qc_digest (snd p))))) ts.
Proof. induction ts as [|p r IH]; cbn; [reflexivity | now rewrite <- IH]. Qed.

Theorem aggqc_complete c v ts :
  (2 <= length (c_replicas c))%nat ->
  NoDup (map fst ts) -> incl (map fst ts) (c_replicas c) -> (qsize c <= length ts)%nat ->
  exists a, create_aggqc c v (map (honest_timeout (c_scheme c) v) ts) = Ok a /\
    forall c' st, same_membership c c' ->
      (exists p, In p ts /\ qc_valid c' st (snd p) = true) ->
      exists h, verify_aggqc c' st a = Ok h.
Proof.
  intros Hn Hnd Hincl Hq. pose proof (qsize_ge2 c Hn) as Hq2.
  set (f := fun i : rid => match lookupN i ts with
                     | Some q => MTimeout i v (Some (qc_digest q))
                     | None => MView 0%N end).
  assert (Hf : forall p, In p ts -> f (fst p) = MTimeout (fst p) v (Some (qc_digest (snd p)))).
  { intros [i q] Hp. unfold f. cbn. now rewrite (In_lookupN i q ts Hnd Hp). }
  assert (Hsigs : map (fun p => sign (c_scheme c) (fst p) (MTimeout (fst p) v (Some (qc_digest (snd p))))) ts
                  = map (fun i => sign (c_scheme c) i (f i)) (map fst ts)).
  { rewrite map_map. apply map_ext_in. intros p Hp. now rewrite Hf. }
  assert (Hbatch : map (timeout_msg v) ts = map (fun i : rid => (i, f i)) (map fst ts)).
  { rewrite map_map. apply map_ext_in. intros p Hp. unfold timeout_msg. now rewrite Hf. }
  destruct (combine_batch_verify_complete (c_replicas c) (c_scheme c) f (map fst ts)) as [s [Hc [Hp Hv]]];
    try assumption; [rewrite map_length; lia | |].
  { intros i j Hi Hj. apply in_map_iff in Hi, Hj. destruct Hi as [pi [<- Hpi]], Hj as [pj [<- Hpj]].
    rewrite (Hf _ Hpi), (Hf _ Hpj). intros H. now inversion H. }
  unfold create_aggqc. rewrite to_sigs_honest, Hsigs, Hc, to_qcs_honest by assumption.
  eexists. split; [reflexivity|].
  intros c' st Hsame [p [Hpin Hpv]]. pose proof (qsize_same _ _ Hsame) as Hqs. destruct Hsame as [Hs [Hr Hgen]].
  unfold verify_aggqc. cbn [aq_sig aq_qcs aq_view]. rewrite map_of_id by assumption.
  unfold part_len. rewrite Hp, map_length.
  assert (Hlt : (length ts <? qsize c')%nat = false) by (apply Nat.ltb_ge; lia).
  rewrite Hlt, Hbatch, Hs, Hr, Hv. cbn [negb].
  apply find_highest_complete with (q := snd p); [|assumption].
  unfold aggqc_pool. apply in_or_app. right. now apply in_map.
Qed.

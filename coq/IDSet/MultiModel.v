(* Executable model of the signer lists of security/crypto/multisignature.go (type Multi[T]) and of
   Sign/Combine in ecdsa.go, eddsa.go (lists) and bls12.go (Bitfield). Definitions only.

   A Multi is the list of its signers in slice order (signature bytes are irrelevant to the
   participant set). An argument of Combine is either a value of the scheme's own type or a
   foreign QuorumSignature (type assertion fails). *)
From HS Require Import Base.Prelude IDSet.BitfieldModel.
Open Scope N_scope.

Definition multi := list N.

(* IDSet methods of Multi *)
Definition m_contains (id : N) (m : multi) : bool := existsb (N.eqb id) m.   (* slices.ContainsFunc *)
Definition m_len (m : multi) : nat := length m.
Definition m_enum (m : multi) : list N := m.                                 (* ForEach call order *)
Fixpoint m_range_while {St} (f : St -> N -> St * bool) (m : multi) (s : St) : St :=
  match m with
  | [] => s
  | i :: r => let '(s', go) := f s i in if go then m_range_while f r s' else s'
  end.
Definition m_range_count (k : nat) (m : multi) : list N :=
  rev (m_range_while (fun acc i => (i :: acc, (length (i :: acc) <? k)%nat)) m []).

(* Sign: NewMulti(&Signature{signer: config.ID()}) *)
Definition m_sign (i : N) : multi := [i].

Inductive cres (A : Type) :=
| COk (a : A)
| CErrMultiple        (* ErrCombineMultiple: fewer than two arguments *)
| CErrOverlap         (* ErrCombineOverlap *)
| CErrType            (* incompatible signature type *)
| CPanic.
Arguments COk {A} a.
Arguments CErrMultiple {A}.
Arguments CErrOverlap {A}.
Arguments CErrType {A}.
Arguments CPanic {A}.

(* an argument of Combine: Some m = value of the scheme's type, None = foreign type *)
Definition marg := option multi.

(* inner loop of ecdsa/eddsa Combine: for _, s := range sig2 { if ts.Contains(s.Signer()) {overlap}; ts = append(ts, s) } *)
Fixpoint m_absorb (ts : multi) (sig2 : multi) : option multi :=
  match sig2 with
  | [] => Some ts
  | s :: r => if m_contains s ts then None else m_absorb (ts ++ [s]) r
  end.

Fixpoint m_combine_loop (ts : multi) (sigs : list marg) : cres multi :=
  match sigs with
  | [] => COk ts
  | None :: _ => CErrType
  | Some sig2 :: r =>
      match m_absorb ts sig2 with
      | None => CErrOverlap
      | Some ts' => m_combine_loop ts' r
      end
  end.

Definition m_combine (sigs : list marg) : cres multi :=
  if (length sigs <? 2)%nat then CErrMultiple else m_combine_loop [] sigs.

(* ---- BLS: participants are a Bitfield ---- *)
Definition b_sign (i : N) : result bitfield := add i empty_bf.   (* bf := Bitfield{}; bf.Add(config.ID()) *)

Inductive bstate := BsOk (p : bitfield) | BsOverlap | BsPanic.

(* the RangeWhile callback of bls12Base.Combine *)
Definition b_callback (st : bstate) (id : N) : bstate * bool :=
  match st with
  | BsOk p =>
      match contains id p with
      | Ok true => (BsOverlap, false)
      | Ok false => match add id p with
                    | Ok p' => (BsOk p', true)
                    | _ => (BsPanic, false)
                    end
      | _ => (BsPanic, false)
      end
  | _ => (st, false)
  end.

Definition barg := option bitfield.

Fixpoint b_combine_loop (p : bitfield) (sigs : list barg) : cres bitfield :=
  match sigs with
  | [] => COk p
  | None :: _ => CErrType
  | Some sig2 :: r =>
      match range_while b_callback sig2 (BsOk p) with
      | BsOk p' => b_combine_loop p' r
      | BsOverlap => CErrOverlap
      | BsPanic => CPanic
      end
  end.

Definition b_combine (sigs : list barg) : cres bitfield :=
  if (length sigs <? 2)%nat then CErrMultiple else b_combine_loop empty_bf sigs.

(* ---- NewMultiSorted: slices.SortFunc by signer id (equal ids are indistinguishable in the
   signer list, so stability does not matter); NewMulti keeps the given order ---- *)
Fixpoint m_insert (x : N) (l : multi) : multi :=
  match l with
  | [] => [x]
  | y :: r => if x <=? y then x :: l else y :: m_insert x r
  end.
Definition m_new_sorted (l : multi) : multi := fold_right m_insert [] l.
Definition m_new (l : multi) : multi := l.

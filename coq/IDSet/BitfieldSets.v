(* Refinement of the Bitfield model to an ideal finite set (std++ [gset N]):
   every sequence of insertions and queries yields exactly the observations of the ideal set. *)
From stdpp Require Import base numbers list sets gmap fin_sets sorting.
From Coq Require Import NArith Lia Sorted.
From HS Require Import Base.Prelude IDSet.BitfieldModel IDSet.BitfieldProofs.
Open Scope N_scope.

(* ---- the ideal side ---- *)
Notation set_elements := (stdpp.base.elements).
Definition sorted_elems (X : gset N) : list N := merge_sort N.le (set_elements X).

(* the ids up to and including the first one that is >= t *)
Fixpoint upto_ge (t : N) (l : list N) : list N :=
  match l with
  | [] => []
  | x :: r => if x <? t then x :: upto_ge t r else [x]
  end.

Definition ideal_step (o : op) (X : gset N) : gset N * obs :=
  match o with
  | OAdd id => ({[ id ]} ∪ X, BUnit)
  | OContains id => (X, BBool (bool_decide (id ∈ X)))
  | OLen => (X, BLen (size X))
  | OForEach => (X, BIds (sorted_elems X))
  | ORangeCount k => (X, BIds (take (Nat.max 1 k) (sorted_elems X)))
  | ORangeBelow t => (X, BIds (upto_ge t (sorted_elems X)))
  | OBytes => (X, BBytes [])          (* representation, not a set observation: excluded below *)
  | ORebuild => (X, BLen (size X))    (* rebuilding from the byte form is invisible *)
  end.

Fixpoint ideal_run (ops : list op) (X : gset N) : list obs :=
  match ops with
  | [] => []
  | o :: r => let '(X', b) := ideal_step o X in b :: ideal_run r X'
  end.

(* ids >= 1; [OBytes] observes the representation and is covered by from_bytes_bytes instead *)
Definition op_in_domain (o : op) : Prop :=
  match o with
  | OAdd id => 1 <= id
  | OContains id => 1 <= id
  | OBytes => False
  | _ => True
  end.
Definition ops_in_domain (ops : list op) : Prop := Forall op_in_domain ops.

(* the set of ids whose bit is set in a byte string, defined without the model's loops *)
Definition bits_of (bs : list N) : gset N :=
  list_to_set (List.filter (fun x => N.testbit (List.nth (byte_idx x) bs 0) (bit_idx x))
                           (List.map N.of_nat (List.seq 1 (8 * List.length bs)))).

(* ---- glue between Coq's In and std++'s ∈ ---- *)
Lemma In_elem_of (x : N) l : List.In x l <-> x ∈ l.
Proof. symmetry. apply elem_of_list_In. Qed.

Lemma mem_bound bs x : mem bs x -> (N.to_nat x <= 8 * List.length bs)%nat.
Proof.
  intros [H1 H2]. destruct (Nat.lt_ge_cases (byte_idx x) (length bs)) as [L|L].
  - unfold byte_idx, byte_idx_n in L. lia.
  - rewrite nth_zero_beyond in H2 by assumption. rewrite N.bits_0 in H2. discriminate.
Qed.

Lemma elem_of_bits_of bs x : x ∈ bits_of bs <-> mem bs x.
Proof.
  unfold bits_of. rewrite elem_of_list_to_set, <- In_elem_of, List.filter_In, List.in_map_iff. split.
  - intros [[n [<- Hn]] H]. apply List.in_seq in Hn. split; [lia | assumption].
  - intros Hm. pose proof (mem_bound bs x Hm) as Hb. destruct Hm as [H1 H2].
    split; [|assumption]. exists (N.to_nat x). split; [lia|]. apply List.in_seq. lia.
Qed.

(* abstraction relation *)
Definition abs_rel (bf : bitfield) (X : gset N) : Prop :=
  inv bf /\ forall x, x ∈ X <-> List.In x (BitfieldProofs.elements bf).

Lemma abs_from_bytes bs : abs_rel (from_bytes bs) (bits_of bs).
Proof.
  destruct (from_bytes_any bs) as [I [_ [M _]]]. split; [assumption|].
  intros x. rewrite elem_of_bits_of. symmetry. apply M.
Qed.

Lemma ssorted_lt_le l : StronglySorted N.lt l -> StronglySorted N.le l.
Proof.
  induction 1 as [|a l Hs IH Hf]; constructor; [assumption|].
  eapply List.Forall_impl; [|exact Hf]. intros b Hb. cbv beta in Hb. lia.
Qed.

Lemma abs_perm bf X : abs_rel bf X -> set_elements X ≡ₚ BitfieldProofs.elements bf.
Proof.
  intros [_ M]. apply NoDup_Permutation.
  - apply NoDup_elements.
  - apply NoDup_ListNoDup, elements_NoDup.
  - intros x. rewrite elem_of_elements, M. apply In_elem_of.
Qed.

Lemma abs_sorted bf X : abs_rel bf X -> sorted_elems X = BitfieldProofs.elements bf.
Proof.
  intros A. unfold sorted_elems. apply (StronglySorted_unique N.le).
  - apply StronglySorted_merge_sort; apply _.
  - apply ssorted_lt_le, elements_sorted.
  - rewrite merge_sort_Permutation. now apply abs_perm.
Qed.

Lemma abs_size bf X : abs_rel bf X -> len bf = size X.
Proof.
  intros A. destruct A as [I M] eqn:E. clear E. unfold len. rewrite I.
  unfold size, set_size. cbn. symmetry. apply Permutation_length. apply abs_perm. split; assumption.
Qed.

Lemma range_below_spec t bf : range_below t bf = upto_ge t (BitfieldProofs.elements bf).
Proof.
  unfold range_below. rewrite range_while_spec.
  assert (G : forall l acc, fst (fold_until (fun a i => (i :: a, i <? t)) l acc) = rev (upto_ge t l) ++ acc).
  { induction l as [|x l IH]; intros acc; cbn [fold_until upto_ge]; [reflexivity|].
    destruct (x <? t).
    - rewrite IH. cbn [rev]. now rewrite <- app_assoc.
    - reflexivity. }
  rewrite G, app_nil_r. apply rev_involutive.
Qed.

Lemma step_refines o bf X : op_in_domain o -> abs_rel bf X ->
  exists bf', step o bf = (Some bf', snd (ideal_step o X)) /\ abs_rel bf' (fst (ideal_step o X)).
Proof.
  intros D A. pose proof A as [I M]. destruct o as [id|id| | |k|t| |]; cbn [op_in_domain] in D;
    cbn [step ideal_step fst snd].
  - (* Add *)
    destruct (contains_add bf id id D D) as [bf' [E _]]. rewrite E. exists bf'. split; [reflexivity|].
    destruct (len_add bf id bf' D I E) as [I' [_ M']]. split; [assumption|].
    intros x. rewrite M', elem_of_union, elem_of_singleton, M. reflexivity.
  - (* Contains *)
    exists bf. split; [|assumption].
    destruct (contains_ok id bf D) as [b [E Hb]]. rewrite E. do 3 f_equal.
    destruct b.
    + symmetry. apply bool_decide_eq_true. apply M. apply in_elements_mem. now apply Hb.
    + symmetry. apply bool_decide_eq_false. intros Hin. apply M in Hin.
      apply in_elements_mem in Hin. apply Hb in Hin. discriminate.
  - exists bf. split; [|assumption]. now rewrite (abs_size bf X A).
  - exists bf. split; [|assumption]. now rewrite enum_elements, (abs_sorted bf X A).
  - exists bf. split; [|assumption]. now rewrite range_count_prefix, (abs_sorted bf X A).
  - exists bf. split; [|assumption]. now rewrite range_below_spec, (abs_sorted bf X A).
  - contradiction.
  - exists bf. rewrite (from_bytes_bytes bf I). split; [|assumption]. now rewrite (abs_size bf X A).
Qed.

Lemma run_refines ops : forall bf X, ops_in_domain ops -> abs_rel bf X ->
  run_ops ops bf = ideal_run ops X.
Proof.
  induction ops as [|o r IH]; intros bf X D A; cbn [run_ops ideal_run]; [reflexivity|].
  inversion D as [|? ? Do Dr]; subst.
  destruct (step_refines o bf X Do A) as [bf' [E A']]. rewrite E.
  destruct (ideal_step o X) as [X' b]. cbn [fst snd] in *. f_equal. now apply IH.
Qed.

Theorem refines_ideal_set : forall ops bs, ops_in_domain ops ->
  run_ops ops (from_bytes bs) = ideal_run ops (bits_of bs).
Proof. intros ops bs D. apply run_refines; [assumption | apply abs_from_bytes]. Qed.

(* Proofs about the Bitfield model: it refines an ideal set of ids >= 1.
   Specification side: [mem d x] = "bit x-1 of the byte string d is set";
   [elements bf] = the ids enumerated by the loops, proved strictly ascending and equal to [mem]. *)
From Coq Require Import List NArith Arith Lia Bool Sorted Permutation ZifyBool ZifyNat ZifyN.
From HS Require Import Base.Prelude IDSet.BitfieldModel.
Ltac Zify.zify_post_hook ::= Z.div_mod_to_equations.
Open Scope N_scope.

(* ------------------------------------------------------------------ *)
(* Iteration with early exit over a plain list: the reference semantics of RangeWhile *)
Fixpoint fold_until {St} (f : St -> N -> St * bool) (l : list N) (s : St) : St * bool :=
  match l with
  | [] => (s, true)
  | x :: r => let '(s', go) := f s x in if go then fold_until f r s' else (s', false)
  end.

Lemma fold_until_app {St} (f : St -> N -> St * bool) l1 l2 s :
  fold_until f (l1 ++ l2) s =
  let '(s', go) := fold_until f l1 s in if go then fold_until f l2 s' else (s', false).
Proof.
  revert s. induction l1 as [|x l1 IH]; intros s; cbn [fold_until app].
  - reflexivity.
  - destruct (f s x) as [s' go]. destruct go; [apply IH | reflexivity].
Qed.

(* ------------------------------------------------------------------ *)
(* Specification-side enumeration *)
Definition byte_ids (j : nat) (b : N) : list N := map (id_of j) (filter (N.testbit b) bits8).
Fixpoint ids_from (j : nat) (d : list N) : list N :=
  match d with
  | [] => []
  | b :: r => byte_ids j b ++ ids_from (S j) r
  end.
Definition elements (bf : bitfield) : list N := ids_from 0 (bf_data bf).

(* bit x-1 of the byte string is set *)
Definition mem (d : list N) (x : N) : Prop :=
  1 <= x /\ N.testbit (nth (byte_idx x) d 0) (bit_idx x) = true.

(* the cached cardinality is the number of enumerated ids *)
Definition inv (bf : bitfield) : Prop := bf_len bf = length (elements bf).
Definition bytes_ok (d : list N) : Prop := Forall (fun b => b < 256) d.

(* ------------------------------------------------------------------ *)
(* The loops are fold_until over the enumeration *)
Lemma range_bits_spec {St} (f : St -> N -> St * bool) j b bits s :
  range_bits f j b bits s = fold_until f (map (id_of j) (filter (N.testbit b) bits)) s.
Proof.
  revert s. induction bits as [|k r IH]; intros s; cbn [range_bits filter map fold_until].
  - reflexivity.
  - destruct (N.testbit b k); cbn [map fold_until].
    + destruct (f s (id_of j k)) as [s' go]. destruct go; [apply IH | reflexivity].
    + apply IH.
Qed.

Lemma range_bytes_spec {St} (f : St -> N -> St * bool) j d s :
  range_bytes f j d s = fold_until f (ids_from j d) s.
Proof.
  revert j s. induction d as [|b r IH]; intros j s; cbn [range_bytes ids_from].
  - reflexivity.
  - rewrite fold_until_app. rewrite range_bits_spec. fold (byte_ids j b).
    destruct (fold_until f (byte_ids j b) s) as [s' go]. destruct go; [apply IH | reflexivity].
Qed.

Lemma range_while_spec {St} (f : St -> N -> St * bool) bf s :
  range_while f bf s = fst (fold_until f (elements bf) s).
Proof. unfold range_while, elements. now rewrite range_bytes_spec. Qed.

Lemma fold_until_all {St} (g : St -> N -> St) l s :
  fold_until (fun s i => (g s i, true)) l s = (fold_left g l s, true).
Proof. revert s. induction l as [|x l IH]; intros s; cbn [fold_until fold_left]; [reflexivity | apply IH]. Qed.

Lemma for_each_spec {St} (g : St -> N -> St) bf s :
  for_each g bf s = fold_left g (elements bf) s.
Proof. unfold for_each. rewrite range_while_spec, fold_until_all. reflexivity. Qed.

Lemma fold_left_count (l : list N) (n : nat) : fold_left (fun k _ => S k) l n = (n + length l)%nat.
Proof. revert n. induction l as [|x l IH]; intros n; cbn [fold_left length]; [lia | rewrite IH; lia]. Qed.

Lemma fold_left_cons (l acc : list N) : fold_left (fun a i => i :: a) l acc = rev l ++ acc.
Proof.
  revert acc. induction l as [|x l IH]; intros acc; cbn [fold_left rev]; [reflexivity|].
  rewrite IH, <- app_assoc. reflexivity.
Qed.

Lemma enum_elements bf : enum bf = elements bf.
Proof. unfold enum. rewrite for_each_spec, fold_left_cons, app_nil_r. apply rev_involutive. Qed.

Lemma from_bytes_eq bs : from_bytes bs = mkBF bs (length (ids_from 0 bs)).
Proof. unfold from_bytes. rewrite for_each_spec, fold_left_count. reflexivity. Qed.

(* ------------------------------------------------------------------ *)
(* Index arithmetic *)
Lemma beyond_leb d id : beyond d id = (length d <=? byte_idx id)%nat.
Proof.
  unfold beyond, byte_idx.
  destruct (N.leb_spec (N.of_nat (length d)) (byte_idx_n id));
    destruct (Nat.leb_spec (length d) (N.to_nat (byte_idx_n id))); try reflexivity; lia.
Qed.

Lemma In_bits8 k : In k bits8 <-> k < 8.
Proof. unfold bits8. cbn [In]. lia. Qed.

Lemma byte_idx_id_of j k : k < 8 -> byte_idx (id_of j k) = j.
Proof. unfold byte_idx, byte_idx_n, id_of. intros. lia. Qed.

Lemma bit_idx_id_of j k : k < 8 -> bit_idx (id_of j k) = k.
Proof. unfold bit_idx, id_of. intros. lia. Qed.

Lemma id_of_index x : 1 <= x -> id_of (byte_idx x) (bit_idx x) = x.
Proof. unfold byte_idx, byte_idx_n, bit_idx, id_of. intros. lia. Qed.

Lemma bit_idx_lt x : bit_idx x < 8.
Proof. unfold bit_idx. lia. Qed.

Lemma id_of_pos j k : 1 <= id_of j k.
Proof. unfold id_of. lia. Qed.

Lemma index_inj x y : 1 <= x -> 1 <= y -> byte_idx x = byte_idx y -> bit_idx x = bit_idx y -> x = y.
Proof. unfold byte_idx, byte_idx_n, bit_idx. intros. lia. Qed.

(* ------------------------------------------------------------------ *)
(* Membership of the enumeration *)
Lemma in_byte_ids j b x :
  In x (byte_ids j b) <-> exists k, k < 8 /\ N.testbit b k = true /\ x = id_of j k.
Proof.
  unfold byte_ids. rewrite in_map_iff. split.
  - intros [k [E H]]. apply filter_In in H. destruct H as [H1 H2]. apply In_bits8 in H1. eauto.
  - intros [k [H1 [H2 E]]]. exists k. split; [now symmetry|]. apply filter_In. split; [now apply In_bits8|assumption].
Qed.

Lemma in_ids_from j d x :
  In x (ids_from j d) <->
  exists i k, (i < length d)%nat /\ k < 8 /\ N.testbit (nth i d 0) k = true /\ x = id_of (j + i) k.
Proof.
  revert j. induction d as [|b r IH]; intros j; cbn [ids_from length].
  - split; [intros [] | intros [i [k [H _]]]; lia].
  - rewrite in_app_iff, in_byte_ids, IH. split.
    + intros [[k [H1 [H2 E]]] | [i [k [H0 [H1 [H2 E]]]]]].
      * exists 0%nat, k. cbn [nth]. rewrite Nat.add_0_r. repeat split; try assumption; lia.
      * exists (S i), k. cbn [nth]. replace (j + S i)%nat with (S j + i)%nat by lia.
        repeat split; try assumption; lia.
    + intros [i [k [H0 [H1 [H2 E]]]]]. destruct i as [|i]; cbn [nth] in H2.
      * left. exists k. rewrite Nat.add_0_r in E. auto.
      * right. exists i, k. replace (S j + i)%nat with (j + S i)%nat by lia.
        repeat split; try assumption; lia.
Qed.

Lemma nth_zero_beyond (d : list N) i : (length d <= i)%nat -> nth i d 0 = 0.
Proof. intros. now apply nth_overflow. Qed.

Lemma in_elements_mem d x : In x (ids_from 0 d) <-> mem d x.
Proof.
  rewrite in_ids_from. unfold mem. split.
  - intros [i [k [H0 [H1 [H2 E]]]]]. cbn [Nat.add] in E. subst x.
    rewrite byte_idx_id_of, bit_idx_id_of by assumption. split; [apply id_of_pos | assumption].
  - intros [H1 H2]. exists (byte_idx x), (bit_idx x). cbn [Nat.add].
    assert (byte_idx x < length d)%nat.
    { destruct (Nat.lt_ge_cases (byte_idx x) (length d)) as [L|L]; [assumption|].
      rewrite nth_zero_beyond in H2 by assumption. rewrite N.bits_0 in H2. discriminate. }
    repeat split; try assumption; [apply bit_idx_lt | symmetry; now apply id_of_index].
Qed.

(* ------------------------------------------------------------------ *)
(* Ascending order *)
Lemma ssorted_app {A} (R : A -> A -> Prop) l1 l2 :
  StronglySorted R l1 -> StronglySorted R l2 ->
  (forall x y, In x l1 -> In y l2 -> R x y) -> StronglySorted R (l1 ++ l2).
Proof.
  induction l1 as [|a l1 IH]; intros H1 H2 H; cbn [app]; [assumption|].
  inversion H1 as [|? ? Hs Hf]; subst. constructor.
  - apply IH; [assumption | assumption | intros; apply H; [now right | assumption]].
  - apply Forall_app. split; [assumption|]. apply Forall_forall. intros y Hy. apply H; [now left | assumption].
Qed.

Lemma ssorted_filter {A} (R : A -> A -> Prop) (p : A -> bool) l :
  StronglySorted R l -> StronglySorted R (filter p l).
Proof.
  induction 1 as [|a l Hs IH Hf]; cbn [filter]; [constructor|].
  destruct (p a); [|assumption]. constructor; [assumption|].
  apply Forall_forall. intros y Hy. apply filter_In in Hy. rewrite Forall_forall in Hf. now apply Hf.
Qed.

Lemma ssorted_map_mono (g : N -> N) l :
  (forall a b, a < b -> g a < g b) -> StronglySorted N.lt l -> StronglySorted N.lt (map g l).
Proof.
  intros Hg. induction 1 as [|a l Hs IH Hf]; cbn [map]; constructor; [assumption|].
  apply Forall_forall. intros y Hy. apply in_map_iff in Hy. destruct Hy as [z [E Hz]]. subst y.
  rewrite Forall_forall in Hf. apply Hg. now apply Hf.
Qed.

Lemma bits8_sorted : StronglySorted N.lt bits8.
Proof. unfold bits8. repeat (constructor; [|repeat constructor; lia]). constructor. Qed.

Lemma byte_ids_sorted j b : StronglySorted N.lt (byte_ids j b).
Proof.
  unfold byte_ids. apply ssorted_map_mono.
  - intros a c H. unfold id_of. lia.
  - apply ssorted_filter, bits8_sorted.
Qed.

Lemma byte_ids_bounds j b x : In x (byte_ids j b) -> 8 * N.of_nat j < x <= 8 * N.of_nat j + 8.
Proof. rewrite in_byte_ids. intros [k [H1 [_ E]]]. subst x. unfold id_of. lia. Qed.

Lemma ids_from_lower j d x : In x (ids_from j d) -> 8 * N.of_nat j < x.
Proof.
  rewrite in_ids_from. intros [i [k [_ [_ [_ E]]]]]. subst x. unfold id_of. lia.
Qed.

Lemma ids_from_sorted j d : StronglySorted N.lt (ids_from j d).
Proof.
  revert j. induction d as [|b r IH]; intros j; cbn [ids_from]; [constructor|].
  apply ssorted_app; [apply byte_ids_sorted | apply IH |].
  intros x y Hx Hy. apply byte_ids_bounds in Hx. apply ids_from_lower in Hy. lia.
Qed.

Lemma ssorted_lt_NoDup l : StronglySorted N.lt l -> NoDup l.
Proof.
  induction 1 as [|a l Hs IH Hf]; constructor; [|assumption].
  intros Hin. rewrite Forall_forall in Hf. specialize (Hf a Hin). lia.
Qed.

Lemma elements_sorted bf : StronglySorted N.lt (elements bf).
Proof. apply ids_from_sorted. Qed.

Lemma elements_NoDup bf : NoDup (elements bf).
Proof. apply ssorted_lt_NoDup, elements_sorted. Qed.

(* two strictly ascending lists with the same members are the same list *)
Lemma ssorted_ext l1 l2 :
  StronglySorted N.lt l1 -> StronglySorted N.lt l2 -> (forall x, In x l1 <-> In x l2) -> l1 = l2.
Proof.
  revert l2. induction l1 as [|a l1 IH]; intros l2 H1 H2 H.
  - destruct l2 as [|b l2]; [reflexivity|]. exfalso. apply (proj2 (H b)). now left.
  - destruct l2 as [|b l2]; [exfalso; apply (proj1 (H a)); now left|].
    inversion H1 as [|? ? Hs1 Hf1]; subst. inversion H2 as [|? ? Hs2 Hf2]; subst.
    rewrite Forall_forall in Hf1, Hf2.
    assert (a = b).
    { destruct (proj1 (H a) (or_introl eq_refl)) as [E|Hin]; [now symmetry|].
      destruct (proj2 (H b) (or_introl eq_refl)) as [E|Hin']; [assumption|].
      specialize (Hf1 b Hin'). specialize (Hf2 a Hin). lia. }
    subst b. f_equal. apply IH; try assumption.
    intros x. split; intros Hx.
    + destruct (proj1 (H x) (or_intror Hx)) as [E|Hin]; [|assumption].
      subst x. specialize (Hf1 a Hx). lia.
    + destruct (proj2 (H x) (or_intror Hx)) as [E|Hin]; [|assumption].
      subst x. specialize (Hf2 a Hx). lia.
Qed.

(* ------------------------------------------------------------------ *)
(* Add *)
Lemma upd_nth_length d i f : length (upd_nth d i f) = length d.
Proof. revert i. induction d as [|b r IH]; intros [|i]; cbn [upd_nth length]; auto. Qed.

Lemma nth_upd_nth d j f i :
  (j < length d)%nat -> nth i (upd_nth d j f) 0 = if Nat.eqb i j then f (nth i d 0) else nth i d 0.
Proof.
  revert j i. induction d as [|b r IH]; intros j i H; cbn [length] in H; [lia|].
  destruct j as [|j]; destruct i as [|i]; cbn [upd_nth nth Nat.eqb]; try reflexivity.
  apply IH. lia.
Qed.

Lemma nth_extend d n i : nth i (extend d n) 0 = nth i d 0.
Proof.
  unfold extend. destruct (Nat.lt_ge_cases i (length d)) as [L|L].
  - now rewrite app_nth1.
  - rewrite app_nth2 by assumption. rewrite (nth_overflow d) by assumption.
    destruct (Nat.lt_ge_cases (i - length d) n) as [L'|L'].
    + apply nth_repeat.
    + apply nth_overflow. now rewrite repeat_length.
Qed.

Lemma extend_length d n : length (extend d n) = (length d + n)%nat.
Proof. unfold extend. now rewrite app_length, repeat_length. Qed.

(* the byte string Add works on after the optional extend *)
Definition grown (d : list N) (id : N) : list N :=
  if (length d <=? byte_idx id)%nat then extend d (byte_idx id + 1 - length d) else d.

Lemma grown_length d id : (byte_idx id < length (grown d id))%nat.
Proof.
  unfold grown. destruct (Nat.leb_spec (length d) (byte_idx id)); [rewrite extend_length|]; lia.
Qed.

Lemma grown_nth d id i : nth i (grown d id) 0 = nth i d 0.
Proof. unfold grown. destruct (length d <=? byte_idx id)%nat; [apply nth_extend | reflexivity]. Qed.

Lemma testbit_set_bit b k m : N.testbit (N.lor b (N.shiftl 1 k)) m = N.testbit b m || (k =? m).
Proof. rewrite N.lor_spec, N.shiftl_1_l, N.pow2_bits_eqb. reflexivity. Qed.

Lemma add_ok id bf :
  1 <= id ->
  add id bf = Ok (set_bit (mkBF (grown (bf_data bf) id) (bf_len bf)) (byte_idx id) (bit_idx id)).
Proof. intros H. unfold add, grown. rewrite beyond_leb. destruct (N.eqb_spec id 0); [lia | reflexivity]. Qed.

Lemma add_data id bf bf' :
  1 <= id -> add id bf = Ok bf' ->
  bf_data bf' = upd_nth (grown (bf_data bf) id) (byte_idx id) (fun b => N.lor b (N.shiftl 1 (bit_idx id))).
Proof. intros H E. rewrite add_ok in E by assumption. inversion E. reflexivity. Qed.

Lemma mem_add id bf bf' x :
  1 <= id -> add id bf = Ok bf' -> (mem (bf_data bf') x <-> x = id \/ mem (bf_data bf) x).
Proof.
  intros H E. rewrite (add_data id bf bf' H E). unfold mem.
  rewrite nth_upd_nth by apply grown_length. rewrite grown_nth.
  destruct (Nat.eqb_spec (byte_idx x) (byte_idx id)) as [Eb|Eb].
  - rewrite testbit_set_bit. rewrite orb_true_iff, N.eqb_eq. split.
    + intros [H1 [H2|H2]]; [right; auto | left]. apply index_inj; auto.
    + intros [->|[H1 H2]]; split; auto.
  - split.
    + intros [H1 H2]. right. auto.
    + intros [->|[H1 H2]]; [congruence | auto].
Qed.

Lemma is_set_mem d id : 1 <= id -> is_set (grown d id) (byte_idx id) (bit_idx id) = true <-> mem d id.
Proof. intros H. unfold is_set, mem. rewrite grown_nth. tauto. Qed.

Lemma add_len id bf bf' :
  1 <= id -> add id bf = Ok bf' ->
  bf_len bf' = if is_set (grown (bf_data bf) id) (byte_idx id) (bit_idx id) then bf_len bf else S (bf_len bf).
Proof. intros H E. rewrite add_ok in E by assumption. inversion E. reflexivity. Qed.

Lemma length_same_members (l1 l2 : list N) :
  NoDup l1 -> NoDup l2 -> (forall x, In x l1 <-> In x l2) -> length l1 = length l2.
Proof. intros H1 H2 H. apply Permutation_length, NoDup_Permutation; assumption. Qed.

Lemma add_inv id bf bf' : 1 <= id -> inv bf -> add id bf = Ok bf' -> inv bf'.
Proof.
  intros H I E. unfold inv in *. rewrite (add_len id bf bf' H E).
  destruct (is_set (grown (bf_data bf) id) (byte_idx id) (bit_idx id)) eqn:Es.
  - rewrite I. apply length_same_members; try apply elements_NoDup.
    intros x. unfold elements. rewrite !in_elements_mem, (mem_add id bf bf' x H E).
    apply is_set_mem in Es; [|assumption]. split; [auto | intros [->|?]; auto].
  - rewrite I. change (S (length (elements bf))) with (length (id :: elements bf)).
    apply length_same_members.
    + constructor; [|apply elements_NoDup]. unfold elements. rewrite in_elements_mem.
      rewrite <- is_set_mem by assumption. congruence.
    + apply elements_NoDup.
    + intros x. cbn [In]. unfold elements. rewrite !in_elements_mem, (mem_add id bf bf' x H E).
      split; [intros [->|?]; auto | intros [->|?]; auto].
Qed.

(* bytes stay bytes *)
Lemma set_bit_byte b k : b < 256 -> k < 8 -> N.lor b (N.shiftl 1 k) < 256.
Proof.
  intros Hb Hk. rewrite N.shiftl_1_l.
  assert (0 < N.lor b (2 ^ k)).
  { apply N.neq_0_lt_0. intros E. apply N.lor_eq_0_iff in E. destruct E as [_ E].
    apply N.pow_nonzero in E; [assumption | lia]. }
  change 256 with (2 ^ 8). apply N.log2_lt_pow2; [assumption|].
  rewrite N.log2_lor, N.log2_pow2 by lia.
  destruct (N.eq_dec b 0) as [->|Hn]; [cbn; lia|].
  assert (N.log2 b < 8) by (apply N.log2_lt_pow2; [lia | exact Hb]). lia.
Qed.

Lemma upd_nth_Forall (P : N -> Prop) d i f :
  Forall P d -> (forall b, P b -> P (f b)) -> Forall P (upd_nth d i f).
Proof.
  intros H Hf. revert i. induction H as [|b r Hb Hr IH]; intros [|i]; cbn [upd_nth]; constructor; auto.
Qed.

Lemma add_bytes_ok id bf bf' : 1 <= id -> bytes_ok (bf_data bf) -> add id bf = Ok bf' -> bytes_ok (bf_data bf').
Proof.
  intros H B E. unfold bytes_ok in *. rewrite (add_data id bf bf' H E). apply upd_nth_Forall.
  - unfold grown. destruct (length (bf_data bf) <=? byte_idx id)%nat; [|assumption].
    unfold extend. apply Forall_app. split; [assumption|].
    apply Forall_forall. intros x Hx. apply repeat_spec in Hx. subst. lia.
  - intros b Hb. apply set_bit_byte; [assumption | apply bit_idx_lt].
Qed.

(* ------------------------------------------------------------------ *)
(* Contains *)
Lemma contains_ok id bf :
  1 <= id -> exists b, contains id bf = Ok b /\ (b = true <-> mem (bf_data bf) id).
Proof.
  intros H. unfold contains. rewrite beyond_leb. destruct (N.eqb_spec id 0); [lia|].
  destruct (Nat.leb_spec (length (bf_data bf)) (byte_idx id)) as [L|L].
  - exists false. split; [reflexivity|]. unfold mem. rewrite nth_zero_beyond by assumption.
    rewrite N.bits_0. split; [discriminate | intros [_ ?]; discriminate].
  - exists (is_set (bf_data bf) (byte_idx id) (bit_idx id)). split; [reflexivity|].
    unfold mem, is_set. tauto.
Qed.

Lemma contains_true_iff id bf : 1 <= id -> (contains id bf = Ok true <-> In id (elements bf)).
Proof.
  intros H. destruct (contains_ok id bf H) as [b [E Hb]]. unfold elements.
  rewrite in_elements_mem, <- Hb, E. split; [now inversion 1 | now intros ->].
Qed.

Lemma contains_false_iff id bf : 1 <= id -> (contains id bf = Ok false <-> ~ In id (elements bf)).
Proof.
  intros H. destruct (contains_ok id bf H) as [b [E Hb]]. unfold elements.
  rewrite in_elements_mem, <- Hb, E. destruct b; split; try congruence.
  all: try (intros Hn; exfalso; now apply Hn).
Qed.

(* ------------------------------------------------------------------ *)
(* The exported statements *)

(* Add never fails for ids >= 1, and membership afterwards is "the id added, or already there" *)
Theorem contains_add : forall bf id x, 1 <= id -> 1 <= x ->
  exists bf', add id bf = Ok bf' /\
    (contains x bf' = Ok true <-> x = id \/ contains x bf = Ok true) /\
    (exists b, contains x bf' = Ok b).
Proof.
  intros bf id x Hid Hx. eexists. split; [apply add_ok; assumption|].
  set (bf' := set_bit _ _ _). assert (E : add id bf = Ok bf') by (apply add_ok; assumption).
  split.
  - rewrite !contains_true_iff by assumption. unfold elements. rewrite !in_elements_mem.
    apply (mem_add id bf bf' x Hid E).
  - destruct (contains_ok x bf' Hx) as [b [Eb _]]. eauto.
Qed.

(* no double counting: the cached size grows by one exactly when the id is new, and the size
   invariant is preserved *)
Theorem len_add : forall bf id bf', 1 <= id -> inv bf -> add id bf = Ok bf' ->
  inv bf' /\
  len bf' = (if in_dec N.eq_dec id (elements bf) then len bf else S (len bf)) /\
  (forall x, In x (elements bf') <-> x = id \/ In x (elements bf)).
Proof.
  intros bf id bf' H I E. split; [eapply add_inv; eassumption|]. split.
  - unfold len. rewrite (add_len id bf bf' H E).
    destruct (in_dec N.eq_dec id (elements bf)) as [Hin|Hn]; unfold elements in *;
      rewrite in_elements_mem, <- is_set_mem in * by assumption.
    + now rewrite Hin.
    + destruct (is_set _ _ _); [congruence | reflexivity].
  - intros x. unfold elements. rewrite !in_elements_mem. apply (mem_add id bf bf' x H E).
Qed.

(* enumeration: RangeWhile applies its callback to the elements in ascending order, each once,
   until the callback returns false; the elements are exactly the contained ids; under the size
   invariant Len is their number *)
Theorem range_sorted_exact : forall bf,
  (forall St (f : St -> N -> St * bool) s, range_while f bf s = fst (fold_until f (elements bf) s)) /\
  (forall St (g : St -> N -> St) s, for_each g bf s = fold_left g (elements bf) s) /\
  StronglySorted N.lt (elements bf) /\
  (forall x, In x (elements bf) <-> 1 <= x /\ contains x bf = Ok true) /\
  (inv bf -> len bf = length (elements bf)).
Proof.
  intros bf. split; [intros; apply range_while_spec|]. split; [intros; apply for_each_spec|].
  split; [apply elements_sorted|]. split; [|auto].
  intros x. split.
  - intros Hin. assert (1 <= x) by (unfold elements in Hin; apply in_elements_mem in Hin; apply Hin).
    split; [assumption | now apply contains_true_iff].
  - intros [H1 H2]. now apply contains_true_iff.
Qed.

(* early exit yields a prefix: the ids recorded by the two instrumented callbacks *)
Lemma fold_until_count k l acc :
  fst (fold_until (fun a i => (i :: a, (length (i :: a) <? k)%nat)) l acc) =
  rev (firstn (Nat.max 1 (k - length acc)) l) ++ acc.
Proof.
  revert acc. induction l as [|x l IH]; intros acc; cbn [fold_until].
  - rewrite firstn_nil. reflexivity.
  - destruct (Nat.ltb_spec (length (x :: acc)) k) as [L|L]; cbn [length] in L.
    + rewrite IH. cbn [length]. replace (Nat.max 1 (k - length acc)) with (S (Nat.max 1 (k - S (length acc)))) by lia.
      cbn [firstn rev]. rewrite <- app_assoc. reflexivity.
    + replace (Nat.max 1 (k - length acc)) with 1%nat by lia. cbn [firstn fst rev]. destruct l; reflexivity.
Qed.

Theorem range_count_prefix : forall k bf, range_count k bf = firstn (Nat.max 1 k) (elements bf).
Proof.
  intros k bf. unfold range_count. rewrite range_while_spec, fold_until_count.
  cbn [length]. rewrite Nat.sub_0_r, app_nil_r. apply rev_involutive.
Qed.

Theorem first_participant_min : forall bf, first_participant bf = hd 0 (elements bf).
Proof.
  intros bf. unfold first_participant. rewrite range_while_spec.
  destruct (elements bf); reflexivity.
Qed.

(* reconstruction from ANY byte list: invariant holds, bytes are kept, membership = set bits *)
Theorem from_bytes_any : forall bs,
  inv (from_bytes bs) /\ bytes (from_bytes bs) = bs /\
  (forall x, In x (elements (from_bytes bs)) <-> mem bs x) /\
  len (from_bytes bs) = length (elements (from_bytes bs)).
Proof.
  intros bs. rewrite from_bytes_eq. unfold inv, elements, bytes, len. cbn [bf_data bf_len].
  split; [reflexivity|]. split; [reflexivity|]. split; [|reflexivity].
  intros x. apply in_elements_mem.
Qed.

(* round trip through the byte form gives back the same value (data and size) *)
Theorem from_bytes_bytes : forall bf, inv bf -> from_bytes (bytes bf) = bf.
Proof.
  intros [d l] I. unfold inv, elements in I. cbn [bf_data bf_len] in I.
  rewrite from_bytes_eq. unfold bytes. cbn [bf_data]. now rewrite I.
Qed.

(* trailing zero bytes do not change the set *)
Theorem from_bytes_trailing_zeros : forall bs n,
  elements (from_bytes (bs ++ repeat 0 n)) = elements (from_bytes bs) /\
  len (from_bytes (bs ++ repeat 0 n)) = len (from_bytes bs).
Proof.
  intros bs n.
  assert (E : elements (from_bytes (bs ++ repeat 0 n)) = elements (from_bytes bs)).
  { apply ssorted_ext; try apply elements_sorted. intros x.
    rewrite !from_bytes_eq. unfold elements. cbn [bf_data]. rewrite !in_elements_mem. unfold mem.
    fold (extend bs n). now rewrite nth_extend. }
  split; [assumption|].
  destruct (from_bytes_any (bs ++ repeat 0 n)) as [_ [_ [_ L1]]].
  destruct (from_bytes_any bs) as [_ [_ [_ L2]]]. now rewrite L1, L2, E.
Qed.

(* ------------------------------------------------------------------ *)
(* Histories: any sequence of insertions of ids >= 1 into a field rebuilt from any bytes *)
Fixpoint adds (ids : list N) (bf : bitfield) : result bitfield :=
  match ids with
  | [] => Ok bf
  | i :: r => match add i bf with Ok bf' => adds r bf' | _ => Panic end
  end.

Lemma adds_spec ids : forall bf, Forall (fun i => 1 <= i) ids -> inv bf ->
  exists bf', adds ids bf = Ok bf' /\ inv bf' /\
    (forall x, In x (elements bf') <-> In x ids \/ In x (elements bf)).
Proof.
  induction ids as [|i r IH]; intros bf Hf I; cbn [adds].
  - exists bf. repeat split; auto. intros [[]|]; auto.
  - inversion Hf as [|? ? Hi Hr]; subst.
    destruct (contains_add bf i i Hi Hi) as [bf1 [E _]]. rewrite E.
    destruct (len_add bf i bf1 Hi I E) as [I1 [_ M1]].
    destruct (IH bf1 Hr I1) as [bf' [E' [I' M']]].
    exists bf'. repeat split; try assumption.
    + intros Hx. apply M' in Hx. cbn [In]. rewrite M1 in Hx. intuition.
    + intros Hx. apply M'. rewrite M1. cbn [In] in Hx. intuition.
Qed.

Theorem history_ideal : forall bs ids, Forall (fun i => 1 <= i) ids ->
  exists bf, adds ids (from_bytes bs) = Ok bf /\
    (forall x, 1 <= x -> (contains x bf = Ok true <-> In x ids \/ mem bs x)) /\
    (forall x, 1 <= x -> exists b, contains x bf = Ok b) /\
    len bf = length (nodup N.eq_dec (ids ++ elements (from_bytes bs))) /\
    StronglySorted N.lt (enum bf) /\
    (forall x, In x (enum bf) <-> In x ids \/ mem bs x).
Proof.
  intros bs ids Hf.
  destruct (from_bytes_any bs) as [I0 [_ [M0 _]]].
  destruct (adds_spec ids (from_bytes bs) Hf I0) as [bf [E [I M]]].
  exists bf. split; [assumption|]. split; [|split; [|split; [|split]]].
  - intros x Hx. rewrite contains_true_iff, M, M0 by assumption. tauto.
  - intros x Hx. destruct (contains_ok x bf Hx) as [b [Eb _]]. eauto.
  - unfold len. rewrite I. apply length_same_members; [apply elements_NoDup | apply NoDup_nodup |].
    intros x. rewrite nodup_In, in_app_iff. apply M.
  - rewrite enum_elements. apply elements_sorted.
  - intros x. rewrite enum_elements, M, M0. tauto.
Qed.

(* Executable model of security/crypto/bitfield.go (type Bitfield: data []byte + cached len).
   Definitions only; the proofs are in BitfieldProofs.v / BitfieldSets.v.

   Go                                   model
   ---------------------------------    -------------------------------------------
   Bitfield{data, len}                  mkBF bf_data bf_len   (bytes are N below 256)
   index(id) = ((id-1)/8, (id-1)%8)     byte_idx, bit_idx     (ids >= 1)
   id(byteIdx, bitIdx)                  id_of
   isSet / set / extend                 is_set / set_bit / extend
   Add / Contains                       add / contains        (result: Panic for id = 0, see below)
   RangeWhile(f) / ForEach(f)           range_while / for_each with a *stateful* callback
                                        f : St -> id -> St * bool   (state threading stands for the
                                        closure's captured variables; bool = "continue")
   Len / Bytes / BitfieldFromBytes      len / bytes / from_bytes (recount by ForEach)

   Add(0): Go computes i = int(0)-1 = -1, byteIdx = -1/8 = 0 (truncation), bitIdx = -1%8 = -1;
   after a possible extend to one byte, isSet evaluates 1 << -1, a run-time panic (negative shift
   amount). It is outside the property (ids start at 1) and is modelled as [Panic] so the
   correspondence records what Go does. Contains(0) returns false on every field (explicit guard
   `if id == 0 { return false }`, /repo commit fd14b99). *)
From HS Require Import Base.Prelude.
Open Scope N_scope.

Record bitfield := mkBF { bf_data : list N; bf_len : nat }.

Definition empty_bf : bitfield := mkBF [] 0.

Definition byte_idx_n (id : N) : N := (id - 1) / 8.
Definition byte_idx (id : N) : nat := N.to_nat (byte_idx_n id).
Definition bit_idx (id : N) : N := (id - 1) mod 8.
Definition id_of (byteIdx : nat) (bitIdx : N) : N := 1 + N.of_nat byteIdx * 8 + bitIdx.

(* bf.data[byteIdx] & (1<<bitIdx) != 0 ; callers guarantee byteIdx < len(data) *)
Definition is_set (d : list N) (byteIdx : nat) (bitIdx : N) : bool :=
  N.testbit (nth byteIdx d 0) bitIdx.

Fixpoint upd_nth (d : list N) (i : nat) (f : N -> N) : list N :=
  match d, i with
  | [], _ => []
  | b :: r, O => f b :: r
  | b :: r, S j => b :: upd_nth r j f
  end.

(* len(bf.data) <= byteIdx ; compared in N so that huge ids are never converted to unary nat *)
Definition beyond (d : list N) (id : N) : bool := N.of_nat (length d) <=? byte_idx_n id.

(* append(bf.data, make([]byte, n)...) *)
Definition extend (d : list N) (n : nat) : list N := d ++ repeat 0 n.

(* set: if !isSet { len++ }; data[byteIdx] |= 1 << bitIdx *)
Definition set_bit (bf : bitfield) (byteIdx : nat) (bitIdx : N) : bitfield :=
  let l := if is_set (bf_data bf) byteIdx bitIdx then bf_len bf else S (bf_len bf) in
  mkBF (upd_nth (bf_data bf) byteIdx (fun b => N.lor b (N.shiftl 1 bitIdx))) l.

Definition add (id : N) (bf : bitfield) : result bitfield :=
  if id =? 0 then Panic
  else
    let byteIdx := byte_idx id in
    let bitIdx := bit_idx id in
    let d := if beyond (bf_data bf) id
             then extend (bf_data bf) (byteIdx + 1 - length (bf_data bf))
             else bf_data bf in
    Ok (set_bit (mkBF d (bf_len bf)) byteIdx bitIdx).

Definition contains (id : N) (bf : bitfield) : result bool :=
  if id =? 0 then Ok false
  else if beyond (bf_data bf) id then Ok false
  else Ok (is_set (bf_data bf) (byte_idx id) (bit_idx id)).

Definition bits8 : list N := [0; 1; 2; 3; 4; 5; 6; 7].

Section Range.
  Context {St : Type}.
  Variable f : St -> N -> St * bool.     (* the callback; false = stop *)

  (* inner loop: for bitIdx := range 8 *)
  Fixpoint range_bits (byteIdx : nat) (b : N) (bits : list N) (s : St) : St * bool :=
    match bits with
    | [] => (s, true)
    | k :: r =>
        if N.testbit b k then
          let '(s', go) := f s (id_of byteIdx k) in
          if go then range_bits byteIdx b r s' else (s', false)
        else range_bits byteIdx b r s
    end.

  (* outer loop: for byteIdx := range bf.data *)
  Fixpoint range_bytes (byteIdx : nat) (d : list N) (s : St) : St * bool :=
    match d with
    | [] => (s, true)
    | b :: r =>
        let '(s', go) := range_bits byteIdx b bits8 s in
        if go then range_bytes (S byteIdx) r s' else (s', false)
    end.

  Definition range_while (bf : bitfield) (s : St) : St := fst (range_bytes 0 (bf_data bf) s).
End Range.

Definition for_each {St} (f : St -> N -> St) (bf : bitfield) (s : St) : St :=
  range_while (fun s i => (f s i, true)) bf s.

Definition len (bf : bitfield) : nat := bf_len bf.
Definition bytes (bf : bitfield) : list N := bf_data bf.

(* bf := Bitfield{data: b}; l := 0; bf.ForEach(func(_) { l++ }); bf.len = l *)
Definition from_bytes (b : list N) : bitfield :=
  mkBF b (for_each (fun l _ => S l) (mkBF b 0) 0%nat).

(* ForEach collecting the ids it is called with, in call order *)
Definition enum (bf : bitfield) : list N := rev (for_each (fun acc i => i :: acc) bf []).

(* RangeWhile with the two callbacks the harness uses; both record every id they are called with.
   range_count k : return true while fewer than k ids have been recorded
   range_below t : return true while the id just seen is below t *)
Definition range_count (k : nat) (bf : bitfield) : list N :=
  rev (range_while (fun acc i => (i :: acc, (length (i :: acc) <? k)%nat)) bf []).
Definition range_below (t : N) (bf : bitfield) : list N :=
  rev (range_while (fun acc i => (i :: acc, i <? t)) bf []).

(* firstParticipant (bls12.go): RangeWhile that stops at the first id; 0 if there is none *)
Definition first_participant (bf : bitfield) : N :=
  range_while (fun _ i => (i, false)) bf 0.

(* ---- operation sequences: what the harness runs against a live Bitfield ---- *)
Inductive op :=
| OAdd (id : N)
| OContains (id : N)
| OLen
| OForEach
| ORangeCount (k : nat)
| ORangeBelow (t : N)
| OBytes
| ORebuild.            (* bf = BitfieldFromBytes(copy of bf.Bytes()); observes the new Len *)

Inductive obs :=
| BUnit
| BBool (b : bool)
| BLen (n : nat)
| BIds (l : list N)
| BBytes (l : list N)
| BPanic.

(* one step: new state (None after a panic: the harness stops the sequence there) and observation *)
Definition step (o : op) (bf : bitfield) : option bitfield * obs :=
  match o with
  | OAdd id => match add id bf with Ok bf' => (Some bf', BUnit) | _ => (None, BPanic) end
  | OContains id => match contains id bf with Ok b => (Some bf, BBool b) | _ => (None, BPanic) end
  | OLen => (Some bf, BLen (len bf))
  | OForEach => (Some bf, BIds (enum bf))
  | ORangeCount k => (Some bf, BIds (range_count k bf))
  | ORangeBelow t => (Some bf, BIds (range_below t bf))
  | OBytes => (Some bf, BBytes (bytes bf))
  | ORebuild => let bf' := from_bytes (bytes bf) in (Some bf', BLen (len bf'))
  end.

Fixpoint run_ops (ops : list op) (bf : bitfield) : list obs :=
  match ops with
  | [] => []
  | o :: r => match step o bf with
              | (Some bf', b) => b :: run_ops r bf'
              | (None, b) => [b]
              end
  end.

(* Proofs about signer lists (ECDSA/EdDSA Multi) and BLS participant fields built by Sign and
   successful Combine: no signer occurs twice, so Len counts distinct signers. *)
From Coq Require Import List NArith Arith Lia Bool Sorted Permutation ZifyBool ZifyNat ZifyN.
From HS Require Import Base.Prelude IDSet.BitfieldModel IDSet.BitfieldProofs IDSet.MultiModel.
Open Scope N_scope.

Lemma m_contains_In id m : m_contains id m = true <-> In id m.
Proof.
  unfold m_contains. rewrite existsb_exists. split.
  - intros [y [Hy E]]. apply N.eqb_eq in E. now subst.
  - intros H. exists id. split; [assumption | apply N.eqb_refl].
Qed.

Lemma NoDup_app_iff {A} (l1 l2 : list A) :
  NoDup (l1 ++ l2) <-> NoDup l1 /\ NoDup l2 /\ (forall x, In x l1 -> ~ In x l2).
Proof.
  induction l1 as [|a l1 IH]; cbn [app].
  - split; [intros H; repeat split; [constructor | assumption | intros x []] | tauto].
  - split.
    + intros H. inversion H as [|? ? Hn Hd]; subst. apply IH in Hd. destruct Hd as [H1 [H2 H3]].
      rewrite in_app_iff in Hn. repeat split.
      * constructor; tauto.
      * assumption.
      * intros x [->|Hx]; [tauto | now apply H3].
    + intros [H1 [H2 H3]]. inversion H1 as [|? ? Hn Hd]; subst. constructor.
      * rewrite in_app_iff. intros [?|?]; [tauto|]. apply (H3 a); [now left | assumption].
      * apply IH. repeat split; try assumption. intros x Hx. apply H3. now right.
Qed.

(* ------------------------------------------------------------------ *)
(* ECDSA / EdDSA *)
Lemma m_absorb_spec sig2 : forall ts, NoDup ts ->
  (m_absorb ts sig2 = Some (ts ++ sig2) /\ NoDup (ts ++ sig2)) \/
  (m_absorb ts sig2 = None /\ ~ NoDup (ts ++ sig2)).
Proof.
  induction sig2 as [|s r IH]; intros ts H; cbn [m_absorb].
  - left. rewrite app_nil_r. auto.
  - destruct (m_contains s ts) eqn:E.
    + right. split; [reflexivity|]. apply m_contains_In in E. intros Hn.
      apply NoDup_app_iff in Hn. destruct Hn as [_ [_ Hd]]. apply (Hd s E). now left.
    + assert (Hs : ~ In s ts) by (rewrite <- m_contains_In; congruence).
      assert (H' : NoDup (ts ++ [s])).
      { apply NoDup_app_iff. repeat split; [assumption | repeat constructor; intros [] |].
        intros x Hx [->|[]]. contradiction. }
      replace (ts ++ s :: r) with ((ts ++ [s]) ++ r) by (rewrite <- app_assoc; reflexivity).
      apply IH. assumption.
Qed.

Lemma m_combine_loop_spec ms : forall ts, NoDup ts ->
  (m_combine_loop ts (map Some ms) = COk (ts ++ concat ms) /\ NoDup (ts ++ concat ms)) \/
  (m_combine_loop ts (map Some ms) = CErrOverlap /\ ~ NoDup (ts ++ concat ms)).
Proof.
  induction ms as [|m r IH]; intros ts H; cbn [map m_combine_loop concat].
  - left. rewrite app_nil_r. auto.
  - destruct (m_absorb_spec m ts H) as [[E Hn]|[E Hn]]; rewrite E.
    + rewrite app_assoc. apply IH. assumption.
    + right. split; [reflexivity|]. intros Hd. apply Hn.
      rewrite app_assoc in Hd. apply NoDup_app_iff in Hd. tauto.
Qed.

(* a foreign argument is never accepted *)
Lemma m_combine_loop_ok_all_some sigs : forall ts l,
  m_combine_loop ts sigs = COk l -> exists ms, sigs = map Some ms.
Proof.
  induction sigs as [|a r IH]; intros ts l H; cbn [m_combine_loop] in H.
  - exists []. reflexivity.
  - destruct a as [m|]; [|discriminate]. destruct (m_absorb ts m) as [ts'|]; [|discriminate].
    destruct (IH _ _ H) as [ms E]. exists (m :: ms). cbn [map]. now rewrite E.
Qed.

(* Combine succeeds only on two or more arguments of the right type whose signer lists are
   pairwise disjoint and duplicate-free; the result lists every signer once *)
Theorem combine_ok : forall sigs l, m_combine sigs = COk l ->
  exists ms, sigs = map Some ms /\ (2 <= length ms)%nat /\ l = concat ms /\ NoDup l /\
             m_len l = length (nodup N.eq_dec l).
Proof.
  intros sigs l H. unfold m_combine in H.
  destruct (Nat.ltb_spec (length sigs) 2) as [L|L]; [discriminate|].
  destruct (m_combine_loop_ok_all_some _ _ _ H) as [ms E]. subst sigs. exists ms.
  rewrite map_length in L.
  destruct (m_combine_loop_spec ms [] (NoDup_nil _)) as [[E Hn]|[E Hn]]; rewrite E in H; [|discriminate].
  inversion H; subst l. cbn [app] in *. repeat split; try assumption.
  unfold m_len. now rewrite nodup_fixed_point.
Qed.

(* ... and it fails exactly when there are fewer than two inputs or some signer occurs twice *)
Theorem combine_result : forall ms,
  m_combine (map Some ms) =
    if (length ms <? 2)%nat then CErrMultiple
    else if ListDec.NoDup_dec N.eq_dec (concat ms) then COk (concat ms) else CErrOverlap.
Proof.
  intros ms. unfold m_combine. rewrite map_length. destruct (length ms <? 2)%nat; [reflexivity|].
  destruct (m_combine_loop_spec ms [] (NoDup_nil _)) as [[E Hn]|[E Hn]]; rewrite E; cbn [app] in *;
    destruct (ListDec.NoDup_dec N.eq_dec (concat ms)); try reflexivity; contradiction.
Qed.

(* values built by signing and successful combining *)
Inductive m_built : multi -> Prop :=
| mb_sign i : m_built (m_sign i)
| mb_combine ms l : Forall m_built ms -> m_combine (map Some ms) = COk l -> m_built l.

Theorem combine_nodup_len : forall l, m_built l ->
  NoDup l /\ m_len l = length (nodup N.eq_dec l) /\
  (forall x, m_contains x l = true <-> In x l) /\ m_enum l = l.
Proof.
  intros l H. assert (Hn : NoDup l).
  { destruct H as [i | ms l _ E].
    - unfold m_sign. repeat constructor. intros [].
    - destruct (combine_ok _ _ E) as [ms' [_ [_ [_ [Hn _]]]]]. assumption. }
  repeat split; try assumption.
  - unfold m_len. now rewrite nodup_fixed_point.
  - apply m_contains_In.
  - apply m_contains_In.
Qed.

Lemma m_range_while_spec {St} (f : St -> N -> St * bool) m s :
  m_range_while f m s = fst (fold_until f m s).
Proof.
  revert s. induction m as [|i r IH]; intros s; cbn [m_range_while fold_until]; [reflexivity|].
  destruct (f s i) as [s' go]. destruct go; [apply IH | reflexivity].
Qed.

(* ------------------------------------------------------------------ *)
(* BLS *)
Lemma elements_pos bf x : In x (elements bf) -> 1 <= x.
Proof. unfold elements. rewrite in_elements_mem. now intros [H _]. Qed.

Lemma b_callback_overlap p x : contains x p = Ok true -> b_callback (BsOk p) x = (BsOverlap, false).
Proof. intros E. unfold b_callback. now rewrite E. Qed.

Lemma b_callback_new p x p1 : contains x p = Ok false -> add x p = Ok p1 ->
  b_callback (BsOk p) x = (BsOk p1, true).
Proof. intros E E1. unfold b_callback. now rewrite E, E1. Qed.

Lemma b_fold_spec l : forall p, Forall (fun i => 1 <= i) l -> inv p ->
  (exists p', fold_until b_callback l (BsOk p) = (BsOk p', true) /\ inv p' /\
     (forall x, In x (elements p') <-> In x (elements p) \/ In x l) /\
     NoDup (elements p ++ l) /\ len p' = (len p + length l)%nat)
  \/ (fold_until b_callback l (BsOk p) = (BsOverlap, false) /\ ~ NoDup (elements p ++ l)).
Proof.
  induction l as [|x r IH]; intros p Hf I; cbn [fold_until].
  - left. exists p. rewrite app_nil_r. split; [reflexivity|]. split; [assumption|].
    split; [intros y; cbn [In]; tauto|]. split; [apply elements_NoDup | cbn [length]; lia].
  - inversion Hf as [|? ? Hx Hr]; subst.
    destruct (contains_ok x p Hx) as [b [Eb Hb]]. destruct b.
    + rewrite (b_callback_overlap p x Eb). right. split; [reflexivity|]. intros Hn. apply NoDup_app_iff in Hn. destruct Hn as [_ [_ Hd]].
      apply (Hd x); [|now left]. unfold elements. apply in_elements_mem. now apply Hb.
    + assert (Hnx : ~ In x (elements p)).
      { unfold elements. rewrite in_elements_mem, <- Hb. discriminate. }
      destruct (contains_add p x x Hx Hx) as [p1 [E1 _]]. rewrite (b_callback_new p x p1 Eb E1).
      destruct (len_add p x p1 Hx I E1) as [I1 [L1 M1]].
      destruct (in_dec N.eq_dec x (elements p)) as [?|_]; [contradiction|].
      destruct (IH p1 Hr I1) as [[p' [E' [I' [M' [N' L']]]]]|[E' N']].
      * left. exists p'. split; [assumption|]. split; [assumption|]. split; [|split].
        -- intros y. rewrite M', M1. cbn [In]. intuition.
        -- apply NoDup_app_iff in N'. destruct N' as [_ [Nr Nd]]. apply NoDup_app_iff.
           split; [apply elements_NoDup|]. split.
           ++ constructor; [|assumption]. intros Hin. apply (Nd x); [apply M1; now left | assumption].
           ++ intros y Hy [->|Hin]; [contradiction|]. apply (Nd y); [apply M1; now right | assumption].
        -- rewrite L', L1. cbn [length]. lia.
      * right. split; [assumption|]. intros Hn. apply N'.
        apply NoDup_app_iff in Hn. destruct Hn as [_ [Nr Nd]]. inversion Nr as [|? ? Hnr Nr']; subst.
        apply NoDup_app_iff. split; [apply elements_NoDup|]. split; [assumption|].
        intros y Hy Hin. apply M1 in Hy. destruct Hy as [->|Hy]; [contradiction|].
        apply (Nd y Hy). now right.
Qed.

Definition all_elements (ss : list bitfield) : list N := concat (map elements ss).

Lemma b_combine_loop_spec ss : forall p, inv p ->
  (exists p', b_combine_loop p (map Some ss) = COk p' /\ inv p' /\
     (forall x, In x (elements p') <-> In x (elements p) \/ In x (all_elements ss)) /\
     NoDup (elements p ++ all_elements ss) /\ len p' = (len p + length (all_elements ss))%nat)
  \/ (b_combine_loop p (map Some ss) = CErrOverlap /\ ~ NoDup (elements p ++ all_elements ss)).
Proof.
  unfold all_elements.
  induction ss as [|s r IH]; intros p I; cbn [map b_combine_loop concat].
  - left. exists p. rewrite app_nil_r. split; [reflexivity|]. split; [assumption|].
    split; [intros y; cbn [In]; tauto|]. split; [apply elements_NoDup | cbn [length]; lia].
  - rewrite range_while_spec.
    assert (Hf : Forall (fun i => 1 <= i) (elements s)).
    { apply Forall_forall. intros x. apply elements_pos. }
    destruct (b_fold_spec (elements s) p Hf I) as [[p1 [E1 [I1 [M1 [N1 L1]]]]]|[E1 N1]]; rewrite E1; cbn [fst].
    + destruct (IH p1 I1) as [[p' [E' [I' [M' [N' L']]]]]|[E' N']].
      * left. exists p'. split; [assumption|]. split; [assumption|]. split; [|split].
        -- intros x. rewrite M', M1, in_app_iff. tauto.
        -- apply NoDup_app_iff in N'. destruct N' as [_ [Nr Nd]].
           apply NoDup_app_iff in N1. destruct N1 as [_ [Ns Nds]].
           apply NoDup_app_iff. split; [apply elements_NoDup|]. split.
           ++ apply NoDup_app_iff. split; [assumption|]. split; [assumption|].
              intros x Hx. apply Nd. apply M1. now right.
           ++ intros x Hx Hin. apply in_app_iff in Hin. destruct Hin as [Hin|Hin].
              ** now apply (Nds x).
              ** apply (Nd x); [apply M1; now left | assumption].
        -- rewrite L', L1, app_length. lia.
      * right. split; [assumption|]. intros Hn. apply N'.
        apply NoDup_app_iff in Hn. destruct Hn as [_ [Hsr Hd]].
        apply NoDup_app_iff in Hsr. destruct Hsr as [_ [Hr Hdr]].
        apply NoDup_app_iff. split; [apply elements_NoDup|]. split; [assumption|].
        intros x Hx Hin. apply M1 in Hx. destruct Hx as [Hx|Hx].
        -- apply (Hd x Hx). apply in_app_iff. now right.
        -- now apply (Hdr x).
    + right. split; [reflexivity|]. intros Hn. apply N1.
      rewrite app_assoc in Hn. apply NoDup_app_iff in Hn. tauto.
Qed.

Lemma b_combine_loop_ok_all_some sigs : forall p p',
  b_combine_loop p sigs = COk p' -> exists ss, sigs = map Some ss.
Proof.
  induction sigs as [|a r IH]; intros p p' H; cbn [b_combine_loop] in H.
  - exists []. reflexivity.
  - destruct a as [s|]; [|discriminate].
    destruct (range_while b_callback s (BsOk p)) as [p1| |]; try discriminate.
    destruct (IH _ _ H) as [ss E]. exists (s :: ss). cbn [map]. now rewrite E.
Qed.

Lemma inv_empty : inv empty_bf.
Proof. reflexivity. Qed.

(* BLS Combine: a successful result has the size invariant (Len = number of distinct
   participants), contains exactly the participants of the inputs, none of which occurs in two
   inputs, and its Len is the sum of the inputs' participant counts *)
Theorem b_combine_ok : forall sigs p, b_combine sigs = COk p ->
  exists ss, sigs = map Some ss /\ (2 <= length ss)%nat /\ inv p /\
    (forall x, In x (elements p) <-> In x (all_elements ss)) /\
    NoDup (all_elements ss) /\ len p = length (all_elements ss).
Proof.
  intros sigs p H. unfold b_combine in H.
  destruct (Nat.ltb_spec (length sigs) 2) as [L|L]; [discriminate|].
  destruct (b_combine_loop_ok_all_some _ _ _ H) as [ss E]. subst sigs. exists ss.
  rewrite map_length in L.
  destruct (b_combine_loop_spec ss empty_bf inv_empty) as [[p' [E [I [M [Nd Ln]]]]]|[E _]];
    rewrite E in H; [|discriminate].
  inversion H; subst p'. cbn [elements empty_bf bf_data ids_from app] in *.
  repeat split; try assumption.
  - intros Hx. apply M in Hx. destruct Hx as [[]|]; assumption.
  - intros Hx. apply M. now right.
Qed.

Theorem b_combine_result : forall ss,
  match b_combine (map Some ss) with
  | COk _ => (2 <= length ss)%nat /\ NoDup (all_elements ss)
  | CErrMultiple => (length ss < 2)%nat
  | CErrOverlap => (2 <= length ss)%nat /\ ~ NoDup (all_elements ss)
  | CErrType => False
  | CPanic => False
  end.
Proof.
  intros ss. unfold b_combine. rewrite map_length.
  destruct (Nat.ltb_spec (length ss) 2) as [L|L]; [assumption|].
  destruct (b_combine_loop_spec ss empty_bf inv_empty) as [[p' [E [I [M [Nd Ln]]]]]|[E Nd]];
    rewrite E; cbn [elements empty_bf bf_data ids_from app] in *; auto.
Qed.

(* values built by signing, restoring from any bytes, and successful combining *)
Inductive b_built : bitfield -> Prop :=
| bb_sign i p : 1 <= i -> b_sign i = Ok p -> b_built p
| bb_wire bs : b_built (from_bytes bs)
| bb_combine ss p : Forall b_built ss -> b_combine (map Some ss) = COk p -> b_built p.

Theorem b_built_inv : forall p, b_built p ->
  inv p /\ len p = length (nodup N.eq_dec (enum p)) /\
  (forall x, 1 <= x -> (contains x p = Ok true <-> In x (enum p))).
Proof.
  intros p H. assert (I : inv p).
  { destruct H as [i p Hi E | bs | ss p _ E].
    - unfold b_sign in E. apply (add_inv i empty_bf p Hi inv_empty E).
    - apply from_bytes_any.
    - destruct (b_combine_ok _ _ E) as [ss' [_ [_ [I _]]]]. assumption. }
  split; [assumption|]. rewrite enum_elements. split.
  - unfold len. rewrite I. now rewrite nodup_fixed_point by apply elements_NoDup.
  - intros x Hx. now apply contains_true_iff.
Qed.

Theorem b_sign_spec : forall i, 1 <= i ->
  exists p, b_sign i = Ok p /\ enum p = [i] /\ len p = 1%nat.
Proof.
  intros i Hi. unfold b_sign. destruct (contains_add empty_bf i i Hi Hi) as [p [E _]].
  exists p. split; [assumption|].
  destruct (len_add empty_bf i p Hi inv_empty E) as [I [L M]].
  assert (El : elements p = [i]).
  { apply ssorted_ext; [apply elements_sorted | repeat constructor |].
    intros x. rewrite M. cbn [elements empty_bf bf_data ids_from In]. intuition. }
  split; [now rewrite enum_elements|]. unfold len. now rewrite I, El.
Qed.

(* ------------------------------------------------------------------ *)
(* IDSet methods on ANY signer list (wire-restored, unsorted, with repetitions) and the two
   constructors *)
Theorem multi_any_list : forall (l : multi),
  (forall x, m_contains x l = true <-> In x l) /\
  m_len l = length l /\ m_enum l = l /\
  (forall k, m_range_count k l = firstn (Nat.max 1 k) l) /\
  (forall St (f : St -> N -> St * bool) s, m_range_while f l s = fst (fold_until f l s)).
Proof.
  intros l. split; [intros; apply m_contains_In|]. split; [reflexivity|]. split; [reflexivity|]. split.
  - intros k. unfold m_range_count. rewrite m_range_while_spec, fold_until_count.
    cbn [length]. rewrite Nat.sub_0_r, app_nil_r. apply rev_involutive.
  - intros. apply m_range_while_spec.
Qed.

Lemma m_insert_perm x l : Permutation (m_insert x l) (x :: l).
Proof.
  induction l as [|y r IH]; cbn [m_insert]; [reflexivity|].
  destruct (x <=? y); [reflexivity|]. rewrite IH. apply perm_swap.
Qed.

Lemma m_insert_sorted x l : StronglySorted N.le l -> StronglySorted N.le (m_insert x l).
Proof.
  induction 1 as [|y r Hs IH Hf]; cbn [m_insert]; [repeat constructor|].
  destruct (N.leb_spec x y) as [L|L].
  - constructor; [constructor; assumption|]. constructor; [assumption|].
    eapply Forall_impl; [|exact Hf]. intros b Hb. cbv beta in *. lia.
  - constructor; [assumption|].
    apply Forall_forall. intros b Hb. apply (Permutation_in _ (m_insert_perm x r)) in Hb.
    destruct Hb as [<-|Hb]; [lia|]. rewrite Forall_forall in Hf. now apply Hf.
Qed.

(* NewMultiSorted: an ascending rearrangement of exactly the given signatures *)
Theorem new_sorted_spec : forall l,
  Permutation (m_new_sorted l) l /\ StronglySorted N.le (m_new_sorted l) /\
  m_len (m_new_sorted l) = length l /\ (forall x, m_contains x (m_new_sorted l) = true <-> In x l).
Proof.
  intros l. assert (P : Permutation (m_new_sorted l) l).
  { induction l as [|x l IH]; cbn [m_new_sorted fold_right]; [reflexivity|].
    fold (m_new_sorted l). rewrite m_insert_perm. now constructor. }
  split; [assumption|]. split; [|split].
  - clear P. induction l as [|x l IH]; cbn [m_new_sorted fold_right]; [constructor|].
    apply m_insert_sorted. exact IH.
  - unfold m_len. now apply Permutation_length.
  - intros x. rewrite m_contains_In. split; apply Permutation_in; [assumption | now symmetry].
Qed.

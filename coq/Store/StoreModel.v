(* Model of /repo/security/blockchain/blockchain.go (Store, LocalGet, Get, Extends, PruneToHeight),
   of the fetch filter qspec.RequestBlockQF in /repo/network/sender.go and of
   Committer.commit / commitInner in /repo/protocol/consensus/committer.go.
   Definitions only; proofs are in StoreProofs.v.

   PruneToHeight is modelled in its REPAIRED form (fixes/C13-prune-equivocation.patch): the
   committed blocks are found by following the parent hashes of the committed block through
   [blocks], not by following [blockAtHeight], which a block of an equivocating leader stored
   later overwrites. *)
From HS Require Import Base.Prelude.
Open Scope N_scope.

(* A block as far as the store looks at it. [b_hash] is the interned SHA-256 of the content. *)
Record block := B { b_hash : hash; b_parent : hash; b_view : view }.

Definition block_eqb (a b : block) : bool :=
  (b_hash a =? b_hash b) && (b_parent a =? b_parent b) && (b_view a =? b_view b).

(* Go maps as association lists: the first entry for a key is the live one. *)
Section AMap.
  Context {V : Type}.
  Fixpoint alookup (k : N) (m : list (N * V)) : option V :=
    match m with
    | [] => None
    | (k', v) :: r => if k' =? k then Some v else alookup k r
    end.
  Definition aset (k : N) (v : V) (m : list (N * V)) : list (N * V) := (k, v) :: m.
  Fixpoint adel (k : N) (m : list (N * V)) : list (N * V) :=
    match m with
    | [] => []
    | (k', v) :: r => if k' =? k then adel k r else (k', v) :: adel k r
    end.
End AMap.

(* type Blockchain struct { pruneHeight; blocks map[Hash]*Block; blockAtHeight map[View]*Block } *)
Record store := mkStore {
  blocks : list (hash * block);
  at_height : list (view * block);
  prune_height : view
}.

(* func (chain *Blockchain) Store(block) *)
Definition store_block (b : block) (st : store) : store :=
  match alookup (b_hash b) (blocks st) with
  | Some _ => st                                   (* "block already exists": return *)
  | None => mkStore (aset (b_hash b) b (blocks st))
                    (aset (b_view b) b (at_height st))
                    (prune_height st)
  end.

(* func New(...): empty maps, then Store(genesis) *)
Definition empty_store : store := mkStore [] [] 0.
Definition new_store (genesis : block) : store := store_block genesis empty_store.

(* func (chain *Blockchain) LocalGet(hash) *)
Definition local_get (st : store) (h : hash) : option block := alookup h (blocks st).

(* network/sender.go: func (q qspec) RequestBlockQF(in, replies): a reply is accepted only if the
   hash recomputed from its content is the requested one. Replies arrive in a Go map; all
   accepted replies have the same hash, so which of them is returned is immaterial. *)
Definition request_block_qf (h : hash) (replies : list block) : option block :=
  find (fun b => b_hash b =? h) replies.

(* func (chain *Blockchain) Get(hash).  [ans] is what sender.RequestBlock returned, [conc] are
   the blocks other goroutines stored while the lock was released for the fetch. *)
Definition get (st : store) (h : hash) (conc : list block) (ans : option block) : store * option block :=
  match alookup h (blocks st) with
  | Some b => (st, Some b)
  | None =>
      let st1 := fold_left (fun s b => store_block b s) conc st in
      match ans with
      | None => (st1, alookup h (blocks st1))       (* "check again in case the block arrived" *)
      | Some b =>
          (mkStore (aset h b (blocks st1)) (aset (b_view b) b (at_height st1)) (prune_height st1),
           Some b)
      end
  end.

(* The peers' replies to a request, per requested hash. *)
Definition otable := list (hash * list block).
Definition replies_for (tbl : otable) (h : hash) : list block :=
  match alookup h tbl with Some l => l | None => [] end.
(* the network layer: replies filtered by RequestBlockQF *)
Definition fetch_filtered (tbl : otable) (h : hash) : option block :=
  request_block_qf h (replies_for tbl h).
(* a sender without the filter (only used to compare Blockchain.Get on its own with the model) *)
Definition fetch_raw (tbl : otable) (h : hash) : option block := hd_error (replies_for tbl h).
Definition fetch_of (filtered : bool) (tbl : otable) : hash -> option block :=
  if filtered then fetch_filtered tbl else fetch_raw tbl.

(* func (chain *Blockchain) Extends(block, target):
     current := block; ok := true
     for ok && current.View() > target.View() { current, ok = chain.Get(current.Parent()) }
     return ok && current.Hash() == target.Hash()
   [None] = out of fuel (never with the fuel of [extends], see StoreProofs.extends_fuel). *)
Fixpoint extends_loop (fuel : nat) (st : store) (fetch : hash -> option block) (cur t : block)
  : store * option bool :=
  match fuel with
  | O => (st, None)
  | S k =>
      if b_view t <? b_view cur then
        let '(st1, r) := get st (b_parent cur) [] (fetch (b_parent cur)) in
        match r with
        | Some p => extends_loop k st1 fetch p t
        | None => (st1, Some false)
        end
      else (st, Some (b_hash cur =? b_hash t))
  end.

Definition total_replies (tbl : otable) : nat :=
  fold_right (fun e n => (length (snd e) + n)%nat) O tbl.
Definition extends_fuel (st : store) (tbl : otable) : nat :=
  S (S (length (blocks st) + total_replies tbl)).
Definition extends (filtered : bool) (st : store) (tbl : otable) (b t : block) : store * option bool :=
  extends_loop (extends_fuel st tbl) st (fetch_of filtered tbl) b t.

(* PruneToHeight (repaired), first loop:
     for b, ok := committed, committed != nil; ok && b.View() > chain.pruneHeight; b, ok = chain.blocks[b.Parent()] {
         onChain[b.Hash()] = true } *)
Fixpoint mark_chain (fuel : nat) (bl : list (hash * block)) (ph : view) (b : block) : list hash :=
  match fuel with
  | O => []
  | S k =>
      if ph <? b_view b then
        b_hash b :: match alookup (b_parent b) bl with
                    | Some p => mark_chain k bl ph p
                    | None => []
                    end
      else []
  end.

Definition marked (m : list hash) (h : hash) : bool := existsb (N.eqb h) m.

(* second loop:
     for h := height; h > chain.pruneHeight; h-- {
         if block, ok := chain.blockAtHeight[h]; ok && !onChain[block.Hash()] { forked = append(forked, block) }
         delete(chain.blockAtHeight, h) } *)
Fixpoint prune_loop (fuel : nat) (h ph : view) (m : list hash) (ah : list (view * block)) (acc : list block)
  : list (view * block) * list block :=
  match fuel with
  | O => (ah, acc)
  | S k =>
      if ph <? h then
        let acc' := match alookup h ah with
                    | Some b => if marked m (b_hash b) then acc else acc ++ [b]
                    | None => acc
                    end in
        prune_loop k (h - 1) ph m (adel h ah) acc'
      else (ah, acc)
  end.

(* func (chain *Blockchain) PruneToHeight(committed *Block, height View) (forkedBlocks []*Block) *)
Definition prune_to_height (st : store) (c : block) (height : view) : store * list block :=
  let m := mark_chain (S (length (blocks st))) (blocks st) (prune_height st) c in
  let '(ah, forked) := prune_loop (N.to_nat (height - prune_height st)) height (prune_height st) m (at_height st) [] in
  (mkStore (blocks st) ah height, forked).

(* committer.go: commitInner(block, committedBlock): the blocks to execute, oldest first;
   [None] = "failed to locate block" (nothing has been emitted at that point). *)
Fixpoint commit_inner (fuel : nat) (st : store) (fetch : hash -> option block) (b cb : block)
  : store * option (list block) :=
  match fuel with
  | O => (st, None)
  | S k =>
      if b_view b <=? b_view cb then (st, Some [])
      else
        let '(st1, r) := get st (b_parent b) [] (fetch (b_parent b)) in
        match r with
        | Some p =>
            let '(st2, r2) := commit_inner k st1 fetch p cb in
            match r2 with
            | Some l => (st2, Some (l ++ [b]))
            | None => (st2, None)
            end
        | None => (st1, None)
        end
  end.

(* the replica-side state the committer works on: the store and viewStates.CommittedBlock() *)
Record sys := mkSys { s_store : store; s_committed : block }.

Inductive commit_result :=
| CErr                                           (* error returned, no event *)
| CDone (executed : list block) (aborted : list block).

(* func (cm *Committer) commit(block) *)
Definition commit (filtered : bool) (s : sys) (tbl : otable) (b : block) : sys * commit_result :=
  let st := s_store s in
  let '(st1, r) := commit_inner (extends_fuel st tbl) st (fetch_of filtered tbl) b (s_committed s) in
  match r with
  | None => (mkSys st1 (s_committed s), CErr)
  | Some l =>
      let cb := last l (s_committed s) in          (* viewStates.UpdateCommittedBlock per block *)
      let '(st2, forked) := prune_to_height st1 cb (b_view b) in
      (mkSys st2 cb, CDone l forked)
  end.

(* Operation sequences, as driven by the harnesses and quantified over by the theorems. *)
Inductive op :=
| OStore (b : block)
| OLocalGet (h : hash)
| OGet (h : hash) (conc : list block) (replies : list block)
| OExtends (b t : block) (tbl : otable)
| OPrune (c : block) (height : view)
| OCommit (b : block) (tbl : otable).

Inductive obs :=
| RUnit
| RBlock (o : option block)
| RBool (o : option bool)
| RBlocks (l : list block)
| RCommit (r : commit_result)
| RPanic.                      (* a Go panic seen by the harness; the model never answers this *)

Definition step (filtered : bool) (s : sys) (o : op) : sys * obs :=
  let st := s_store s in
  let cb := s_committed s in
  match o with
  | OStore b => (mkSys (store_block b st) cb, RUnit)
  | OLocalGet h => (s, RBlock (local_get st h))
  | OGet h conc replies =>
      let '(st', r) := get st h conc (fetch_of filtered [(h, replies)] h) in (mkSys st' cb, RBlock r)
  | OExtends b t tbl =>
      let '(st', r) := extends filtered st tbl b t in (mkSys st' cb, RBool r)
  | OPrune c height =>
      let '(st', l) := prune_to_height st c height in (mkSys st' cb, RBlocks l)
  | OCommit b tbl =>
      let '(s', r) := commit filtered s tbl b in (s', RCommit r)
  end.

Fixpoint run (filtered : bool) (s : sys) (ops : list op) : sys * list obs :=
  match ops with
  | [] => (s, [])
  | o :: r =>
      let '(s1, x) := step filtered s o in
      let '(s2, xs) := run filtered s1 r in
      (s2, x :: xs)
  end.

Definition new_sys (genesis : block) : sys := mkSys (new_store genesis) genesis.

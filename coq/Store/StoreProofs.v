(* Proofs about StoreModel.v for C13. *)
From HS Require Import Base.Prelude Store.StoreModel.
From Coq Require Import ZifyBool ZifyN.
Open Scope N_scope.

(* ------------------------------------------------------------------------------------------ *)
(* association lists *)
Section AMapFacts.
  Context {V : Type}.
  Implicit Types (m : list (N * V)).

  Lemma alookup_aset_eq k v m : alookup k (aset k v m) = Some v.
  Proof. unfold aset; cbn. now rewrite N.eqb_refl. Qed.

  Lemma alookup_aset_neq k k' v m : k' <> k -> alookup k (aset k' v m) = alookup k m.
  Proof. intros H. unfold aset; cbn. destruct (N.eqb_spec k' k); congruence. Qed.

  Lemma alookup_adel_eq k m : alookup k (adel k m) = None.
  Proof.
    induction m as [|[k' v] r IH]; cbn; auto.
    destruct (N.eqb_spec k' k); auto. cbn. destruct (N.eqb_spec k' k); congruence.
  Qed.

  Lemma alookup_adel_neq k k' m : k' <> k -> alookup k (adel k' m) = alookup k m.
  Proof.
    intros H. induction m as [|[k2 v] r IH]; cbn; auto.
    destruct (N.eqb_spec k2 k'); subst.
    - destruct (N.eqb_spec k' k); congruence.
    - cbn. destruct (N.eqb_spec k2 k); congruence.
  Qed.

  Lemma alookup_adel_some k k' m v : alookup k (adel k' m) = Some v -> alookup k m = Some v /\ k <> k'.
  Proof.
    intros H. destruct (N.eq_dec k' k) as [->|Hn].
    - rewrite alookup_adel_eq in H. discriminate.
    - rewrite alookup_adel_neq in H by auto. split; auto.
  Qed.

  Lemma alookup_In k m v : alookup k m = Some v -> In (k, v) m.
  Proof.
    induction m as [|[k' v'] r IH]; cbn; try discriminate.
    destruct (N.eqb_spec k' k); intros H.
    - inversion H; subst. now left.
    - right; auto.
  Qed.
End AMapFacts.

(* ------------------------------------------------------------------------------------------ *)
(* invariants that need no assumption about hashes *)

(* content addressing: what is filed under h has hash h *)
Definition ca (st : store) : Prop := forall k b, alookup k (blocks st) = Some b -> b_hash b = k.
(* blockAtHeight[v] has view v *)
Definition ah_keyed (st : store) : Prop := forall v b, alookup v (at_height st) = Some b -> b_view b = v.
(* a sender whose answers have the requested hash (what RequestBlockQF guarantees) *)
Definition honest (fetch : hash -> option block) : Prop := forall h b, fetch h = Some b -> b_hash b = h.

Lemma qf_hash h replies b : request_block_qf h replies = Some b -> b_hash b = h.
Proof. unfold request_block_qf. intros H. apply find_some in H as [_ H]. now apply N.eqb_eq. Qed.

Lemma qf_In h replies b : request_block_qf h replies = Some b -> In b replies.
Proof. unfold request_block_qf. intros H. now apply find_some in H. Qed.

Lemma fetch_filtered_honest tbl : honest (fetch_filtered tbl).
Proof. intros h b. apply qf_hash. Qed.

Lemma ca_empty : ca empty_store.
Proof. intros k b; cbn; discriminate. Qed.

Lemma store_block_ca b st : ca st -> ca (store_block b st).
Proof.
  intros H. unfold store_block. destruct (alookup (b_hash b) (blocks st)) eqn:E; auto.
  intros k x; cbn. destruct (N.eqb_spec (b_hash b) k); intros Hx.
  - now inversion Hx; subst.
  - now apply H.
Qed.

Lemma ca_new g : ca (new_store g).
Proof. apply store_block_ca, ca_empty. Qed.

Lemma fold_store_ca conc st : ca st -> ca (fold_left (fun s b => store_block b s) conc st).
Proof. revert st; induction conc as [|b r IH]; cbn; auto. intros st H. apply IH, store_block_ca, H. Qed.

Lemma get_ca st h conc ans st' r :
  ca st -> (forall b, ans = Some b -> b_hash b = h) ->
  get st h conc ans = (st', r) -> ca st' /\ (forall b, r = Some b -> b_hash b = h).
Proof.
  intros Hca Hans. unfold get. destruct (alookup h (blocks st)) eqn:E.
  - intros H; inversion H; subst. split; auto. intros b' Hb; inversion Hb; subst. eapply Hca; eauto.
  - pose proof (fold_store_ca conc st Hca) as Hc1.
    destruct ans as [b|]; intros H; inversion H; subst; clear H.
    + split.
      * intros k x; cbn. destruct (N.eqb_spec h k); intros Hx.
        -- inversion Hx; subst. now apply Hans.
        -- now apply Hc1.
      * intros b' Hb; inversion Hb; subst. now apply Hans.
    + split; auto.
Qed.

Lemma extends_loop_ca fetch t : honest fetch -> forall fuel st cur st' r,
  ca st -> extends_loop fuel st fetch cur t = (st', r) -> ca st'.
Proof.
  intros Hf. induction fuel as [|k IH]; cbn; intros st cur st' r Hca H.
  - now inversion H; subst.
  - destruct (b_view t <? b_view cur).
    + destruct (get st (b_parent cur) [] (fetch (b_parent cur))) as [st1 r1] eqn:G.
      apply get_ca in G as [Hc1 _]; auto.
      destruct r1; [eapply IH; eauto | now inversion H; subst].
    + now inversion H; subst.
Qed.

Lemma prune_blocks st c height : blocks (fst (prune_to_height st c height)) = blocks st.
Proof. unfold prune_to_height. destruct prune_loop. reflexivity. Qed.

Lemma prune_ca st c height : ca st -> ca (fst (prune_to_height st c height)).
Proof. unfold ca. now rewrite prune_blocks. Qed.

Lemma commit_inner_ca fetch cb : honest fetch -> forall fuel st b st' r,
  ca st -> commit_inner fuel st fetch b cb = (st', r) -> ca st'.
Proof.
  intros Hf. induction fuel as [|k IH]; cbn; intros st b st' r Hca H.
  - now inversion H; subst.
  - destruct (b_view b <=? b_view cb).
    + now inversion H; subst.
    + destruct (get st (b_parent b) [] (fetch (b_parent b))) as [st1 r1] eqn:G.
      apply get_ca in G as [Hc1 _]; auto.
      destruct r1 as [p|]; [|now inversion H; subst].
      destruct (commit_inner k st1 fetch p cb) as [st2 r2] eqn:E.
      apply IH in E; auto. destruct r2; now inversion H; subst.
Qed.

Lemma commit_ca s tbl b s' r :
  ca (s_store s) -> commit true s tbl b = (s', r) -> ca (s_store s').
Proof.
  intros Hca. unfold commit.
  destruct (commit_inner _ _ _ _ _) as [st1 r1] eqn:E.
  apply commit_inner_ca in E; auto using fetch_filtered_honest.
  destruct r1 as [l|].
  - destruct (prune_to_height st1 (last l (s_committed s)) (b_view b)) as [st2 forked] eqn:P.
    intros H; inversion H; subst; cbn. change st2 with (fst (st2, forked)). rewrite <- P. now apply prune_ca.
  - intros H; inversion H; subst; cbn. exact E.
Qed.

(* what an observation must satisfy to be "a block with the requested hash" *)
Definition obs_ok (o : op) (x : obs) : Prop :=
  match o, x with
  | OGet h _ _, RBlock (Some b) => b_hash b = h
  | OLocalGet h, RBlock (Some b) => b_hash b = h
  | _, _ => True
  end.

Lemma step_ca s o s' x :
  ca (s_store s) -> step true s o = (s', x) -> ca (s_store s') /\ obs_ok o x.
Proof.
  intros Hca. destruct o; cbn [step].
  - intros H. injection H as <- <-. cbn. split; auto using store_block_ca.
  - intros H. injection H as <- <-. cbn. split; auto.
    unfold local_get. destruct (alookup h (blocks (s_store s))) eqn:E; eauto.
  - destruct (get _ _ _ _) as [st' r] eqn:G. intros H. injection H as <- <-. cbn [s_store].
    apply get_ca in G as [Hc Hr]; auto.
    + split; auto. destruct r; cbn; auto.
    + intros b. apply fetch_filtered_honest.
  - destruct (extends true (s_store s) tbl b t) as [st' r] eqn:E.
    intros H. injection H as <- <-. cbn [s_store]. split; [|exact I].
    unfold extends in E. eapply extends_loop_ca in E; eauto. apply fetch_filtered_honest.
  - destruct (prune_to_height (s_store s) c height) as [st' l] eqn:P.
    intros H. injection H as <- <-. cbn [s_store]. split; [|exact I].
    change st' with (fst (st', l)). rewrite <- P. now apply prune_ca.
  - destruct (commit true s tbl b) as [s1 r] eqn:E. intros H. injection H as <- <-.
    split; [|exact I]. eapply commit_ca; eauto.
Qed.

Lemma run_ca ops : forall s s' xs,
  ca (s_store s) -> run true s ops = (s', xs) -> ca (s_store s') /\ Forall2 obs_ok ops xs.
Proof.
  induction ops as [|o r IH]; cbn; intros s s' xs Hca H.
  - inversion H; subst. split; auto.
  - destruct (step true s o) as [s1 x] eqn:S. destruct (run true s1 r) as [s2 xs'] eqn:R.
    inversion H; subst. apply step_ca in S as [Hc1 Ho]; auto.
    apply IH in R as [Hc2 Hf]; auto.
Qed.

(* Theorem: content addressing over every history, for every peer behaviour *)
Theorem content_addressed : forall genesis ops s xs,
  run true (new_sys genesis) ops = (s, xs) ->
  ca (s_store s) /\ Forall2 obs_ok ops xs.
Proof. intros g ops s xs H. eapply run_ca; eauto. cbn. apply ca_new. Qed.

Theorem get_returns_requested : forall st h conc replies st' b,
  ca st -> get st h conc (request_block_qf h replies) = (st', Some b) -> b_hash b = h /\ ca st'.
Proof.
  intros st h conc replies st' b Hca G. apply get_ca in G as [Hc Hr]; auto.
  intros x. apply qf_hash.
Qed.

(* ------------------------------------------------------------------------------------------ *)
(* storing again changes nothing *)
Theorem store_present_noop : forall st b x,
  alookup (b_hash b) (blocks st) = Some x -> store_block b st = st.
Proof. intros st b x H. unfold store_block. now rewrite H. Qed.

Theorem store_idempotent : forall st b, store_block b (store_block b st) = store_block b st.
Proof.
  intros st b. unfold store_block at 2. destruct (alookup (b_hash b) (blocks st)) eqn:E.
  - unfold store_block. now rewrite E.
  - unfold store_block; cbn. now rewrite N.eqb_refl, E.
Qed.

(* ------------------------------------------------------------------------------------------ *)
(* block forests: a universe G of blocks, filed by hash, in which views grow along parent links *)
Definition forest (G : list (hash * block)) : Prop :=
  (forall k b, alookup k G = Some b -> b_hash b = k) /\
  (forall k b p, alookup k G = Some b -> alookup (b_parent b) G = Some p -> b_view p < b_view b).
Definition inG (G : list (hash * block)) (b : block) : Prop := alookup (b_hash b) G = Some b.
(* the store holds some of the forest's blocks (possibly with gaps) *)
Definition sub (st : store) (G : list (hash * block)) : Prop :=
  forall k b, alookup k (blocks st) = Some b -> alookup k G = Some b.
Definition fetch_in (G : list (hash * block)) (fetch : hash -> option block) : Prop :=
  forall h b, fetch h = Some b -> alookup h G = Some b.

(* t is x itself or lies on x's parent chain, as far as the parents are present in the store *)
Inductive reach (st : store) : block -> block -> Prop :=
| reach_here x t : b_hash x = b_hash t -> reach st x t
| reach_up x p t : alookup (b_parent x) (blocks st) = Some p -> reach st p t -> reach st x t.

Lemma inG_eq G a b : inG G a -> inG G b -> b_hash a = b_hash b -> a = b.
Proof. unfold inG. intros Ha Hb E. rewrite E in Ha. congruence. Qed.

Lemma sub_inG G st k b : forest G -> sub st G -> alookup k (blocks st) = Some b -> inG G b /\ b_hash b = k.
Proof.
  intros [Hca _] Hs H. apply Hs in H. pose proof (Hca _ _ H) as E. unfold inG. now rewrite E.
Qed.

Lemma parent_view G x p : forest G -> inG G x -> alookup (b_parent x) G = Some p -> b_view p < b_view x.
Proof. intros [_ Hm] Hx Hp. eapply Hm; eauto. Qed.

Lemma reach_view G st x t : forest G -> sub st G -> inG G x -> inG G t -> reach st x t -> b_view t <= b_view x.
Proof.
  intros HG Hs Hx Ht R. induction R as [x t E | x p t Hp R IH].
  - rewrite (inG_eq G x t); auto. lia.
  - destruct (sub_inG G st _ _ HG Hs Hp) as [Hpi _].
    specialize (IH Hpi Ht). pose proof (parent_view G x p HG Hx (Hs _ _ Hp)). lia.
Qed.

(* the walk's measure: how many of the blocks it can ever meet have a view below v *)
Definition count_lt (L : list block) (v : view) : nat := length (filter (fun x => b_view x <? v) L).

Lemma filter_length_lt {A} (f g : A -> bool) (l : list A) (a : A) :
  (forall x, f x = true -> g x = true) -> In a l -> f a = false -> g a = true ->
  (length (filter f l) < length (filter g l))%nat.
Proof.
  intros Himp. induction l as [|y r IH]; cbn; [tauto|].
  assert (Hle : forall l', (length (filter f l') <= length (filter g l'))%nat).
  { induction l' as [|z r' IH']; cbn; auto. destruct (f z) eqn:Fz.
    - rewrite (Himp _ Fz). cbn. lia.
    - destruct (g z); cbn; lia. }
  intros [->|Hin] Fa Ga.
  - rewrite Fa, Ga. cbn. specialize (Hle r). lia.
  - specialize (IH Hin Fa Ga). destruct (f y) eqn:Fy.
    + rewrite (Himp _ Fy). cbn. lia.
    + destruct (g y); cbn; lia.
Qed.

Lemma count_lt_step L p v : In p L -> b_view p < v -> (count_lt L (b_view p) < count_lt L v)%nat.
Proof.
  intros Hin Hlt. unfold count_lt. apply filter_length_lt with (a := p); auto.
  - intros x Hx. apply N.ltb_lt in Hx. apply N.ltb_lt. lia.
  - apply N.ltb_ge. lia.
  - apply N.ltb_lt. lia.
Qed.

Lemma count_lt_le L v : (count_lt L v <= length L)%nat.
Proof. unfold count_lt. induction L as [|x r IH]; cbn; auto. destruct (b_view x <? v); cbn; lia. Qed.

Definition stable (st st' : store) : Prop :=
  forall k b, alookup k (blocks st) = Some b -> alookup k (blocks st') = Some b.
Definition vals_in (st : store) (L : list block) : Prop :=
  forall k b, alookup k (blocks st) = Some b -> In b L.

(* Get with no concurrent arrivals, against a forest *)
Lemma get_forest G L st h fetch st' r :
  sub st G -> fetch_in G fetch -> vals_in st L -> (forall k b, fetch k = Some b -> In b L) ->
  get st h [] (fetch h) = (st', r) ->
  sub st' G /\ stable st st' /\ vals_in st' L /\ r = alookup h (blocks st').
Proof.
  intros Hs Hf Hv HfL. unfold get. destruct (alookup h (blocks st)) eqn:E.
  - intros H; injection H as <- <-. repeat split; auto. red; auto.
  - cbn [fold_left]. destruct (fetch h) as [b|] eqn:F.
    + intros H; injection H as <- <-. repeat split.
      * intros k x; cbn. destruct (N.eqb_spec h k) as [<-|]; intros Hx; [|now apply Hs].
        injection Hx as <-. now apply Hf.
      * intros k x Hx; cbn. destruct (N.eqb_spec h k) as [<-|]; auto. congruence.
      * intros k x; cbn. destruct (N.eqb_spec h k) as [<-|]; intros Hx; [|eapply Hv; eauto].
        injection Hx as <-. eapply HfL; eauto.
      * cbn. now rewrite N.eqb_refl.
    + intros H; injection H as <- <-. repeat split; auto. red; auto.
Qed.

Lemma extends_loop_exact G L fetch t :
  forest G -> fetch_in G fetch -> (forall k b, fetch k = Some b -> In b L) -> inG G t ->
  forall fuel st cur,
    sub st G -> vals_in st L -> inG G cur -> (count_lt L (b_view cur) < fuel)%nat ->
    exists st' r, extends_loop fuel st fetch cur t = (st', Some r) /\
                  sub st' G /\ stable st st' /\ (r = true <-> reach st' cur t).
Proof.
  intros HG Hf HfL Ht. induction fuel as [|k IH]; intros st cur Hs Hv Hc Hm; [lia|].
  cbn [extends_loop]. destruct (N.ltb_spec (b_view t) (b_view cur)) as [Hlt|Hge].
  - destruct (get st (b_parent cur) [] (fetch (b_parent cur))) as [st1 r1] eqn:Gt.
    destruct (get_forest G L _ _ _ _ _ Hs Hf Hv HfL Gt) as (Hs1 & Hst1 & Hv1 & Hr1).
    destruct r1 as [p|].
    + symmetry in Hr1. destruct (sub_inG G st1 _ _ HG Hs1 Hr1) as [Hpi Hph].
      pose proof (parent_view G cur p HG Hc (Hs1 _ _ Hr1)) as Hpv.
      assert (HpL : In p L) by (eapply Hv1; eauto).
      pose proof (count_lt_step L p (b_view cur) HpL Hpv) as Hcnt.
      destruct (IH st1 p Hs1 Hv1 Hpi ltac:(lia)) as (st' & r & He & Hs' & Hst' & Hr).
      exists st', r. repeat split; auto.
      * intros k' b' Hb'. auto.
      * intros Hrt. eapply reach_up; [apply Hst'; eauto|]. now apply Hr.
      * intros R. apply Hr. inversion R as [x t' E | x p' t' Hp' R']; subst.
        -- rewrite (inG_eq G cur t Hc Ht E) in Hlt. lia.
        -- apply Hst' in Hr1. rewrite Hr1 in Hp'. now injection Hp' as <-.
    + exists st1, false. repeat split; auto; try discriminate.
      intros R. inversion R as [x t' E | x p' t' Hp' R']; subst.
      * rewrite (inG_eq G cur t Hc Ht E) in Hlt. lia.
      * congruence.
  - exists st, (b_hash cur =? b_hash t). repeat split; auto; [red; auto| |].
    + intros E. apply reach_here. now apply N.eqb_eq.
    + intros R. inversion R as [x t' E | x p' t' Hp' R']; subst; [now apply N.eqb_eq|].
      destruct (sub_inG G st _ _ HG Hs Hp') as [Hpi _].
      pose proof (reach_view G st p' t HG Hs Hpi Ht R').
      pose proof (parent_view G cur p' HG Hc (Hs _ _ Hp')). lia.
Qed.

Definition replies_in (G : list (hash * block)) (tbl : otable) : Prop :=
  forall k l r, In (k, l) tbl -> In r l -> b_hash r = k -> inG G r.

Lemma total_replies_concat tbl : total_replies tbl = length (concat (map snd tbl)).
Proof. induction tbl as [|[k l] r IH]; cbn; auto. rewrite app_length. unfold total_replies in IH. now rewrite IH. Qed.

Lemma fetch_filtered_In tbl h x : fetch_filtered tbl h = Some x ->
  b_hash x = h /\ exists l, In (h, l) tbl /\ In x l.
Proof.
  unfold fetch_filtered, replies_for. intros H. split; [now apply qf_hash in H|].
  apply qf_In in H. destruct (alookup h tbl) as [l|] eqn:E; [|destruct H].
  exists l. split; auto. now apply alookup_In.
Qed.

Theorem extends_exact : forall G st tbl b t,
  forest G -> sub st G -> replies_in G tbl -> inG G b -> inG G t ->
  exists st' r, extends true st tbl b t = (st', Some r) /\ sub st' G /\ stable st st' /\
                (r = true <-> reach st' b t).
Proof.
  intros G st tbl b t HG Hs Hr Hb Ht. unfold extends. cbn [fetch_of].
  set (L := map snd (blocks st) ++ concat (map snd tbl)).
  apply (extends_loop_exact G L); auto.
  - intros h x Hx. apply fetch_filtered_In in Hx as (Hh & l & Hl & Hxl).
    specialize (Hr _ _ _ Hl Hxl Hh). unfold inG in Hr. now rewrite Hh in Hr.
  - intros h x Hx. apply fetch_filtered_In in Hx as (Hh & l & Hl & Hxl).
    unfold L. apply in_or_app. right. apply in_concat. exists l. split; auto.
    apply in_map_iff. now exists (h, l).
  - intros k x Hx. unfold L. apply in_or_app. left. apply in_map_iff. exists (k, x). split; auto.
    now apply alookup_In.
  - pose proof (count_lt_le L (b_view b)). unfold extends_fuel.
    assert (length L = (length (blocks st) + total_replies tbl)%nat).
    { unfold L. now rewrite app_length, map_length, total_replies_concat. }
    lia.
Qed.

(* the purely local case: nobody answers; the store is unchanged *)
Lemma get_local st h : get st h [] None = (st, alookup h (blocks st)).
Proof. unfold get. destruct (alookup h (blocks st)) eqn:E; cbn; [reflexivity|now rewrite E]. Qed.

Lemma extends_loop_local t : forall fuel st cur st' r,
  extends_loop fuel st (fun _ => None) cur t = (st', r) -> st' = st.
Proof.
  induction fuel as [|k IH]; cbn; intros st cur st' r H; [now injection H|].
  destruct (b_view t <? b_view cur); [|now injection H].
  rewrite get_local in H. destruct (alookup (b_parent cur) (blocks st)); [eauto|now injection H].
Qed.

Theorem extends_exact_local : forall G st b t,
  forest G -> sub st G -> inG G b -> inG G t ->
  exists r, extends true st [] b t = (st, Some r) /\ (r = true <-> reach st b t).
Proof.
  intros G st b t HG Hs Hb Ht.
  destruct (extends_exact G st [] b t HG Hs) as (st' & r & E & _ & _ & Hr); auto.
  { intros k l x []. }
  assert (st' = st).
  { unfold extends in E. cbn [fetch_of] in E.
    replace (fetch_filtered []) with (fun _ : hash => @None block) in E; [eapply extends_loop_local; eauto|].
    reflexivity. }
  subst. eauto.
Qed.

(* ------------------------------------------------------------------------------------------ *)
(* PruneToHeight *)

Definition ah_in_blocks (st : store) : Prop :=
  forall v b, alookup v (at_height st) = Some b -> alookup (b_hash b) (blocks st) = Some b.

Lemma marked_In m h : marked m h = true <-> In h m.
Proof.
  unfold marked. rewrite existsb_exists. split.
  - intros (x & Hx & E). apply N.eqb_eq in E. now subst.
  - intros H. exists h. split; auto. apply N.eqb_refl.
Qed.

Lemma NoDup_app_one {A} (l : list A) (a : A) : NoDup l -> ~ In a l -> NoDup (l ++ [a]).
Proof.
  induction l as [|x r IH]; cbn; intros Hn Hin.
  - constructor; auto.
  - inversion Hn; subst. constructor.
    + intros H. apply in_app_or in H as [H|[->|[]]]; auto.
    + apply IH; auto.
Qed.

Lemma prune_loop_spec m ph : forall fuel h ah acc ah' out,
  (forall v b, alookup v ah = Some b -> b_view b = v) ->
  (forall x, In x acc -> h < b_view x) -> NoDup (map b_view acc) ->
  prune_loop fuel h ph m ah acc = (ah', out) ->
  (forall r, In r out -> In r acc \/
      exists v, ph < v <= h /\ alookup v ah = Some r /\ marked m (b_hash r) = false) /\
  (forall v b, alookup v ah' = Some b -> alookup v ah = Some b) /\
  NoDup (map b_view out).
Proof.
  induction fuel as [|k IH]; cbn [prune_loop]; intros h ah acc ah' out Hk Hacc Hnd H.
  - injection H as <- <-. repeat split; auto.
  - destruct (N.ltb_spec ph h) as [Hlt|Hge]; [|injection H as <- <-; repeat split; auto].
    set (acc' := match alookup h ah with
                 | Some b => if marked m (b_hash b) then acc else acc ++ [b]
                 | None => acc end) in H.
    assert (Hk' : forall v b, alookup v (adel h ah) = Some b -> b_view b = v).
    { intros v b Hb. apply alookup_adel_some in Hb as [Hb _]. auto. }
    assert (Hacc' : forall x, In x acc' -> h - 1 < b_view x).
    { intros x Hx. unfold acc' in Hx. destruct (alookup h ah) as [b|] eqn:E.
      - destruct (marked m (b_hash b)); [apply Hacc in Hx; lia|].
        apply in_app_or in Hx as [Hx|[<-|[]]]; [apply Hacc in Hx; lia|]. rewrite (Hk _ _ E). lia.
      - apply Hacc in Hx; lia. }
    assert (Hnd' : NoDup (map b_view acc')).
    { unfold acc'. destruct (alookup h ah) as [b|] eqn:E; auto.
      destruct (marked m (b_hash b)); auto.
      rewrite map_app. cbn. apply NoDup_app_one; auto.
      intros Hin. apply in_map_iff in Hin as (x & Ex & Hx). apply Hacc in Hx. rewrite (Hk _ _ E) in Ex. lia. }
    destruct (IH _ _ _ _ _ Hk' Hacc' Hnd' H) as (Ho & Ha & Hn). repeat split; auto.
    + intros r Hr. destruct (Ho r Hr) as [Hin|(v & Hv & Hl & Hm)].
      * unfold acc' in Hin. destruct (alookup h ah) as [b|] eqn:E; auto.
        destruct (marked m (b_hash b)) eqn:Mb; auto.
        apply in_app_or in Hin as [Hin|[<-|[]]]; auto.
        right. exists h. repeat split; auto; lia.
      * apply alookup_adel_some in Hl as [Hl _]. right. exists v. repeat split; auto; lia.
    + intros v b Hb. apply Ha in Hb. now apply alookup_adel_some in Hb as [Hb _].
Qed.

Lemma mark_complete G L st ph r :
  forest G -> sub st G -> vals_in st L -> inG G r -> ph < b_view r ->
  forall fuel x, inG G x -> (count_lt L (b_view x) < fuel)%nat -> reach st x r ->
    In (b_hash r) (mark_chain fuel (blocks st) ph x).
Proof.
  intros HG Hs Hv Hr Hph. induction fuel as [|k IH]; intros x Hx Hm R; [lia|].
  pose proof (reach_view G st x r HG Hs Hx Hr R) as Hvx.
  cbn [mark_chain]. destruct (N.ltb_spec ph (b_view x)); [|lia].
  inversion R as [x' t' E | x' p t' Hp R']; subst.
  - left; auto.
  - right. rewrite Hp. destruct (sub_inG G st _ _ HG Hs Hp) as [Hpi _].
    apply IH; auto.
    pose proof (parent_view G x p HG Hx (Hs _ _ Hp)) as Hpv.
    assert (HpL : In p L) by (eapply Hv; eauto).
    pose proof (count_lt_step L p (b_view x) HpL Hpv). lia.
Qed.

Lemma vals_in_self st : vals_in st (map snd (blocks st)).
Proof. intros k x Hx. apply in_map_iff. exists (k, x). split; auto. now apply alookup_In. Qed.

(* no reported block lies on the parent chain of the committed block (or is that block) *)
Theorem prune_sound : forall G st c height st' forked,
  forest G -> sub st G -> ah_keyed st -> ah_in_blocks st -> inG G c ->
  prune_to_height st c height = (st', forked) ->
  forall r, In r forked -> ~ reach st c r.
Proof.
  intros G st c height st' forked HG Hs Hk Hi Hc. unfold prune_to_height.
  set (m := mark_chain _ _ _ c).
  destruct (prune_loop _ _ _ _ _ _) as [ah out] eqn:P. intros H; injection H as <- <-.
  intros r Hr R.
  apply prune_loop_spec in P as (Ho & _ & _); auto; [|intros x []|constructor].
  destruct (Ho r Hr) as [[]|(v & Hv & Hl & Hm)].
  pose proof (Hk _ _ Hl) as Hrv. pose proof (Hi _ _ Hl) as Hrb.
  destruct (sub_inG G st _ _ HG Hs Hrb) as [Hri _].
  assert (In (b_hash r) m).
  { unfold m. apply (mark_complete G (map snd (blocks st))); auto using vals_in_self; [lia|].
    pose proof (count_lt_le (map snd (blocks st)) (b_view c)). rewrite map_length in *. lia. }
  apply marked_In in H. congruence.
Qed.

(* one prune: the reported blocks have pairwise different views, all in (old prune height, height] *)
Lemma prune_views st c height st' forked :
  ah_keyed st -> prune_to_height st c height = (st', forked) ->
  NoDup (map b_view forked) /\ (forall r, In r forked -> prune_height st < b_view r <= height) /\
  ah_keyed st' /\ prune_height st' = height /\ blocks st' = blocks st /\
  (forall v b, alookup v (at_height st') = Some b -> alookup v (at_height st) = Some b).
Proof.
  intros Hk. unfold prune_to_height.
  destruct (prune_loop _ _ _ _ _ _) as [ah out] eqn:P. intros H; injection H as <- <-.
  apply prune_loop_spec in P as (Ho & Ha & Hn); auto; [|intros x []|constructor].
  repeat split; auto.
  - destruct (Ho r H) as [[]|(v & Hv & Hl & _)]. rewrite (Hk _ _ Hl). lia.
  - destruct (Ho r H) as [[]|(v & Hv & Hl & _)]. rewrite (Hk _ _ Hl). lia.
  - intros v b Hb. cbn in Hb. apply Ha in Hb. auto.
Qed.

(* ------------------------------------------------------------------------------------------ *)
(* blockAtHeight stays keyed by view, whatever the peers answer *)

Lemma store_block_keyed b st : ah_keyed st -> ah_keyed (store_block b st).
Proof.
  intros H. unfold store_block. destruct (alookup (b_hash b) (blocks st)); auto.
  intros v x; cbn. destruct (N.eqb_spec (b_view b) v); intros Hx; [now injection Hx as <-|now apply H].
Qed.

Lemma store_block_ph b st : prune_height (store_block b st) = prune_height st.
Proof. unfold store_block. now destruct (alookup (b_hash b) (blocks st)). Qed.

Lemma fold_store_keyed conc st : ah_keyed st -> ah_keyed (fold_left (fun s b => store_block b s) conc st).
Proof. revert st; induction conc as [|b r IH]; cbn; auto. intros st H. apply IH, store_block_keyed, H. Qed.

Lemma fold_store_ph conc st : prune_height (fold_left (fun s b => store_block b s) conc st) = prune_height st.
Proof. revert st; induction conc as [|b r IH]; cbn; auto. intros st. now rewrite IH, store_block_ph. Qed.

Lemma get_keyed st h conc ans st' r :
  ah_keyed st -> get st h conc ans = (st', r) -> ah_keyed st' /\ prune_height st' = prune_height st.
Proof.
  intros Hk. unfold get. destruct (alookup h (blocks st)).
  - intros H; injection H as <- <-. auto.
  - pose proof (fold_store_keyed conc st Hk) as Hk1. pose proof (fold_store_ph conc st) as Hp1.
    destruct ans as [b|]; intros H; injection H as <- <-; split; auto.
    intros v x; cbn. destruct (N.eqb_spec (b_view b) v); intros Hx; [now injection Hx as <-|now apply Hk1].
Qed.

Lemma extends_loop_keyed fetch t : forall fuel st cur st' r,
  ah_keyed st -> extends_loop fuel st fetch cur t = (st', r) ->
  ah_keyed st' /\ prune_height st' = prune_height st.
Proof.
  induction fuel as [|k IH]; cbn; intros st cur st' r Hk H.
  - injection H as <- <-. auto.
  - destruct (b_view t <? b_view cur); [|injection H as <- <-; auto].
    destruct (get st (b_parent cur) [] (fetch (b_parent cur))) as [st1 r1] eqn:G.
    apply get_keyed in G as [Hk1 Hp1]; auto.
    destruct r1; [|injection H as <- <-; auto].
    apply IH in H as [? ?]; auto. split; auto. congruence.
Qed.

Lemma commit_inner_keyed fetch cb : forall fuel st b st' r,
  ah_keyed st -> commit_inner fuel st fetch b cb = (st', r) ->
  ah_keyed st' /\ prune_height st' = prune_height st.
Proof.
  induction fuel as [|k IH]; cbn; intros st b st' r Hk H.
  - injection H as <- <-. auto.
  - destruct (b_view b <=? b_view cb); [injection H as <- <-; auto|].
    destruct (get st (b_parent b) [] (fetch (b_parent b))) as [st1 r1] eqn:G.
    apply get_keyed in G as [Hk1 Hp1]; auto.
    destruct r1 as [p|]; [|injection H as <- <-; auto].
    destruct (commit_inner k st1 fetch p cb) as [st2 r2] eqn:E.
    apply IH in E as [? ?]; auto.
    destruct r2; injection H as <- <-; split; auto; congruence.
Qed.

(* the blocks an operation reported as abandoned, and the height it pruned to *)
Definition reports (x : obs) : list block :=
  match x with RBlocks l => l | RCommit (CDone _ a) => a | _ => [] end.
Definition height_of (o : op) : list view :=
  match o with OPrune _ h => [h] | OCommit b _ => [b_view b] | _ => [] end.

Lemma step_keyed flt s o s' x :
  ah_keyed (s_store s) -> step flt s o = (s', x) ->
  ah_keyed (s_store s') /\ NoDup (map b_view (reports x)) /\
  match height_of o with
  | [] => prune_height (s_store s') = prune_height (s_store s) /\ reports x = []
  | h :: _ => (prune_height (s_store s') = h \/
               (prune_height (s_store s') = prune_height (s_store s) /\ reports x = [])) /\
              forall r, In r (reports x) -> prune_height (s_store s) < b_view r <= h
  end.
Proof.
  intros Hk. destruct o; cbn [step height_of].
  - intros H; injection H as <- <-. cbn. repeat split; auto using store_block_keyed, store_block_ph. constructor.
  - intros H; injection H as <- <-. cbn. repeat split; auto. constructor.
  - destruct (get _ _ _ _) as [st' r] eqn:G. intros H; injection H as <- <-. cbn.
    apply get_keyed in G as [? ?]; auto. repeat split; auto. constructor.
  - destruct (extends flt (s_store s) tbl b t) as [st' r] eqn:E. intros H; injection H as <- <-. cbn.
    unfold extends in E. apply extends_loop_keyed in E as [? ?]; auto. repeat split; auto. constructor.
  - destruct (prune_to_height (s_store s) c height) as [st' l] eqn:P. intros H; injection H as <- <-. cbn.
    apply prune_views in P as (Hn & Hr & Hk' & Hp & _); auto.
  - unfold commit. destruct (commit_inner _ _ _ _ _) as [st1 r1] eqn:E.
    apply commit_inner_keyed in E as [Hk1 Hp1]; auto.
    destruct r1 as [l|].
    + destruct (prune_to_height st1 (last l (s_committed s)) (b_view b)) as [st2 forked] eqn:P.
      intros H; injection H as <- <-. cbn.
      apply prune_views in P as (Hn & Hr & Hk' & Hp & _); auto.
      split; auto. split; auto. split; [left; auto|].
      intros r Hin. apply Hr in Hin. rewrite <- Hp1. exact Hin.
    + intros H; injection H as <- <-. cbn. split; auto. split; [constructor|]. split; [right; auto|intros r []].
Qed.

(* heights: the first at least lo, then strictly increasing *)
Fixpoint asc_lt (lo : view) (hs : list view) : Prop :=
  match hs with [] => True | h :: r => lo < h /\ asc_lt h r end.
Definition asc_le (lo : view) (hs : list view) : Prop :=
  match hs with [] => True | h :: r => lo <= h /\ asc_lt h r end.

Lemma asc_lt_le lo hs : asc_lt lo hs -> asc_le lo hs.
Proof. destruct hs; cbn; auto. intros [? ?]; split; auto; lia. Qed.
Lemma asc_le_weaken lo lo' hs : lo' <= lo -> asc_le lo hs -> asc_le lo' hs.
Proof. destruct hs; cbn; auto. intros ? [? ?]; split; auto; lia. Qed.

Lemma NoDup_app_disjoint {A} (l1 l2 : list A) :
  NoDup l1 -> NoDup l2 -> (forall a, In a l1 -> In a l2 -> False) -> NoDup (l1 ++ l2).
Proof.
  induction l1 as [|x r IH]; cbn; auto. intros H1 H2 Hd. inversion H1; subst. constructor.
  - intros Hin. apply in_app_or in Hin as [Hin|Hin]; auto. eapply Hd; eauto.
  - apply IH; auto. intros a Ha Hb. eapply Hd; eauto.
Qed.

Lemma run_once flt : forall ops s lo s' xs,
  ah_keyed (s_store s) -> lo <= prune_height (s_store s) ->
  asc_le lo (flat_map height_of ops) -> run flt s ops = (s', xs) ->
  NoDup (map b_view (flat_map reports xs)) /\
  forall r, In r (flat_map reports xs) -> lo < b_view r.
Proof.
  induction ops as [|o rest IH]; cbn [run flat_map]; intros s lo s' xs Hk Hlo Hasc H.
  - injection H as <- <-. cbn. split; [constructor|intros r []].
  - destruct (step flt s o) as [s1 x] eqn:S. destruct (run flt s1 rest) as [s2 xs'] eqn:R.
    injection H as <- <-. cbn [flat_map].
    apply step_keyed in S as (Hk1 & Hn1 & Hh); auto.
    destruct (height_of o) as [|h hs] eqn:Ho.
    + destruct Hh as [Hp Hr]. rewrite Hr. cbn [app].
      cbn [app] in Hasc. eapply IH; eauto. lia.
    + assert (hs = []) by (destruct o; cbn in Ho; congruence). subst hs.
      cbn [app] in Hasc. destruct Hasc as [Hle Hlt]. destruct Hh as [Hp Hr].
      assert (Hrest : exists lo', lo <= lo' /\ lo' <= prune_height (s_store s1) /\ asc_le lo' (flat_map height_of rest)
                      /\ forall r, In r (reports x) -> lo < b_view r <= lo').
      { destruct Hp as [Hp|[Hp Hnil]].
        - exists h. repeat split; auto using asc_lt_le; try lia.
          + apply Hr in H. lia.
          + apply Hr in H. lia.
        - exists lo. rewrite Hnil. repeat split; try lia.
          + apply (asc_le_weaken h); auto using asc_lt_le.
          + destruct H.
          + destruct H. }
      destruct Hrest as (lo' & Hl1 & Hl2 & Hasc' & Hrx).
      destruct (IH _ _ _ _ Hk1 Hl2 Hasc' R) as [Hn2 Hgt].
      split.
      * rewrite map_app. apply NoDup_app_disjoint; auto.
        intros v Hv1 Hv2. apply in_map_iff in Hv1 as (r1 & <- & Hr1). apply in_map_iff in Hv2 as (r2 & E & Hr2).
        apply Hrx in Hr1. apply Hgt in Hr2. lia.
      * intros r Hin. apply in_app_or in Hin as [Hin|Hin]; [apply Hrx in Hin; lia|apply Hgt in Hin; lia].
Qed.

(* ------------------------------------------------------------------------------------------ *)
(* the store of a replica whose inputs come from a forest G stays inside G, and every block in
   blockAtHeight is also in blocks *)

Definition inv (G : list (hash * block)) (st : store) : Prop :=
  sub st G /\ ah_keyed st /\ ah_in_blocks st.

Lemma inv_empty G : inv G empty_store.
Proof. repeat split; intros k b; cbn; discriminate. Qed.

Lemma store_block_inv G b st : inG G b -> inv G st -> inv G (store_block b st).
Proof.
  intros Hb (Hs & Hk & Hi). split; [|split; [now apply store_block_keyed|]].
  - unfold store_block. destruct (alookup (b_hash b) (blocks st)); auto.
    intros k x; cbn. destruct (N.eqb_spec (b_hash b) k) as [<-|]; intros Hx; [|now apply Hs].
    now injection Hx as <-.
  - unfold store_block. destruct (alookup (b_hash b) (blocks st)) eqn:E; auto.
    intros v x; cbn. destruct (N.eqb_spec (b_view b) v); intros Hx.
    + injection Hx as <-. now rewrite N.eqb_refl.
    + apply Hi in Hx. destruct (N.eqb_spec (b_hash b) (b_hash x)) as [Eh|]; auto.
      rewrite <- Eh in Hx. congruence.
Qed.

Lemma fold_store_inv G conc st : Forall (inG G) conc -> inv G st ->
  inv G (fold_left (fun s b => store_block b s) conc st).
Proof.
  revert st; induction conc as [|b r IH]; cbn; auto. intros st Hf Hi. inversion Hf; subst.
  apply IH; auto. now apply store_block_inv.
Qed.

Lemma fold_store_stable conc st : stable st (fold_left (fun s b => store_block b s) conc st).
Proof.
  revert st; induction conc as [|b r IH]; cbn; [red; auto|]. intros st k x Hx. apply IH.
  unfold store_block. destruct (alookup (b_hash b) (blocks st)) eqn:E; auto.
  cbn. destruct (N.eqb_spec (b_hash b) k) as [<-|]; auto. congruence.
Qed.

Lemma get_inv G st h conc ans st' r :
  forest G -> inv G st -> Forall (inG G) conc -> (forall b, ans = Some b -> alookup h G = Some b) ->
  get st h conc ans = (st', r) ->
  inv G st' /\ stable st st' /\ r = alookup h (blocks st').
Proof.
  intros HG Hi Hc Ha. unfold get. destruct (alookup h (blocks st)) eqn:E.
  - intros H; injection H as <- <-. repeat split; auto; try apply Hi. red; auto.
  - pose proof (fold_store_inv G conc st Hc Hi) as (Hs1 & Hk1 & Hi1).
    pose proof (fold_store_stable conc st) as Hst1.
    destruct ans as [b|]; intros H; injection H as <- <-.
    + specialize (Ha b eq_refl). pose proof (proj1 HG _ _ Ha) as Hbh.
      repeat split.
      * intros k x; cbn. destruct (N.eqb_spec h k) as [<-|]; intros Hx; [|now apply Hs1].
        now injection Hx as <-.
      * intros v x; cbn. destruct (N.eqb_spec (b_view b) v); intros Hx; [now injection Hx as <-|now apply Hk1].
      * intros v x; cbn. destruct (N.eqb_spec (b_view b) v); intros Hx.
        -- injection Hx as <-. now rewrite Hbh, N.eqb_refl.
        -- apply Hi1 in Hx. destruct (N.eqb_spec h (b_hash x)) as [Eh|]; auto.
           rewrite <- Eh in Hx. apply Hs1 in Hx. congruence.
      * intros k x Hx. cbn. apply Hst1 in Hx. destruct (N.eqb_spec h k) as [<-|]; auto.
        apply Hs1 in Hx. congruence.
      * cbn. now rewrite N.eqb_refl.
    + repeat split; auto.
Qed.

Lemma extends_loop_inv G fetch t : forest G -> fetch_in G fetch -> forall fuel st cur st' r,
  inv G st -> extends_loop fuel st fetch cur t = (st', r) -> inv G st'.
Proof.
  intros HG Hf. induction fuel as [|k IH]; cbn; intros st cur st' r Hi H.
  - now injection H as <- <-.
  - destruct (b_view t <? b_view cur); [|now injection H as <- <-].
    destruct (get st (b_parent cur) [] (fetch (b_parent cur))) as [st1 r1] eqn:Gt.
    apply (get_inv G) in Gt as (Hi1 & _ & _); auto.
    destruct r1; [eauto|now injection H as <- <-].
Qed.

Lemma prune_inv G st c height st' forked :
  inv G st -> prune_to_height st c height = (st', forked) -> inv G st'.
Proof.
  intros (Hs & Hk & Hi) P. apply prune_views in P as (_ & _ & Hk' & _ & Hb & Ha); auto.
  repeat split; auto.
  - intros k x. rewrite Hb. apply Hs.
  - intros v x Hx. rewrite Hb. apply Ha in Hx. now apply Hi in Hx.
Qed.

Lemma reach_stable st st' x t : stable st st' -> reach st x t -> reach st' x t.
Proof. intros Hst R. induction R; [now apply reach_here|eapply reach_up; eauto]. Qed.

Lemma reach_same_blocks st st' x t : blocks st = blocks st' -> reach st x t -> reach st' x t.
Proof. intros E. apply reach_stable. intros k b. now rewrite E. Qed.

Lemma stable_trans a b c : stable a b -> stable b c -> stable a c.
Proof. intros H1 H2 k x Hx. auto. Qed.

(* commitInner: the executed blocks are in G and all lie on the parent chain of the new block *)
Lemma commit_inner_inv G fetch cb : forest G -> fetch_in G fetch -> forall fuel st b st' r,
  inv G st -> inG G b -> commit_inner fuel st fetch b cb = (st', r) ->
  inv G st' /\ stable st st' /\
  forall l, r = Some l -> Forall (inG G) l /\ (forall x, In x l -> reach st' b x) /\ last l b = b.
Proof.
  intros HG Hf. induction fuel as [|k IH]; cbn; intros st b st' r Hi Hb H.
  - injection H as <- <-. repeat split; auto; try apply Hi; try discriminate. red; auto.
  - destruct (b_view b <=? b_view cb).
    + injection H as <- <-. repeat split; try apply Hi; [red; auto| | |]; injection H as <-; auto. intros x [].
    + destruct (get st (b_parent b) [] (fetch (b_parent b))) as [st1 r1] eqn:Gt.
      apply (get_inv G) in Gt as (Hi1 & Hst1 & Hr1); auto.
      destruct r1 as [p|].
      * destruct (commit_inner k st1 fetch p cb) as [st2 r2] eqn:E.
        symmetry in Hr1. destruct (sub_inG G st1 _ _ HG (proj1 Hi1) Hr1) as [Hpi _].
        apply IH in E as (Hi2 & Hst2 & Hl); auto.
        destruct r2 as [l|]; injection H as <- <-; repeat split; try apply Hi2; eauto using stable_trans; try discriminate.
        -- injection H as <-. destruct (Hl l eq_refl) as (Hf1 & _ & _). apply Forall_app. split; auto.
        -- injection H as <-. destruct (Hl l eq_refl) as (_ & Hr & _). intros x Hx.
           apply in_app_or in Hx as [Hx|[<-|[]]]; [|now apply reach_here].
           eapply reach_up; [apply Hst2; eauto|auto].
        -- injection H as <-. now rewrite last_last.
      * injection H as <- <-. repeat split; try apply Hi1; auto; discriminate.
Qed.

Lemma fetch_filtered_in G tbl : replies_in G tbl -> fetch_in G (fetch_filtered tbl).
Proof.
  intros Hr h x Hx. apply fetch_filtered_In in Hx as (Hh & l & Hl & Hxl).
  specialize (Hr _ _ _ Hl Hxl Hh). unfold inG in Hr. now rewrite Hh in Hr.
Qed.

(* the inputs of an operation come from the forest (peers may still send any block with a
   foreign hash: replies_in only speaks about replies whose hash is the requested one) *)
Definition op_in (G : list (hash * block)) (o : op) : Prop :=
  match o with
  | OStore b => inG G b
  | OLocalGet _ => True
  | OGet h conc replies => Forall (inG G) conc /\ replies_in G [(h, replies)]
  | OExtends b t tbl => inG G b /\ inG G t /\ replies_in G tbl
  | OPrune c _ => inG G c
  | OCommit b tbl => inG G b /\ replies_in G tbl
  end.

Definition sys_inv (G : list (hash * block)) (s : sys) : Prop :=
  inv G (s_store s) /\ inG G (s_committed s).

Lemma last_Forall {A} (P : A -> Prop) l d : Forall P l -> P d -> P (last l d).
Proof. induction l as [|x r IH]; cbn; auto. intros Hf Hd. inversion Hf; subst. destruct r; auto. Qed.

Lemma commit_inv G s tbl b s' r :
  forest G -> sys_inv G s -> inG G b -> replies_in G tbl ->
  commit true s tbl b = (s', r) -> sys_inv G s'.
Proof.
  intros HG [Hi Hc] Hb Hr. unfold commit.
  destruct (commit_inner _ _ _ _ _) as [st1 r1] eqn:E.
  apply (commit_inner_inv G) in E as (Hi1 & _ & Hl); auto using fetch_filtered_in.
  destruct r1 as [l|].
  - destruct (prune_to_height st1 (last l (s_committed s)) (b_view b)) as [st2 forked] eqn:P.
    intros H; injection H as <- <-. split; cbn.
    + eapply prune_inv; eauto.
    + destruct (Hl l eq_refl) as (Hf & _). now apply last_Forall.
  - intros H; injection H as <- <-. split; auto.
Qed.

Lemma step_inv G s o s' x :
  forest G -> sys_inv G s -> op_in G o -> step true s o = (s', x) -> sys_inv G s'.
Proof.
  intros HG [Hi Hc] Ho. destruct o; cbn [step]; cbn [op_in] in Ho.
  - intros H; injection H as <- <-. split; cbn; auto using store_block_inv.
  - intros H; injection H as <- <-. split; auto.
  - destruct Ho as [Hconc Hr]. destruct (get _ _ _ _) as [st' r] eqn:Gt. intros H; injection H as <- <-.
    apply (get_inv G) in Gt as (Hi1 & _ & _); auto; [split; auto|].
    intros b0 Hb0. cbn [fetch_of] in Hb0. now apply (fetch_filtered_in G) in Hb0.
  - destruct Ho as (Hb & Ht & Hr). destruct (extends true (s_store s) tbl b t) as [st' r] eqn:E.
    intros H; injection H as <- <-. split; auto. cbn.
    unfold extends in E. eapply extends_loop_inv in E; eauto. now apply fetch_filtered_in.
  - destruct (prune_to_height (s_store s) c height) as [st' l] eqn:P.
    intros H; injection H as <- <-. split; auto. cbn. eapply prune_inv; eauto.
  - destruct Ho as [Hb Hr]. destruct (commit true s tbl b) as [s1 r] eqn:E.
    intros H; injection H as <- <-. eapply commit_inv; eauto. split; auto.
Qed.

Lemma run_inv G : forest G -> forall ops s s' xs,
  sys_inv G s -> Forall (op_in G) ops -> run true s ops = (s', xs) -> sys_inv G s'.
Proof.
  intros HG. induction ops as [|o r IH]; cbn; intros s s' xs Hi Hf H.
  - now injection H as <- <-.
  - destruct (step true s o) as [s1 x] eqn:S. destruct (run true s1 r) as [s2 xs'] eqn:R.
    injection H as <- <-. inversion Hf; subst. apply (IH s1 s2 xs'); auto. eapply step_inv; eauto.
Qed.

Lemma new_sys_inv G g : inG G g -> sys_inv G (new_sys g).
Proof. intros Hg. split; auto. change (s_store (new_sys g)) with (store_block g empty_store). apply store_block_inv; auto using inv_empty. Qed.

(* every state a replica can be in: PruneToHeight never reports a block of the committed chain *)
Theorem prune_sound_run : forall G g ops s xs c height st' forked,
  forest G -> inG G g -> Forall (op_in G) ops -> run true (new_sys g) ops = (s, xs) ->
  inG G c -> prune_to_height (s_store s) c height = (st', forked) ->
  forall r, In r forked -> ~ reach (s_store s) c r.
Proof.
  intros G g ops s xs c height st' forked HG Hg Hf R Hc P.
  apply (run_inv G) in R as [(Hs & Hk & Hi) _]; auto using new_sys_inv.
  eapply prune_sound; eauto.
Qed.

(* the committer: what is aborted is neither executed by this commit nor on the parent chain of
   the block that is now the committed one *)
Theorem commit_abort_sound : forall G g ops s xs b tbl s' executed aborted,
  forest G -> inG G g -> Forall (op_in G) ops -> run true (new_sys g) ops = (s, xs) ->
  inG G b -> replies_in G tbl ->
  commit true s tbl b = (s', CDone executed aborted) ->
  forall r, In r aborted -> ~ reach (s_store s') (s_committed s') r /\ ~ In r executed.
Proof.
  intros G g ops s xs b tbl s' ex ab HG Hg Hf R Hb Hr C r Hin.
  apply (run_inv G) in R as [Hi Hc]; auto using new_sys_inv.
  unfold commit in C. destruct (commit_inner _ _ _ _ _) as [st1 r1] eqn:E.
  apply (commit_inner_inv G) in E as (Hi1 & _ & Hl); auto using fetch_filtered_in.
  destruct r1 as [l|]; [|discriminate].
  destruct (prune_to_height st1 (last l (s_committed s)) (b_view b)) as [st2 forked] eqn:P.
  injection C as <- <- <-. cbn [s_store s_committed].
  destruct (Hl l eq_refl) as (Hfl & Hrl & Hlast).
  assert (Hcb : inG G (last l (s_committed s))) by now apply last_Forall.
  destruct Hi1 as (Hs1 & Hk1 & Hib1).
  pose proof (prune_sound G st1 _ _ _ _ HG Hs1 Hk1 Hib1 Hcb P r Hin) as Hnr.
  pose proof (prune_views _ _ _ _ _ Hk1 P) as (_ & _ & _ & _ & Hbl & _).
  split.
  - intros R'. apply Hnr. eapply reach_same_blocks; eauto.
  - intros Hex. apply Hnr. destruct l as [|y l'] using rev_ind; [destruct Hex|].
    rewrite last_last in *. subst y. now apply Hrl.
Qed.

Lemma new_store_keyed g : ah_keyed (new_store g).
Proof. apply store_block_keyed. intros v b; cbn; discriminate. Qed.

(* over any history with increasing commit heights, whatever the peers answer (filtered or not),
   all blocks ever reported as abandoned have pairwise different views; in particular no block
   is reported twice *)
Theorem prune_once : forall flt g ops s xs,
  asc_le 0 (flat_map height_of ops) -> run flt (new_sys g) ops = (s, xs) ->
  NoDup (map b_view (flat_map reports xs)) /\ NoDup (flat_map reports xs).
Proof.
  intros flt g ops s xs Ha R.
  apply (run_once flt ops _ 0) in R as [Hn _]; auto.
  - split; auto. eapply NoDup_map_inv; eauto.
  - cbn. apply new_store_keyed.
  - lia.
Qed.

Lemma prune_reports_in G st c height st' forked :
  forest G -> inv G st -> prune_to_height st c height = (st', forked) -> Forall (inG G) forked.
Proof.
  intros HG (Hs & Hk & Hi). unfold prune_to_height.
  destruct (prune_loop _ _ _ _ _ _) as [ah out] eqn:P. intros H; injection H as <- <-.
  apply prune_loop_spec in P as (Ho & _ & _); auto; [|intros x []|constructor].
  apply Forall_forall. intros r Hr. destruct (Ho r Hr) as [[]|(v & _ & Hl & _)].
  apply Hi in Hl. now destruct (sub_inG G st _ _ HG Hs Hl).
Qed.

Lemma step_reports_in G s o s' x :
  forest G -> sys_inv G s -> op_in G o -> step true s o = (s', x) -> Forall (inG G) (reports x).
Proof.
  intros HG [Hi Hc] Ho. destruct o; cbn [step]; cbn [op_in] in Ho;
    try (intros H; injection H as <- <-; constructor).
  - destruct (get _ _ _ _). intros H; injection H as <- <-; constructor.
  - destruct (extends _ _ _ _ _). intros H; injection H as <- <-; constructor.
  - destruct (prune_to_height (s_store s) c height) as [st' l] eqn:P.
    intros H; injection H as <- <-. cbn. eapply prune_reports_in; eauto.
  - destruct Ho as [Hb Hr]. unfold commit. destruct (commit_inner _ _ _ _ _) as [st1 r1] eqn:E.
    apply (commit_inner_inv G) in E as (Hi1 & _ & _); auto using fetch_filtered_in.
    destruct r1 as [l|].
    + destruct (prune_to_height st1 _ _) as [st2 forked] eqn:P.
      intros H; injection H as <- <-. cbn. eapply prune_reports_in; eauto.
    + intros H; injection H as <- <-. constructor.
Qed.

Lemma run_reports_in G : forest G -> forall ops s s' xs,
  sys_inv G s -> Forall (op_in G) ops -> run true s ops = (s', xs) ->
  Forall (inG G) (flat_map reports xs).
Proof.
  intros HG. induction ops as [|o r IH]; cbn; intros s s' xs Hi Hf H.
  - injection H as <- <-. constructor.
  - destruct (step true s o) as [s1 x] eqn:S. destruct (run true s1 r) as [s2 xs'] eqn:R.
    injection H as <- <-. inversion Hf; subst. cbn. apply Forall_app. split.
    + eapply step_reports_in; eauto.
    + apply (IH s1 s2 xs'); auto. eapply step_inv; eauto.
Qed.

Lemma NoDup_hash_of_view G l : Forall (inG G) l -> NoDup (map b_view l) -> NoDup (map b_hash l).
Proof.
  induction l as [|x r IH]; cbn; intros Hf Hn; [constructor|].
  inversion Hf; subst. inversion Hn; subst. constructor; auto.
  intros Hin. apply in_map_iff in Hin as (y & E & Hy). apply H3.
  rewrite Forall_forall in H2. rewrite (inG_eq G x y); auto. now apply in_map.
Qed.

(* the same by hash, for a replica whose inputs come from a forest *)
Theorem prune_once_hash : forall G g ops s xs,
  forest G -> inG G g -> Forall (op_in G) ops ->
  asc_le 0 (flat_map height_of ops) -> run true (new_sys g) ops = (s, xs) ->
  NoDup (map b_hash (flat_map reports xs)).
Proof.
  intros G g ops s xs HG Hg Hf Ha R.
  apply (NoDup_hash_of_view G).
  - eapply run_reports_in; eauto using new_sys_inv.
  - eapply prune_once; eauto.
Qed.

(* a decision procedure for [forest] on concrete universes (used by the non-vacuity examples) *)
Definition forestb (G : list (hash * block)) : bool :=
  forallb (fun e => (b_hash (snd e) =? fst e) &&
                    match alookup (b_parent (snd e)) G with
                    | Some p => b_view p <? b_view (snd e)
                    | None => true
                    end) G.

Lemma forestb_sound G : forestb G = true -> forest G.
Proof.
  unfold forestb. rewrite forallb_forall. intros H. split.
  - intros k b Hb. apply alookup_In in Hb. apply H in Hb. cbn in Hb.
    apply andb_prop in Hb as [Hb _]. now apply N.eqb_eq.
  - intros k b p Hb Hp. apply alookup_In in Hb. apply H in Hb. cbn in Hb.
    apply andb_prop in Hb as [_ Hb]. rewrite Hp in Hb. now apply N.ltb_lt.
Qed.


(* ------------------------------------------------------------------------------------------ *)
(* across commits: what was reported as abandoned is never executed later *)

Definition executed_of (x : obs) : list block :=
  match x with RCommit (CDone e _) => e | _ => [] end.
Definition no_prune (o : op) : Prop := match o with OPrune _ _ => False | _ => True end.

Lemma commit_inner_views fetch cb : forall fuel st b st' l,
  commit_inner fuel st fetch b cb = (st', Some l) ->
  (forall e, In e l -> b_view cb < b_view e) /\
  (l = [] -> b_view b <= b_view cb) /\ (l <> [] -> last l cb = b).
Proof.
  induction fuel as [|k IH]; cbn; intros st b st' l H; [discriminate|].
  destruct (N.leb_spec (b_view b) (b_view cb)).
  - injection H as <- <-. repeat split; auto; [intros e []|congruence].
  - destruct (get st (b_parent b) [] (fetch (b_parent b))) as [st1 r1].
    destruct r1 as [p|]; [|discriminate].
    destruct (commit_inner k st1 fetch p cb) as [st2 r2] eqn:E.
    destruct r2 as [l'|]; [|discriminate]. injection H as <- <-.
    apply IH in E as (Hv & _ & _). repeat split.
    + intros e He. apply in_app_or in He as [He|[<-|[]]]; auto.
    + intros Hn. destruct l'; discriminate.
    + intros _. apply last_last.
Qed.

Lemma last_In {A} (l : list A) d : l <> [] -> In (last l d) l.
Proof.
  induction l as [|x r IH]; [congruence|]. intros _. destruct r as [|y r']; [now left|].
  right. apply IH. discriminate.
Qed.

Lemma commit_views flt s tbl b s' r :
  ah_keyed (s_store s) -> commit flt s tbl b = (s', r) ->
  b_view (s_committed s) <= b_view (s_committed s') /\
  (forall e, In e (executed_of (RCommit r)) -> b_view (s_committed s) < b_view e) /\
  (forall a, In a (reports (RCommit r)) -> b_view a <= b_view (s_committed s')).
Proof.
  intros Hk. unfold commit. destruct (commit_inner _ _ _ _ _) as [st1 r1] eqn:E.
  pose proof (commit_inner_keyed _ _ _ _ _ _ _ Hk E) as [Hk1 _].
  destruct r1 as [l|].
  - destruct (prune_to_height st1 (last l (s_committed s)) (b_view b)) as [st2 forked] eqn:P.
    intros H; injection H as <- <-. cbn [s_committed executed_of reports].
    apply commit_inner_views in E as (Hv & Hnil & Hlast).
    apply prune_views in P as (_ & Hr & _); auto.
    destruct (list_eq_dec N.eq_dec (map b_hash l) []) as [En|Hne].
    + assert (l = []) by (destruct l; [auto|discriminate]). subst l. cbn [last].
      repeat split; try lia; [intros e []|]. intros a Ha. apply Hr in Ha. specialize (Hnil eq_refl). lia.
    + assert (Hl : l <> []) by (intros ->; now apply Hne).
      pose proof (last_In l (s_committed s) Hl) as Hin. rewrite (Hlast Hl) in *.
      repeat split; auto.
      * apply Hv in Hin. lia.
      * intros a Ha. apply Hr in Ha. lia.
  - intros H; injection H as <- <-. cbn. repeat split; try lia; intros ? [].
Qed.

(* views of everything executed later exceed the view of the committed block now; reports do not *)
Lemma run_views flt : forall ops s s' xs,
  Forall no_prune ops -> ah_keyed (s_store s) -> run flt s ops = (s', xs) ->
  (forall e, In e (flat_map executed_of xs) -> b_view (s_committed s) < b_view e) /\
  b_view (s_committed s) <= b_view (s_committed s').
Proof.
  induction ops as [|o rest IH]; cbn [run]; intros s s' xs Hf Hk H.
  - injection H as <- <-. split; [intros e []|lia].
  - destruct (step flt s o) as [s1 x] eqn:S. destruct (run flt s1 rest) as [s2 xs'] eqn:R.
    injection H as <- <-. inversion Hf; subst.
    pose proof (step_keyed _ _ _ _ _ Hk S) as (Hk1 & _).
    destruct (IH _ _ _ H2 Hk1 R) as [He Hm].
    assert (Hs : b_view (s_committed s) <= b_view (s_committed s1) /\
                 forall e, In e (executed_of x) -> b_view (s_committed s) < b_view e).
    { destruct o; cbn [step] in S.
      - injection S as <- <-. cbn. split; [lia|intros e []].
      - injection S as <- <-. cbn. split; [lia|intros e []].
      - destruct (get _ _ _ _). injection S as <- <-. cbn. split; [lia|intros e []].
      - destruct (extends _ _ _ _ _). injection S as <- <-. cbn. split; [lia|intros e []].
      - destruct H1.
      - destruct (commit flt s tbl b) as [s1' r] eqn:C. injection S as <- <-.
        apply commit_views in C as (? & ? & ?); auto. }
    destruct Hs as [Hs1 Hs2]. split; [|lia].
    cbn [flat_map]. intros e Hin. apply in_app_or in Hin as [Hin|Hin]; auto. apply He in Hin. lia.
Qed.

(* reported as abandoned by one commit, executed by a later one: never the same block *)
Fixpoint abort_then_exec (xs : list obs) : Prop :=
  match xs with
  | [] => True
  | x :: r => (forall a e, In a (reports x) -> In e (flat_map executed_of r) -> b_view a < b_view e)
              /\ abort_then_exec r
  end.

Theorem no_execute_after_abort : forall flt g ops s xs,
  Forall no_prune ops -> run flt (new_sys g) ops = (s, xs) -> abort_then_exec xs.
Proof.
  intros flt g ops. assert (Hk0 : ah_keyed (s_store (new_sys g))) by apply new_store_keyed.
  revert Hk0. generalize (new_sys g). induction ops as [|o rest IH]; cbn [run]; intros s0 Hk s xs Hf H.
  - injection H as <- <-. exact I.
  - destruct (step flt s0 o) as [s1 x] eqn:S. destruct (run flt s1 rest) as [s2 xs'] eqn:R.
    injection H as <- <-. inversion Hf; subst.
    pose proof (step_keyed _ _ _ _ _ Hk S) as (Hk1 & _).
    split; [|eapply IH; eauto].
    intros a e Ha He. destruct (run_views flt _ _ _ _ H2 Hk1 R) as [Hv _]. apply Hv in He.
    assert (b_view a <= b_view (s_committed s1)); [|lia].
    destruct o; cbn [step] in S;
      try (injection S as <- <-; destruct Ha);
      try (destruct (get _ _ _ _); injection S as <- <-; destruct Ha);
      try (destruct (extends _ _ _ _ _); injection S as <- <-; destruct Ha).
    + destruct H1.
    + destruct (commit flt s0 tbl b) as [s1' r] eqn:C. injection S as <- <-.
      apply commit_views in C as (_ & _ & Hc); auto.
Qed.

(* the failure path of commit: nothing is committed, nothing pruned, nothing lost *)
Lemma get_stable st h conc ans st' r : get st h conc ans = (st', r) -> stable st st'.
Proof.
  unfold get. destruct (alookup h (blocks st)) eqn:E.
  - intros H; injection H as <- <-. red; auto.
  - pose proof (fold_store_stable conc st) as Hs.
    destruct ans as [b|]; intros H; injection H as <- <-; auto.
    intros k x Hx. cbn. destruct (N.eqb_spec h k) as [<-|]; [congruence|]. now apply Hs.
Qed.

Lemma commit_inner_stable fetch cb : forall fuel st b st' r,
  commit_inner fuel st fetch b cb = (st', r) -> stable st st'.
Proof.
  induction fuel as [|k IH]; cbn; intros st b st' r H.
  - injection H as <- <-. red; auto.
  - destruct (b_view b <=? b_view cb); [injection H as <- <-; red; auto|].
    destruct (get st (b_parent b) [] (fetch (b_parent b))) as [st1 r1] eqn:G.
    apply get_stable in G. destruct r1 as [p|]; [|injection H as <- <-; auto].
    destruct (commit_inner k st1 fetch p cb) as [st2 r2] eqn:E. apply IH in E.
    destruct r2; injection H as <- <-; eauto using stable_trans.
Qed.

Theorem commit_error_keeps : forall flt s tbl b s',
  ah_keyed (s_store s) -> commit flt s tbl b = (s', CErr) ->
  s_committed s' = s_committed s /\ prune_height (s_store s') = prune_height (s_store s) /\
  stable (s_store s) (s_store s').
Proof.
  intros flt s tbl b s' Hk. unfold commit. destruct (commit_inner _ _ _ _ _) as [st1 r1] eqn:E.
  destruct r1 as [l|]; [destruct (prune_to_height _ _ _); discriminate|].
  intros H; injection H as <-. cbn. repeat split.
  - now apply commit_inner_keyed in E as [_ ?].
  - now apply commit_inner_stable in E.
Qed.

(* Lemmas about the leader-rotation model (C16). *)
From Coq Require Import List Bool NArith ZArith Lia Permutation.
From Coq Require Import ZifyBool ZifyNat ZifyN.
From HS Require Import Base.Prelude Quorum.QuorumModel Quorum.QuorumProofs Leader.LeaderModel.
Import ListNotations.
Ltac Zify.zify_post_hook ::= Z.div_mod_to_equations.

(* ------------------------------------------------------------------------------------------ *)
(* round robin *)

Lemma u64_of_int_small n : (0 <= n < two64z)%Z -> u64_of_int n = Z.to_N n.
Proof. intros H. unfold u64_of_int. rewrite Z.mod_small by lia. reflexivity. Qed.

(* normal form for a cluster size and a view in range *)
Lemma crr_small v n : (1 <= n < 2^32)%Z -> (v < two64)%N ->
  choose_round_robin v n = Ok (Z.to_N (Z.of_N v mod n + 1)).
Proof.
  intros Hn Hv. unfold choose_round_robin.
  rewrite u64_of_int_small by (unfold two64z; lia).
  destruct (N.eqb_spec (Z.to_N n) 0) as [E|E]; [lia|].
  f_equal. unfold u32, u64, two64, two32 in *.
  assert (Hm : Z.of_N ((v mod 18446744073709551616) mod Z.to_N n) = (Z.of_N v mod n)%Z).
  { rewrite (N.mod_small v) by lia. rewrite N2Z.inj_mod. rewrite Z2N.id by lia. reflexivity. }
  assert (Hb : (0 <= Z.of_N v mod n < n)%Z) by (apply Z.mod_pos_bound; lia).
  rewrite (N.mod_small (_ + 1)) by lia.
  rewrite N.mod_small by lia.
  lia.
Qed.

Lemma rr_valid v n : (1 <= n < 2^32)%Z ->
  exists l, choose_round_robin v n = Ok l /\ (1 <= Z.of_N l <= n)%Z.
Proof.
  intros Hn. unfold choose_round_robin.
  rewrite u64_of_int_small by (unfold two64z; lia).
  destruct (N.eqb_spec (Z.to_N n) 0) as [E|E]; [lia|].
  eexists; split; [reflexivity|].
  unfold u32, u64, two64, two32.
  set (a := ((v mod 18446744073709551616) mod Z.to_N n)%N).
  assert (Ha : (a < Z.to_N n)%N) by (apply N.mod_upper_bound; lia).
  rewrite (N.mod_small (a + 1)) by lia.
  rewrite N.mod_small by lia. lia.
Qed.

Lemma mod_shift_lo v n i : (0 < n -> 0 <= i -> v mod n + i < n -> (v + i) mod n = v mod n + i)%Z.
Proof.
  intros Hn Hi Hlt.
  assert (Hb : (0 <= v mod n < n)%Z) by (apply Z.mod_pos_bound; lia).
  replace (v + i)%Z with (v mod n + i + (v / n) * n)%Z by (pose proof (Z.div_mod v n); lia).
  rewrite Z_mod_plus_full. apply Z.mod_small. lia.
Qed.

Lemma mod_shift_hi v n i : (0 < n -> n <= v mod n + i < 2 * n -> (v + i) mod n = v mod n + i - n)%Z.
Proof.
  intros Hn Hlt.
  replace (v + i)%Z with (v mod n + i - n + (v / n + 1) * n)%Z by (pose proof (Z.div_mod v n); lia).
  rewrite Z_mod_plus_full. apply Z.mod_small. lia.
Qed.

Lemma map_seq_shift {A} (f g : nat -> A) len : forall a b,
  (forall i, (i < len)%nat -> f (a + i)%nat = g (b + i)%nat) -> map f (seq a len) = map g (seq b len).
Proof.
  induction len as [|len IH]; intros a b H; [reflexivity|].
  cbn [seq map]. f_equal.
  - specialize (H 0%nat). rewrite !Nat.add_0_r in H. apply H. lia.
  - apply IH. intros i Hi. specialize (H (S i)). rewrite <- !plus_n_Sm in H. apply H. lia.
Qed.

Lemma seq_split a len k : (k <= len)%nat -> seq a len = seq a k ++ seq (a + k) (len - k).
Proof. intros H. rewrite <- seq_app. f_equal. lia. Qed.

(* every replica has exactly one turn in any n consecutive views (no uint64 wrap inside the window) *)
Lemma rr_window v n : (1 <= n < 2^32)%Z -> (Z.of_N v + n <= two64z)%Z ->
  Permutation (map (fun k => choose_round_robin (v + N.of_nat k)%N n) (seq 0 (Z.to_nat n)))
              (map (fun i => Ok (N.of_nat i)) (seq 1 (Z.to_nat n))).
Proof.
  intros Hn Hv. unfold two64z in Hv.
  assert (Hb : (0 <= Z.of_N v mod n < n)%Z) by (apply Z.mod_pos_bound; lia).
  remember (Z.to_nat (Z.of_N v mod n)) as r eqn:Er.
  remember (Z.to_nat n) as m eqn:Em.
  assert (Hr : (r < m)%nat) by lia.
  rewrite (seq_split 0 m (m - r)), (seq_split 1 m r) by lia.
  rewrite !map_app.
  rewrite (Permutation_app_comm (map _ (seq 1 r))).
  apply Permutation_app; apply Permutation_refl'.
  - (* views before the residue wraps: leaders r+1 .. n *)
    apply map_seq_shift. intros i Hi.
    rewrite crr_small by (unfold two64; lia).
    f_equal. rewrite N2Z.inj_add, nat_N_Z.
    rewrite mod_shift_lo by lia. lia.
  - (* the remaining views: leaders 1 .. r *)
    replace (m - (m - r))%nat with r by lia.
    apply map_seq_shift. intros i Hi.
    rewrite crr_small by (unfold two64; lia).
    f_equal. rewrite N2Z.inj_add, nat_N_Z.
    rewrite mod_shift_hi by lia. lia.
Qed.

(* ------------------------------------------------------------------------------------------ *)
(* stateless schemes *)

Definition tree_positions (c : config) : option (list rid) := option_map t_pos (c_tree c).

Lemma stateless_agree s c1 c2 v :
  c_n c1 = c_n c2 -> tree_positions c1 = tree_positions c2 ->
  stateless_leader s c1 v = stateless_leader s c2 v.
Proof.
  intros Hn Ht. destruct s; cbn [stateless_leader].
  - now rewrite Hn.
  - reflexivity.
  - unfold tree_positions in Ht. destruct (c_tree c1) as [t1|], (c_tree c2) as [t2|]; cbn in Ht; try discriminate.
    + unfold tree_root. now injection Ht as ->.
    + reflexivity.
Qed.

Definition scheme_ok (s : scheme) (c : config) : Prop :=
  match s with
  | SRoundRobin => True
  | SFixed l => (1 <= Z.of_N l <= c_n c)%Z
  | STree => match c_tree c with
             | None => True
             | Some t => t_pos t <> [] /\ Forall (fun i => (1 <= Z.of_N i <= c_n c)%Z) (t_pos t)
             end
  end.

Lemma stateless_valid s c v : (1 <= c_n c < 2^32)%Z -> scheme_ok s c ->
  exists l, stateless_leader s c v = Ok l /\ (1 <= Z.of_N l <= c_n c)%Z.
Proof.
  intros Hn Hs. destruct s; cbn [stateless_leader scheme_ok] in *.
  - now apply rr_valid.
  - eauto.
  - destruct (c_tree c) as [t|].
    + destruct Hs as [Hne Hall]. unfold tree_root. destruct (t_pos t) as [|r rest]; [congruence|].
      exists r. split; [reflexivity|]. now inversion Hall.
    + exists 1%N. split; [reflexivity|lia].
Qed.

(* ------------------------------------------------------------------------------------------ *)
(* sorting *)

Lemma insert_perm x l : Permutation (insert x l) (x :: l).
Proof.
  induction l as [|y r IH]; cbn [insert]; [reflexivity|].
  destruct (N.leb x y); [reflexivity|].
  rewrite IH. apply perm_swap.
Qed.

Lemma isort_perm l : Permutation (isort l) l.
Proof. induction l as [|x r IH]; cbn [isort]; [reflexivity|]. rewrite insert_perm. now constructor. Qed.

Lemma insert_comm x y l : insert x (insert y l) = insert y (insert x l).
Proof.
  induction l as [|z r IH]; cbn [insert].
  - destruct (N.leb_spec x y), (N.leb_spec y x); try reflexivity; try lia.
    assert (x = y) by lia. now subst.
  - destruct (N.leb_spec y z), (N.leb_spec x z); cbn [insert].
    + destruct (N.leb_spec x y), (N.leb_spec y x); try lia.
      * assert (x = y) by lia. now subst.
      * destruct (N.leb_spec y z); [reflexivity|lia].
      * destruct (N.leb_spec x z); [reflexivity|lia].
    + destruct (N.leb_spec x y); [lia|]. destruct (N.leb_spec y z); [|lia].
      destruct (N.leb_spec x z); [lia|]. reflexivity.
    + destruct (N.leb_spec y x); [lia|]. destruct (N.leb_spec x z); [|lia].
      destruct (N.leb_spec y z); [lia|]. reflexivity.
    + destruct (N.leb_spec x z); [lia|]. destruct (N.leb_spec y z); [lia|]. now rewrite IH.
Qed.

Lemma isort_permutation l l' : Permutation l l' -> isort l = isort l'.
Proof.
  induction 1; cbn [isort].
  - reflexivity.
  - now rewrite IHPermutation.
  - apply insert_comm.
  - congruence.
Qed.

Lemma filter_permutation {A} (p : A -> bool) l l' : Permutation l l' -> Permutation (filter p l) (filter p l').
Proof.
  induction 1; cbn [filter].
  - reflexivity.
  - destruct (p x); [now constructor|assumption].
  - destruct (p x), (p y); try reflexivity. apply perm_swap.
  - etransitivity; eassumption.
Qed.

Lemma mem_In x l : mem x l = true <-> In x l.
Proof.
  unfold mem. rewrite existsb_exists. split.
  - intros [y [Hy He]]. apply N.eqb_eq in He. now subst.
  - intros H. exists x. split; [assumption|apply N.eqb_refl].
Qed.

Lemma filter_notin_length (l last : list rid) : NoDup l ->
  (length l <= length (filter (fun x : rid => negb (mem x last)) l) + length last)%nat.
Proof.
  intros Hnd. rewrite <- app_length. apply NoDup_incl_length; [assumption|].
  intros x Hx. apply in_or_app. destruct (mem x last) eqn:E.
  - right. now apply mem_In.
  - left. apply filter_In. split; [assumption|]. now rewrite E.
Qed.

(* ------------------------------------------------------------------------------------------ *)
(* carousel *)

Lemma carousel_fallback c cl rnd h round :
  carousel_active cl h round = false -> carousel c cl rnd h round = choose_round_robin round (c_n c).
Proof.
  unfold carousel_active, carousel. destruct (h_qc h); [|reflexivity].
  intros ->. reflexivity.
Qed.

Lemma last_authors_length n h : (1 <= n)%Z -> (Z.of_nat (length (last_authors n h)) <= num_faulty n)%Z.
Proof.
  intros Hn. unfold last_authors. pose proof (f_nonneg n Hn).
  pose proof (firstn_le_length (Z.to_nat (num_faulty n)) (h_chain h)). lia.
Qed.

Lemma quorum_above_faulty n : (1 <= n)%Z -> (num_faulty n < quorum_size n)%Z.
Proof. intros Hn. pose proof (f_largest n Hn). pose proof (q_intersect n Hn). pose proof (f_nonneg n Hn). lia. Qed.

Lemma candidates_spec n h signers x :
  In x (candidates n h signers) <-> In x signers /\ ~ In x (last_authors n h).
Proof.
  unfold candidates. split.
  - intros H. apply (Permutation_in _ (isort_perm _)) in H. apply filter_In in H as [H1 H2].
    split; [assumption|]. intros Hin. apply mem_In in Hin. rewrite Hin in H2. discriminate.
  - intros [H1 H2]. apply (Permutation_in _ (Permutation_sym (isort_perm _))). apply filter_In. split; [assumption|].
    destruct (mem x (last_authors n h)) eqn:E; [|reflexivity]. apply mem_In in E. contradiction.
Qed.

Lemma candidates_nonempty n h signers : (1 <= n)%Z -> NoDup signers ->
  (num_faulty n < Z.of_nat (length signers))%Z -> (0 < length (candidates n h signers))%nat.
Proof.
  intros Hn Hnd Hlen. unfold candidates.
  rewrite (Permutation_length (isort_perm _)).
  pose proof (filter_notin_length signers (last_authors n h) Hnd).
  pose proof (last_authors_length n h Hn). unfold rid in *. lia.
Qed.

(* when the carousel is active: no panic, and the leader is a signer outside the last f proposers *)
Lemma carousel_member c cl rnd h round signers :
  (1 <= c_n c)%Z ->
  h_qc h = Some signers -> carousel_active cl h round = true ->
  NoDup signers -> (num_faulty (c_n c) < Z.of_nat (length signers))%Z ->
  (forall s, 0 <= rnd s)%Z ->
  exists l, carousel c cl rnd h round = Ok l /\ In l signers /\ ~ In l (last_authors (c_n c) h).
Proof.
  intros Hn Hqc Hact Hnd Hlen Hrnd.
  unfold carousel_active in Hact. unfold carousel. rewrite Hqc in *. rewrite Hact. cbn [negb].
  pose proof (candidates_nonempty (c_n c) h signers Hn Hnd Hlen) as Hne.
  set (cands := candidates (c_n c) h signers) in *.
  destruct (Z.eqb_spec (Z.of_nat (length cands)) 0) as [E|E]; [lia|].
  set (sd := i64_wrap _).
  pose proof (Z.rem_bound_pos (rnd sd) (Z.of_nat (length cands)) (Hrnd sd) ltac:(lia)) as Hi.
  destruct (Z.ltb_spec (Z.rem (rnd sd) (Z.of_nat (length cands))) 0) as [L|L]; [lia|].
  destruct (nth_error cands (Z.to_nat (Z.rem (rnd sd) (Z.of_nat (length cands))))) as [l|] eqn:En.
  - exists l. split; [reflexivity|]. apply nth_error_In in En. now apply candidates_spec in En.
  - apply nth_error_None in En. lia.
Qed.

(* an active carousel on ANY head (any signer list: empty, repeated, unknown ids): either there is no
   candidate and the answer is round-robin, or the answer is a signer outside the last f proposers *)
Lemma carousel_active_spec c cl rnd h round signers :
  h_qc h = Some signers -> carousel_active cl h round = true -> (forall s, 0 <= rnd s)%Z ->
  (candidates (c_n c) h signers = [] /\ carousel c cl rnd h round = choose_round_robin round (c_n c))
  \/ exists l, carousel c cl rnd h round = Ok l /\ In l signers /\ ~ In l (last_authors (c_n c) h).
Proof.
  intros Hqc Hact Hrnd.
  unfold carousel_active in Hact. unfold carousel. rewrite Hqc in *. rewrite Hact. cbn [negb].
  set (cands := candidates (c_n c) h signers) in *.
  destruct (Z.eqb_spec (Z.of_nat (length cands)) 0) as [E|E].
  - left. split; [|reflexivity]. destruct cands; [reflexivity|cbn in E; lia].
  - right. set (sd := i64_wrap _).
    pose proof (Z.rem_bound_pos (rnd sd) (Z.of_nat (length cands)) (Hrnd sd) ltac:(lia)) as Hi.
    destruct (Z.ltb_spec (Z.rem (rnd sd) (Z.of_nat (length cands))) 0) as [L|L]; [lia|].
    destruct (nth_error cands (Z.to_nat (Z.rem (rnd sd) (Z.of_nat (length cands))))) as [l|] eqn:En.
    + exists l. split; [reflexivity|]. apply nth_error_In in En. now apply candidates_spec in En.
    + apply nth_error_None in En. lia.
Qed.

(* no head makes the carousel panic *)
Lemma carousel_no_panic c cl rnd h round :
  (1 <= c_n c < 2^32)%Z -> (forall s, 0 <= rnd s)%Z -> exists l, carousel c cl rnd h round = Ok l.
Proof.
  intros Hn Hrnd.
  destruct (carousel_active cl h round) eqn:Ha.
  - pose proof Ha as Ha'. unfold carousel_active in Ha'. destruct (h_qc h) as [s|] eqn:Hq; [|discriminate].
    destruct (carousel_active_spec c cl rnd h round s Hq Ha Hrnd) as [[_ ->]|(l & -> & _)]; [|eauto].
    destruct (rr_valid round (c_n c) Hn) as (l & -> & _). eauto.
  - rewrite carousel_fallback by assumption. destruct (rr_valid round (c_n c) Hn) as (l & -> & _). eauto.
Qed.

(* the code before the repair did panic: a head whose certificate has a signature without participants *)
Lemma carousel_unfixed_panics :
  exists c cl rnd h round, (1 <= c_n c < 2^32)%Z /\ (forall s, 0 <= rnd s)%Z /\ h_qc h = Some [] /\
    carousel_unfixed c cl rnd h round = Panic.
Proof.
  exists (Build_config 1%N 4%Z 0%Z None), 1%Z, (fun _ => 7%Z), (Build_head 1%N (Some []) [2%N]), 2%N.
  cbn [c_n h_qc]. split; [lia|]. split; [intros; lia|]. split; [reflexivity|]. vm_compute. reflexivity.
Qed.

(* the answer does not depend on the replica's identity, its tree, or the order in which the
   certificate lists its signers *)
Definition head_equiv (h1 h2 : head) : Prop :=
  h_view h1 = h_view h2 /\ h_chain h1 = h_chain h2 /\
  match h_qc h1, h_qc h2 with
  | None, None => True
  | Some s1, Some s2 => Permutation s1 s2
  | _, _ => False
  end.

Lemma carousel_function c1 c2 cl rnd h1 h2 round :
  c_n c1 = c_n c2 -> c_seed c1 = c_seed c2 -> head_equiv h1 h2 ->
  carousel c1 cl rnd h1 round = carousel c2 cl rnd h2 round.
Proof.
  intros Hn Hs (Hv & Hc & Hq). unfold carousel.
  destruct (h_qc h1) as [s1|], (h_qc h2) as [s2|]; try contradiction.
  - rewrite Hv, Hn, Hs.
    assert (Hcand : candidates (c_n c2) h1 s1 = candidates (c_n c2) h2 s2).
    { unfold candidates, last_authors. rewrite Hc. apply isort_permutation. now apply filter_permutation. }
    now rewrite Hcand.
  - now rewrite Hn.
Qed.

Lemma carousel_run_function c1 c2 cl rnd qs1 qs2 :
  c_n c1 = c_n c2 -> c_seed c1 = c_seed c2 ->
  Forall2 (fun q1 q2 => head_equiv (fst q1) (fst q2) /\ snd q1 = snd q2) qs1 qs2 ->
  carousel_run c1 cl rnd qs1 = carousel_run c2 cl rnd qs2.
Proof.
  intros Hn Hs H. induction H as [|q1 q2 r1 r2 [Hh Hv] _ IH]; [reflexivity|].
  unfold carousel_run in *. cbn [map]. rewrite IH, Hv. f_equal. now apply carousel_function.
Qed.

(* ------------------------------------------------------------------------------------------ *)
(* reputation *)
Section ReputationProofs.
  Context {R : Type}.
  Variable rzero : R.
  Variable rep_inc : nat -> Z -> R.
  Variable radd : R -> R -> R.
  Variable weight_of : R -> N.
  Variable pick : list (rid * N) -> Z -> option rid.

  Notation reputation' := (reputation rzero rep_inc radd weight_of pick).
  Notation reputation_run' := (reputation_run rzero rep_inc radd weight_of pick).
  Notation rep_foreach' := (rep_foreach rzero radd weight_of).

  (* answers and the next state are a function of (n, seed, chain length, state, head, view):
     the replica's own id and its tree do not enter *)
  Lemma reputation_function c1 c2 cl st h v :
    c_n c1 = c_n c2 -> c_seed c1 = c_seed c2 -> reputation' c1 cl st h v = reputation' c2 cl st h v.
  Proof. intros Hn Hs. unfold reputation. now rewrite Hn, Hs. Qed.

  Lemma reputation_run_function c1 c2 cl st qs :
    c_n c1 = c_n c2 -> c_seed c1 = c_seed c2 -> reputation_run' c1 cl st qs = reputation_run' c2 cl st qs.
  Proof.
    intros Hn Hs. revert st. induction qs as [|[h v] r IH]; intros st; [reflexivity|].
    cbn [reputation_run]. rewrite (reputation_function c1 c2) by assumption.
    destruct (reputation' c2 cl st h v) as [a st1]. now rewrite IH.
  Qed.

  Lemma rep_foreach_stale inc voters m : fst (rep_foreach' false inc voters m) = m.
  Proof.
    revert m. induction voters as [|id r IH]; intros m; [reflexivity|].
    cbn [rep_foreach]. specialize (IH m). destruct (rep_foreach' false inc r m). cbn in *. assumption.
  Qed.

  (* no credit unless the committed head is newer than the last credited one *)
  Lemma reputation_stale c cl st h v : (h_view h <= fst st)%N -> snd (reputation' c cl st h v) = st.
  Proof.
    intros Hle. unfold reputation. destruct st as [prev m]. cbn [fst] in Hle.
    destruct (N.ltb _ (h_view h)); [reflexivity|].
    destruct (h_qc h) as [voters|]; [|reflexivity].
    destruct (N.ltb_spec prev (h_view h)) as [L|L]; [lia|].
    pose proof (rep_foreach_stale (rep_inc (length voters) (c_n c)) voters m) as Hs.
    destruct (rep_foreach' false _ voters m) as [m' ws]. cbn [fst] in Hs. subst m'.
    destruct (pick _ _); reflexivity.
  Qed.

  (* a step that changes the state records the head it credited *)
  Lemma reputation_credit_marks c cl st h v :
    snd (reputation' c cl st h v) <> st -> fst (snd (reputation' c cl st h v)) = h_view h.
  Proof.
    unfold reputation. destruct st as [prev m].
    destruct (N.ltb _ (h_view h)); [cbn [fst snd]; congruence|].
    destruct (h_qc h) as [voters|]; [|cbn [fst snd]; congruence].
    destruct (N.ltb_spec prev (h_view h)) as [L|L].
    - destruct (rep_foreach' true _ voters m) as [m' ws]. destruct (pick _ _); reflexivity.
    - pose proof (rep_foreach_stale (rep_inc (length voters) (c_n c)) voters m) as Hs.
      destruct (rep_foreach' false _ voters m) as [m' ws]. cbn [fst] in Hs. subst m'.
      destruct (pick _ _); cbn [fst snd]; congruence.
  Qed.

  (* which (not old) view is asked does not matter for the credits: the next state depends on the head only *)
  Lemma reputation_state_view_independent c cl st h v1 v2 :
    N.ltb (u64_sub (u64 v1) (u64_of_int cl)) (h_view h) = false ->
    N.ltb (u64_sub (u64 v2) (u64_of_int cl)) (h_view h) = false ->
    snd (reputation' c cl st h v1) = snd (reputation' c cl st h v2).
  Proof.
    intros H1 H2. unfold reputation. destruct st as [prev m]. rewrite H1, H2.
    destruct (h_qc h) as [voters|]; [|reflexivity].
    destruct (rep_foreach' _ _ voters m) as [m' ws].
    destruct (pick _ (i64_wrap (c_seed c + i64_of_u64 v1))), (pick _ (i64_wrap (c_seed c + i64_of_u64 v2))); reflexivity.
  Qed.

  (* reputations are updated at most once per committed head *)
  Lemma reputation_once_per_head c cl st h v v' :
    let st1 := snd (reputation' c cl st h v) in
    st1 <> st -> snd (reputation' c cl st1 h v') = st1.
  Proof.
    intros st1 Hch. apply reputation_stale. subst st1.
    apply N.eq_le_incl. symmetry. exact (reputation_credit_marks c cl st h v Hch).
  Qed.
End ReputationProofs.

(* ------------------------------------------------------------------------------------------ *)
(* the carousel never panics and never names an unknown replica, whether active or not; the certificate
   may list its (configured) signers with repetitions and need not be a quorum *)
Definition head_ok (n : Z) (h : head) : Prop :=
  match h_qc h with
  | None => True
  | Some s => Forall (fun i => (1 <= Z.of_N i <= n)%Z) s
  end.

Lemma carousel_valid c cl rnd h round :
  (1 <= c_n c < 2^32)%Z -> head_ok (c_n c) h -> (forall s, 0 <= rnd s)%Z ->
  exists l, carousel c cl rnd h round = Ok l /\ (1 <= Z.of_N l <= c_n c)%Z.
Proof.
  intros Hn Hok Hrnd.
  destruct (carousel_active cl h round) eqn:Ha.
  - unfold head_ok in Hok. pose proof Ha as Ha'. unfold carousel_active in Ha'.
    destruct (h_qc h) as [s|] eqn:Hq; [|discriminate].
    destruct (carousel_active_spec c cl rnd h round s Hq Ha Hrnd) as [[_ ->]|(l & Hl & Hin & _)].
    + now apply rr_valid.
    + exists l. split; [assumption|]. rewrite Forall_forall in Hok. now apply Hok.
  - rewrite carousel_fallback by assumption. now apply rr_valid.
Qed.

(* the premise head_ok is needed: the carousel trusts the certificate of the committed head, so a head whose
   certificate lists a non-member (accepted by the genesis shortcut of VerifyQuorumCert before
   fixes/C16-genesis-qc-signature.patch) makes it name a replica that does not exist *)
Lemma carousel_unknown_signer :
  exists c cl rnd h round l, (1 <= c_n c < 2^32)%Z /\ (forall s, 0 <= rnd s)%Z /\ h_qc h = Some [77%N] /\
    carousel c cl rnd h round = Ok l /\ ~ (1 <= Z.of_N l <= c_n c)%Z.
Proof.
  exists (Build_config 1%N 4%Z 0%Z None), 3%Z, (fun _ => 5%Z), (Build_head 1%N (Some [77%N]) [2%N]), 4%N, 77%N.
  cbn [c_n h_qc]. split; [lia|]. split; [intros; lia|]. split; [reflexivity|]. split; [vm_compute; reflexivity|lia].
Qed.

(* ------------------------------------------------------------------------------------------ *)
(* reputation: with the weight list sorted by replica id (the repaired comparator) the answers do
   not depend on the order in which the certificates list their signers *)
Section ReputationOrder.
  Context {R : Type}.
  Variable rzero : R.
  Variable rep_inc : nat -> Z -> R.
  Variable radd : R -> R -> R.
  Variable weight_of : R -> N.
  Variable pick : list (rid * N) -> Z -> option rid.

  Notation get := (rep_get rzero).
  Notation foreach := (rep_foreach rzero radd weight_of).
  Notation reputation' := (reputation rzero rep_inc radd weight_of pick).
  Notation reputation_run' := (reputation_run rzero rep_inc radd weight_of pick).

  Lemma rep_get_set m id x id' :
    get (rep_set m id x) id' = if N.eqb id id' then x else get m id'.
  Proof.
    induction m as [|[k y] r IH]; cbn [rep_set rep_get].
    - reflexivity.
    - destruct (N.eqb_spec k id) as [E|E]; cbn [rep_get].
      + subst k. destruct (N.eqb_spec id id'); reflexivity.
      + rewrite IH. destruct (N.eqb_spec k id'), (N.eqb_spec id id'); try reflexivity. congruence.
  Qed.

  Definition credited (fresh : bool) (inc : R) (voters : list rid) (m : list (rid * R)) (id : rid) : R :=
    if fresh && mem id voters then radd (get m id) inc else get m id.

  Lemma mem_cons j id r : mem j (id :: r) = N.eqb j id || mem j r.
  Proof. reflexivity. Qed.

  Lemma mem_false_notin j l : ~ In j l -> mem j l = false.
  Proof. intros H. destruct (mem j l) eqn:E; [|reflexivity]. apply mem_In in E. contradiction. Qed.

  Lemma credited_step fresh inc id r m j : ~ In id r ->
    credited fresh inc r (if fresh then rep_set m id (radd (get m id) inc) else m) j
    = credited fresh inc (id :: r) m j.
  Proof.
    intros Hni. unfold credited. rewrite mem_cons. destruct fresh; cbn [andb].
    - rewrite rep_get_set. destruct (N.eqb_spec id j) as [E|E].
      + subst j. rewrite N.eqb_refl. cbn [orb]. now rewrite (mem_false_notin id r Hni).
      + destruct (N.eqb_spec j id); [congruence|]. reflexivity.
    - reflexivity.
  Qed.

  Lemma rep_foreach_spec fresh inc voters : NoDup voters -> forall m,
    (forall id, get (fst (foreach fresh inc voters m)) id = credited fresh inc voters m id)
    /\ snd (foreach fresh inc voters m) = map (fun id => (id, weight_of (credited fresh inc voters m id))) voters.
  Proof.
    induction 1 as [|id r Hni Hnd IH]; intros m.
    - split; [|reflexivity]. intros id. unfold credited. cbn [rep_foreach fst mem existsb]. now rewrite andb_false_r.
    - cbn [rep_foreach].
      set (m1 := if fresh then rep_set m id (radd (get m id) inc) else m).
      destruct (IH m1) as [IHa IHb].
      destruct (foreach fresh inc r m1) as [m2 ws] eqn:Ef. cbn [fst snd] in *.
      split.
      + intros j. rewrite IHa. apply credited_step. assumption.
      + cbn [map]. f_equal.
        * f_equal. f_equal. rewrite <- (credited_step fresh inc id r m id Hni). fold m1.
          unfold credited. rewrite (mem_false_notin id r Hni). now rewrite andb_false_r.
        * rewrite IHb. apply map_ext. intros j. now rewrite <- (credited_step fresh inc id r m j Hni).
  Qed.

  Lemma mem_perm j l l' : Permutation l l' -> mem j l = mem j l'.
  Proof.
    intros Hp. destruct (mem j l) eqn:E1, (mem j l') eqn:E2; try reflexivity.
    - apply mem_In in E1. apply (Permutation_in _ Hp) in E1. apply mem_In in E1. congruence.
    - apply mem_In in E2. apply (Permutation_in _ (Permutation_sym Hp)) in E2. apply mem_In in E2. congruence.
  Qed.

  Lemma rep_foreach_equiv fresh inc v1 v2 m1 m2 :
    NoDup v1 -> Permutation v1 v2 -> (forall id, get m1 id = get m2 id) ->
    (forall id, get (fst (foreach fresh inc v1 m1)) id = get (fst (foreach fresh inc v2 m2)) id)
    /\ Permutation (snd (foreach fresh inc v1 m1)) (snd (foreach fresh inc v2 m2))
    /\ NoDup (map fst (snd (foreach fresh inc v1 m1))).
  Proof.
    intros Hnd Hp Hm.
    pose proof (Permutation_NoDup Hp Hnd) as Hnd2.
    destruct (rep_foreach_spec fresh inc v1 Hnd m1) as [A1 B1].
    destruct (rep_foreach_spec fresh inc v2 Hnd2 m2) as [A2 B2].
    assert (Hc : forall id, credited fresh inc v1 m1 id = credited fresh inc v2 m2 id).
    { intros id. unfold credited. now rewrite (mem_perm id v1 v2 Hp), Hm. }
    split; [|split].
    - intros id. now rewrite A1, A2.
    - rewrite B1, B2.
      rewrite (map_ext _ (fun id => (id, weight_of (credited fresh inc v2 m2 id)))) by (intros id; now rewrite Hc).
      now apply Permutation_map.
    - rewrite B1, map_map. cbn [fst]. now rewrite map_id.
  Qed.

  Lemma winsert_comm x y l : fst x <> fst y -> winsert x (winsert y l) = winsert y (winsert x l).
  Proof.
    intros Hne. induction l as [|z r IH]; cbn [winsert].
    - destruct (N.leb_spec (fst x) (fst y)), (N.leb_spec (fst y) (fst x)); try reflexivity; lia.
    - destruct (N.leb_spec (fst y) (fst z)), (N.leb_spec (fst x) (fst z)); cbn [winsert].
      + destruct (N.leb_spec (fst x) (fst y)), (N.leb_spec (fst y) (fst x)); try lia.
        * destruct (N.leb_spec (fst y) (fst z)); [reflexivity|lia].
        * destruct (N.leb_spec (fst x) (fst z)); [reflexivity|lia].
      + destruct (N.leb_spec (fst x) (fst y)); [lia|]. destruct (N.leb_spec (fst y) (fst z)); [|lia].
        destruct (N.leb_spec (fst x) (fst z)); [lia|]. reflexivity.
      + destruct (N.leb_spec (fst y) (fst x)); [lia|]. destruct (N.leb_spec (fst x) (fst z)); [|lia].
        destruct (N.leb_spec (fst y) (fst z)); [lia|]. reflexivity.
      + destruct (N.leb_spec (fst x) (fst z)); [lia|]. destruct (N.leb_spec (fst y) (fst z)); [lia|]. now rewrite IH.
  Qed.

  Lemma wsort_permutation l l' : Permutation l l' -> NoDup (map fst l) -> wsort l = wsort l'.
  Proof.
    induction 1 as [|x l l' Hp IH|x y l|l l' l'' Hp1 IH1 Hp2 IH2]; intros Hnd; cbn [wsort].
    - reflexivity.
    - cbn [map] in Hnd. inversion Hnd; subst. now rewrite IH.
    - cbn [map] in Hnd. inversion Hnd as [|? ? Hni _]; subst. apply winsert_comm.
      intros E. apply Hni. left. now symmetry.
    - rewrite IH1 by assumption. apply IH2.
      apply (Permutation_NoDup (Permutation_map fst Hp1) Hnd).
  Qed.

  Definition st_equiv (s1 s2 : @rep_state R) : Prop :=
    fst s1 = fst s2 /\ forall id, get (snd s1) id = get (snd s2) id.

  Definition voters_nodup (h : head) : Prop :=
    match h_qc h with Some s => NoDup s | None => True end.

  Lemma reputation_order_independent c1 c2 cl st1 st2 h1 h2 v :
    c_n c1 = c_n c2 -> c_seed c1 = c_seed c2 ->
    st_equiv st1 st2 -> head_equiv h1 h2 -> voters_nodup h1 ->
    fst (reputation' c1 cl st1 h1 v) = fst (reputation' c2 cl st2 h2 v)
    /\ st_equiv (snd (reputation' c1 cl st1 h1 v)) (snd (reputation' c2 cl st2 h2 v)).
  Proof.
    intros Hn Hs [Hp Hm] (Hv & _ & Hq) Hnd.
    unfold reputation, voters_nodup in *. destruct st1 as [p1 m1], st2 as [p2 m2]. cbn [fst snd] in Hp, Hm. subst p2.
    rewrite <- Hv, <- Hn, <- Hs.
    destruct (N.ltb _ (h_view h1)).
    { split; [reflexivity|]. split; [reflexivity|exact Hm]. }
    destruct (h_qc h1) as [v1|], (h_qc h2) as [v2|]; try contradiction.
    2:{ split; [reflexivity|]. split; [reflexivity|exact Hm]. }
    rewrite <- (Permutation_length Hq).
    set (inc := rep_inc (length v1) (c_n c1)).
    destruct (rep_foreach_equiv (N.ltb p1 (h_view h1)) inc v1 v2 m1 m2 Hnd Hq Hm) as (Ha & Hb & Hc).
    destruct (foreach (N.ltb p1 (h_view h1)) inc v1 m1) as [m1' ws1].
    destruct (foreach (N.ltb p1 (h_view h1)) inc v2 m2) as [m2' ws2].
    cbn [fst snd] in Ha, Hb, Hc.
    rewrite <- (wsort_permutation ws1 ws2 Hb Hc).
    destruct (pick (wsort ws1) _); (split; [reflexivity|split; [reflexivity|assumption]]).
  Qed.

  Lemma reputation_run_order_independent c1 c2 cl qs1 qs2 :
    c_n c1 = c_n c2 -> c_seed c1 = c_seed c2 ->
    Forall2 (fun q1 q2 => head_equiv (fst q1) (fst q2) /\ voters_nodup (fst q1) /\ snd q1 = snd q2) qs1 qs2 ->
    forall st1 st2, st_equiv st1 st2 ->
    fst (reputation_run' c1 cl st1 qs1) = fst (reputation_run' c2 cl st2 qs2).
  Proof.
    intros Hn Hs H. induction H as [|[h1 v1] [h2 v2] r1 r2 (Hh & Hnd & Hv) _ IH]; intros st1 st2 Hst.
    - reflexivity.
    - cbn [fst snd] in Hh, Hnd, Hv. subst v2. cbn [reputation_run].
      destruct (reputation_order_independent c1 c2 cl st1 st2 h1 h2 v1 Hn Hs Hst Hh Hnd) as [Ha Hb].
      destruct (reputation' c1 cl st1 h1 v1) as [a1 s1]. destruct (reputation' c2 cl st2 h2 v1) as [a2 s2].
      cbn [fst snd] in Ha, Hb. subst a2.
      specialize (IH s1 s2 Hb).
      destruct (reputation_run' c1 cl s1 r1) as [as1 t1]. destruct (reputation_run' c2 cl s2 r2) as [as2 t2].
      cbn [fst] in *. now rewrite IH.
  Qed.
End ReputationOrder.

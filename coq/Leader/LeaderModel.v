(* Model of /repo/protocol/leaderrotation: common.go (ChooseRoundRobin), roundrobin.go, fixed.go,
   treeleader.go, carousel.go, reputation.go.  Definitions only, no proofs.

   Go types: hotstuff.View = uint64, hotstuff.ID = uint32, numReplicas / chainLength = int (64 bit),
   SharedRandomSeed = int64.  Views and ids are N, Go ints are Z; every cast is written out.
   A Go run-time panic (integer division by zero, index out of range) is [Panic]. *)
From Coq Require Import List Bool NArith ZArith.
From HS Require Import Base.Prelude Quorum.QuorumModel.
Import ListNotations.

Definition two64 : N := 18446744073709551616%N.
Definition two32 : N := 4294967296%N.
Definition two64z : Z := 18446744073709551616%Z.
Definition two63z : Z := 9223372036854775808%Z.

Definition u64 (x : N) : N := (x mod two64)%N.                 (* value of a uint64 expression *)
Definition u32 (x : N) : N := (x mod two32)%N.                 (* hotstuff.ID(x) *)
Definition u64_of_int (z : Z) : N := Z.to_N (z mod two64z).    (* hotstuff.View(i) for an int i *)
Definition u64_sub (a b : N) : N := Z.to_N ((Z.of_N a - Z.of_N b) mod two64z).   (* a - b on uint64 *)
Definition i64_wrap (z : Z) : Z := ((z + two63z) mod two64z - two63z)%Z.          (* int64 wrap-around *)
Definition i64_of_u64 (x : N) : Z := i64_wrap (Z.of_N (u64 x)).                   (* int64(view) *)

(* ---- common.go ------------------------------------------------------------------------
   func ChooseRoundRobin(view hotstuff.View, numReplicas int) hotstuff.ID {
       return hotstuff.ID(view%hotstuff.View(numReplicas) + 1) }                           *)
Definition choose_round_robin (v : view) (n : Z) : result rid :=
  let m := u64_of_int n in
  if N.eqb m 0 then Panic                                   (* integer divide by zero *)
  else Ok (u32 (u64 ((u64 v) mod m + 1)))%N.

(* ---- what a replica knows locally --------------------------------------------------- *)
(* internal/tree.Tree: own id + the shared position table; Root() = treePosToID[0] *)
Record tree := { t_id : rid; t_pos : list rid }.
Definition tree_root (t : tree) : result rid :=
  match t_pos t with [] => Panic | r :: _ => Ok r end.

(* core.RuntimeConfig as far as leader rotation reads it *)
Record config := {
  c_id : rid;                 (* the replica's own id: must never influence a leader *)
  c_n : Z;                    (* ReplicaCount() = len(replicas) *)
  c_seed : Z;                 (* SharedRandomSeed() *)
  c_tree : option tree        (* Tree(), nil when Kauri is off *)
}.

(* ---- roundrobin.go / fixed.go / treeleader.go ------------------------------------- *)
Inductive scheme := SRoundRobin | SFixed (leader : rid) | STree.

Definition stateless_leader (s : scheme) (c : config) (v : view) : result rid :=
  match s with
  | SRoundRobin => choose_round_robin v (c_n c)
  | SFixed l => Ok l
  | STree => match c_tree c with
             | None => Ok 1%N                               (* !HasKauriTree() *)
             | Some t => tree_root t
             end
  end.

(* ---- the committed head as the history-based schemes see it ------------------------ *)
Record head := {
  h_view : view;                      (* commitHead.View() *)
  h_qc : option (list rid);           (* Participants() of commitHead.QuorumCert().Signature() in
                                         ForEach order; None = nil signature (genesis / startup) *)
  h_chain : list rid                  (* proposers of commitHead, its parent, grand-parent, ... as far as
                                         blockchain.Get succeeds, genesis excluded *)
}.

Definition mem (x : rid) (l : list rid) : bool := existsb (N.eqb x) l.       (* slices.Contains *)

Fixpoint insert (x : N) (l : list N) : list N :=
  match l with
  | [] => [x]
  | y :: r => if N.leb x y then x :: l else y :: insert x r
  end.
Fixpoint isort (l : list N) : list N :=                                       (* slices.Sort *)
  match l with [] => [] | x :: r => insert x (isort r) end.

(* for i := 0; ok && i < f && block != genesis; i++ { lastAuthors = append(lastAuthors, block.Proposer()); ... } *)
Definition last_authors (n : Z) (h : head) : list rid := firstn (Z.to_nat (num_faulty n)) (h_chain h).

Definition candidates (n : Z) (h : head) (signers : list rid) : list rid :=
  isort (filter (fun id => negb (mem id (last_authors n h))) signers).

(* ---- carousel.go -------------------------------------------------------------------
   [rnd s] stands for rand.New(rand.NewSource(s)).Int(); [cl] is chainLength.              *)
Definition carousel (c : config) (cl : Z) (rnd : Z -> Z) (h : head) (round : view) : result rid :=
  match h_qc h with
  | None => choose_round_robin round (c_n c)
  | Some signers =>
      if negb (N.eqb (h_view h) (u64_sub (u64 round) (u64_of_int cl)))
      then choose_round_robin round (c_n c)
      else
        let cands := candidates (c_n c) h signers in
        let seed := i64_wrap (c_seed c + i64_of_u64 round) in
        let len := Z.of_nat (length cands) in
        if Z.eqb len 0 then choose_round_robin round (c_n c)   (* no candidate: round-robin
                                                                 (fixes/C16-carousel-no-candidates.patch) *)
        else
          let i := Z.rem (rnd seed) len in                  (* Go's % truncates toward zero *)
          if Z.ltb i 0 then Panic                           (* index out of range *)
          else match nth_error cands (Z.to_nat i) with
               | Some l => Ok l
               | None => Panic
               end
  end.

(* The code before that repair: candidates[rnd.Int()%len(candidates)] with an empty candidate list is an
   integer division by zero.  Kept as the witness that "no scheme panics" was false (C16_carousel_unfixed_refuted). *)
Definition carousel_unfixed (c : config) (cl : Z) (rnd : Z -> Z) (h : head) (round : view) : result rid :=
  match h_qc h with
  | None => choose_round_robin round (c_n c)
  | Some signers =>
      if negb (N.eqb (h_view h) (u64_sub (u64 round) (u64_of_int cl)))
      then choose_round_robin round (c_n c)
      else
        let cands := candidates (c_n c) h signers in
        let seed := i64_wrap (c_seed c + i64_of_u64 round) in
        let len := Z.of_nat (length cands) in
        if Z.eqb len 0 then Panic                           (* integer divide by zero *)
        else
          let i := Z.rem (rnd seed) len in
          if Z.ltb i 0 then Panic
          else match nth_error cands (Z.to_nat i) with
               | Some l => Ok l
               | None => Panic
               end
  end.

Definition carousel_active (cl : Z) (h : head) (round : view) : bool :=
  match h_qc h with
  | None => false
  | Some _ => N.eqb (h_view h) (u64_sub (u64 round) (u64_of_int cl))
  end.

(* the answers of one replica to a sequence of queries, each made under some committed head *)
Definition carousel_run (c : config) (cl : Z) (rnd : Z -> Z) (qs : list (head * view)) : list (result rid) :=
  map (fun q => carousel c cl rnd (fst q) (snd q)) qs.

(* ---- reputation.go ------------------------------------------------------------------
   float64 is not interpreted: R is the carrier, the four operations below are the Go expressions
     rep_inc votes n   = (float64(votes) - frac) / frac   with frac = (2.0/3.0) * float64(n)
     radd a b          = a + b
     weight_of r       = uint(r * 10)
     pick ws seed      = wr.NewChooser(ws...) then PickSource(rand.New(rand.NewSource(seed)));
                         None when NewChooser reports an error (GetLeader then returns 0).
   The state is (prevCommitHead.View(), reputations); a missing map entry reads as rzero.
   The weight list is sorted by replica id before it is handed to the chooser (repaired
   comparator, see fixes/C16-reputation-sort.patch).                                      *)
Section Reputation.
  Context {R : Type}.
  Variable rzero : R.
  Variable rep_inc : nat -> Z -> R.
  Variable radd : R -> R -> R.
  Variable weight_of : R -> N.
  Variable pick : list (rid * N) -> Z -> option rid.

  Definition rep_state := (view * list (rid * R))%type.

  Fixpoint rep_get (m : list (rid * R)) (id : rid) : R :=
    match m with
    | [] => rzero
    | (k, x) :: r => if N.eqb k id then x else rep_get r id
    end.
  Fixpoint rep_set (m : list (rid * R)) (id : rid) (x : R) : list (rid * R) :=
    match m with
    | [] => [(id, x)]
    | (k, y) :: r => if N.eqb k id then (k, x) :: r else (k, y) :: rep_set r id x
    end.

  (* voters.ForEach(func(voterID) { if fresh { reputations[voterID] += reputation }; weights = append(...) }) *)
  Fixpoint rep_foreach (fresh : bool) (inc : R) (voters : list rid) (m : list (rid * R))
    : list (rid * R) * list (rid * N) :=
    match voters with
    | [] => (m, [])
    | id :: r =>
        let m1 := if fresh then rep_set m id (radd (rep_get m id) inc) else m in
        let w := (id, weight_of (rep_get m1 id)) in
        let '(m2, ws) := rep_foreach fresh inc r m1 in
        (m2, w :: ws)
    end.

  Fixpoint winsert (x : rid * N) (l : list (rid * N)) : list (rid * N) :=
    match l with
    | [] => [x]
    | y :: r => if N.leb (fst x) (fst y) then x :: l else y :: winsert x r
    end.
  Fixpoint wsort (l : list (rid * N)) : list (rid * N) :=
    match l with [] => [] | x :: r => winsert x (wsort r) end.

  Definition reputation (c : config) (cl : Z) (st : rep_state) (h : head) (v : view)
    : result rid * rep_state :=
    let '(prev, m) := st in
    if N.ltb (u64_sub (u64 v) (u64_of_int cl)) (h_view h) then (Ok 0%N, st)   (* old view: "not supported" *)
    else match h_qc h with
    | None => (choose_round_robin v (c_n c), st)
    | Some voters =>
        let inc := rep_inc (length voters) (c_n c) in
        let fresh := N.ltb prev (h_view h) in
        let '(m', ws) := rep_foreach fresh inc voters m in
        let st' := (if fresh then h_view h else prev, m') in
        let seed := i64_wrap (c_seed c + i64_of_u64 v) in
        match pick (wsort ws) seed with
        | None => (Ok 0%N, st')                              (* weightedrand error *)
        | Some l => (Ok l, st')
        end
    end.

  Fixpoint reputation_run (c : config) (cl : Z) (st : rep_state) (qs : list (head * view))
    : list (result rid) * rep_state :=
    match qs with
    | [] => ([], st)
    | (h, v) :: r =>
        let '(a, st1) := reputation c cl st h v in
        let '(as_, st2) := reputation_run c cl st1 r in
        (a :: as_, st2)
    end.
End Reputation.

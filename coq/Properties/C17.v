(* C17 — the Kauri tree is one consistent tree over all replicas.

   [new_simple x bf ids = Ok tx] ("built") is replica x's own Tree instance over the position
   assignment [ids] with branch factor [bf].  All statements are for every duplicate-free
   position list of any length and every bf >= 2, and relate instances of *different* replicas
   (tx, ty): the instances are the same function of (ids, bf), which is what makes the local
   views fit together.  [up] is one Parent() step taken on the instance of the replica it starts
   from, [up_n k] k such steps, [geom bf h] = 1 + bf + ... + bf^(h-1).
   Only statements closed by [exact] and their assumptions. *)
From HS Require Import Base.Prelude Tree.TreeModel Tree.TreeProofs.

(* NewSimple succeeds exactly when bf >= 2 and the replica is in the position list, and panics
   otherwise; the instance stores exactly what it was given.  (The guards of all theorems below.) *)
Theorem C17_ctor_guards : forall x (b : Z) l,
  ((exists t, new_simple x b l = Ok t) <-> (2 <= b)%Z /\ In x l) /\
  (new_simple x b l = Panic <-> ~ ((2 <= b)%Z /\ In x l)) /\
  (forall t, new_simple x b l = Ok t ->
     t_id t = x /\ t_ids t = l /\ t_bf t = Z.to_nat b /\ t_height t = tree_height (length l) (Z.to_nat b)).
Proof. exact ctor_guards. Qed.
Print Assumptions C17_ctor_guards.

(* exactly one root: every instance names the first position as root, IsRoot holds for it only,
   it is the only replica whose Parent() says "no parent", and every other replica has a parent
   that is a replica other than itself *)
Theorem C17_root_unique : forall ids bf, NoDup ids -> 2 <= bf ->
  forall x tx, new_simple x (Z.of_nat bf) ids = Ok tx ->
  exists r, hd_error ids = Some r /\ root tx = Ok r /\
    (forall y, is_root tx y = true <-> y = r) /\
    (parent tx = Ok (x, false) <-> x = r) /\
    (x <> r -> exists p, parent tx = Ok (p, true) /\ In p ids /\ p <> x).
Proof. exact root_unique. Qed.
Print Assumptions C17_root_unique.

(* x's own instance names p as parent iff x is among p's children as seen by any instance ty
   (in particular p's own: ReplicaChildren = ChildrenOf(own id)) *)
Theorem C17_parent_child : forall ids bf, NoDup ids -> 2 <= bf ->
  forall x y tx ty p,
  new_simple x (Z.of_nat bf) ids = Ok tx -> new_simple y (Z.of_nat bf) ids = Ok ty ->
  (parent tx = Ok (p, true) <-> In x (children_of ty p)).
Proof. exact parent_child. Qed.
Print Assumptions C17_parent_child.

(* every replica except the root appears in exactly one children list, exactly once: the
   children lists taken in position order concatenate to the position list without its head;
   they are duplicate-free, pairwise disjoint, contain only replicas and never the root *)
Theorem C17_children_partition : forall ids bf, NoDup ids -> 2 <= bf ->
  forall y ty, new_simple y (Z.of_nat bf) ids = Ok ty ->
  concat (map (children_of ty) ids) = tl ids /\
  (forall p, NoDup (children_of ty p)) /\
  (forall p p' z, In z (children_of ty p) -> In z (children_of ty p') -> p = p') /\
  (forall p z, In z (children_of ty p) -> In z ids /\ In p ids /\ hd_error ids <> Some z) /\
  (forall z, In z ids -> hd_error ids <> Some z -> exists p, In p ids /\ In z (children_of ty p)).
Proof. exact children_partition. Qed.
Print Assumptions C17_children_partition.

(* one rooted tree: following Parent() from any replica reaches the root in fewer than n steps,
   the number of steps (depth) is unique, and no replica is its own ancestor *)
Theorem C17_parent_wf : forall ids bf, NoDup ids -> 2 <= bf ->
  forall r, hd_error ids = Some r -> forall x, In x ids ->
  (exists k, k < length ids /\ up_n bf ids k x = Some r) /\
  (forall k k', up_n bf ids k x = Some r -> up_n bf ids k' x = Some r -> k = k') /\
  (forall k, up_n bf ids (S k) x <> Some x).
Proof. exact parent_wf. Qed.
Print Assumptions C17_parent_wf.

(* SubTree terminates (fuel n suffices), repeats nobody, and contains exactly the replicas that
   have x as a proper ancestor *)
Theorem C17_subtree_exact : forall ids bf, NoDup ids -> 2 <= bf ->
  forall x tx, new_simple x (Z.of_nat bf) ids = Ok tx ->
  exists l, subtree tx = Some l /\ NoDup l /\
    forall y, In y l <-> exists k, up_n bf ids (S k) y = Some x.
Proof. exact subtree_exact. Qed.
Print Assumptions C17_subtree_exact.

(* PeersOf is the children list of the parent (as any instance sees it), empty for the root;
   its members are exactly the replicas with the same parent *)
Theorem C17_peers_exact : forall ids bf, NoDup ids -> 2 <= bf ->
  forall x y tx ty,
  new_simple x (Z.of_nat bf) ids = Ok tx -> new_simple y (Z.of_nat bf) ids = Ok ty ->
  (forall p, parent tx = Ok (p, true) -> peers_of tx = Ok (children_of ty p)) /\
  (forall p, parent tx = Ok (p, false) -> peers_of tx = Ok []) /\
  exists l, peers_of tx = Ok l /\
    forall z, In z l <-> exists p, up bf ids x = Some p /\ up bf ids z = Some p.
Proof. exact peers_exact. Qed.
Print Assumptions C17_peers_exact.

(* heights: TreeHeight is the least number of levels that hold n positions, and the height any
   instance reports for a replica is TreeHeight minus that replica's depth (>= 1) *)
Theorem C17_height_consistent : forall ids bf, NoDup ids -> 2 <= bf ->
  forall r, hd_error ids = Some r ->
  forall y ty, new_simple y (Z.of_nat bf) ids = Ok ty ->
  (length ids <= geom bf (tree_height_m ty) /\
   forall h', length ids <= geom bf h' -> tree_height_m ty <= h') /\
  (forall x k, In x ids -> up_n bf ids k x = Some r ->
     height_of ty x = tree_height_m ty - k /\ k < tree_height_m ty) /\
  replica_height ty = height_of ty y.
Proof. exact height_consistent. Qed.
Print Assumptions C17_height_consistent.

(* non-vacuity: a permuted 8-replica binary tree with an incomplete fourth level and a permuted
   6-replica ternary tree with an incomplete third level satisfy the premises; the values are
   (x, Parent, ReplicaChildren, SubTree, PeersOf, ReplicaHeight, TreeHeight) per vantage x *)
Open Scope N_scope.
Definition C17_ex_ids : list rid := [5; 3; 9; 1; 7; 2; 8; 4].
Definition C17_view (bf : Z) (ids : list rid) :=
  map (fun x => match new_simple x bf ids with
                | Ok t => Some (x, parent t, replica_children t, subtree t, peers_of t, replica_height t, tree_height_m t)
                | _ => None
                end) ids.

Example C17_ex_premises : NoDup C17_ex_ids /\ (2 <= 2)%nat /\ hd_error C17_ex_ids = Some 5.
Proof. split; [|split; [constructor|reflexivity]]. repeat (constructor; [cbn; intuition discriminate|]). constructor. Qed.

Example C17_ex_binary : C17_view 2 C17_ex_ids =
  [Some (5, Ok (5, false), [3; 9], Some [3; 9; 1; 7; 2; 8; 4], Ok [], 4%nat, 4%nat);
   Some (3, Ok (5, true), [1; 7], Some [1; 7; 4], Ok [3; 9], 3%nat, 4%nat);
   Some (9, Ok (5, true), [2; 8], Some [2; 8], Ok [3; 9], 3%nat, 4%nat);
   Some (1, Ok (3, true), [4], Some [4], Ok [1; 7], 2%nat, 4%nat);
   Some (7, Ok (3, true), [], Some [], Ok [1; 7], 2%nat, 4%nat);
   Some (2, Ok (9, true), [], Some [], Ok [2; 8], 2%nat, 4%nat);
   Some (8, Ok (9, true), [], Some [], Ok [2; 8], 2%nat, 4%nat);
   Some (4, Ok (1, true), [], Some [], Ok [4], 1%nat, 4%nat)].
Proof. vm_compute. reflexivity. Qed.

Example C17_ex_ternary : C17_view 3 [4; 1; 3; 2; 6; 5] =
  [Some (4, Ok (4, false), [1; 3; 2], Some [1; 3; 2; 6; 5], Ok [], 3%nat, 3%nat);
   Some (1, Ok (4, true), [6; 5], Some [6; 5], Ok [1; 3; 2], 2%nat, 3%nat);
   Some (3, Ok (4, true), [], Some [], Ok [1; 3; 2], 2%nat, 3%nat);
   Some (2, Ok (4, true), [], Some [], Ok [1; 3; 2], 2%nat, 3%nat);
   Some (6, Ok (1, true), [], Some [], Ok [6; 5], 1%nat, 3%nat);
   Some (5, Ok (1, true), [], Some [], Ok [6; 5], 1%nat, 3%nat)].
Proof. vm_compute. reflexivity. Qed.

(* replica 4 is three Parent() steps below the root 5; the guards exclude exactly the panics *)
Example C17_ex_chain_and_guards :
  up_n 2 C17_ex_ids 3 4 = Some 5 /\ up_n 2 C17_ex_ids 2 4 = Some 3 /\
  geom 2 3 = 7%nat /\ geom 2 4 = 15%nat /\
  new_simple 6 2 C17_ex_ids = Panic /\ new_simple 5 1 C17_ex_ids = Panic.
Proof. vm_compute. repeat split. Qed.

(* being childless is not the same as having height 1: with an incomplete last level a replica
   on the second-to-last level can have no children (4 replicas, bf 2: replica 30 at position 2
   has height 2, no children and an empty sub-tree); height 1 always means childless here *)
Example C17_ex_childless_is_not_height_one :
  C17_view 2 [10; 20; 30; 40] =
  [Some (10, Ok (10, false), [20; 30], Some [20; 30; 40], Ok [], 3%nat, 3%nat);
   Some (20, Ok (10, true), [40], Some [40], Ok [20; 30], 2%nat, 3%nat);
   Some (30, Ok (10, true), [], Some [], Ok [20; 30], 2%nat, 3%nat);
   Some (40, Ok (20, true), [], Some [], Ok [40], 1%nat, 3%nat)].
Proof. vm_compute. reflexivity. Qed.

(* C18 — the Twins tester enumerates what it announces and reports divergence faithfully.
   Only statements closed by [exact] and their assumptions.  The generator theorems are generic
   in the option type A, the option list lp and the number of views k (unbounded); the model is
   that of /repo/twins/generator.go with fixes/C18-generator-last-scenario.patch applied. *)
From Coq Require Import List ZArith Permutation. Import ListNotations.
From HS Require Import Base.Prelude Twins.GeneratorModel Twins.GeneratorProofs
  Twins.VerdictModel Twins.VerdictProofs.

(* Exactly |lp|^k calls of NextScenario succeed; Remaining() before the i-th of them is the
   announced number |lp|^k minus i; every later call returns EOF (Remaining() = 0). *)
Theorem C18_odometer_count : forall (A : Type) (lp : list A) (k e : nat),
  let N := length lp ^ k in
  let evs := fst (run_n (N + e) (init lp k)) in
  announced lp k = Z.of_nat N /\
  (forall i, i < N -> exists s, nth_error evs i = Some ((announced lp k - Z.of_nat i)%Z, Ok (Some s))) /\
  (forall i, N <= i < N + e -> nth_error evs i = Some (0%Z, Ok None)).
Proof. exact @odometer_count. Qed.
Print Assumptions C18_odometer_count.

(* The yielded scenarios are exactly the k-th cartesian power of lp, in lexicographic order. *)
Theorem C18_odometer_exact : forall (A : Type) (lp : list A) (k e : nat),
  scenarios (fst (run_n (length lp ^ k + e) (init lp k))) = product (repeat lp k).
Proof. exact @odometer_exact. Qed.
Print Assumptions C18_odometer_exact.

(* completeness: a list of options is yielded iff it has k entries, all from lp *)
Theorem C18_odometer_complete : forall (A : Type) (lp : list A) (k e : nat) (s : list A),
  In s (scenarios (fst (run_n (length lp ^ k + e) (init lp k))))
  <-> length s = k /\ forall x, In x s -> In x lp.
Proof. exact @odometer_complete. Qed.
Print Assumptions C18_odometer_complete.

(* without repetition *)
Theorem C18_odometer_nodup : forall (A : Type) (lp : list A) (k e : nat),
  NoDup lp -> NoDup (scenarios (fst (run_n (length lp ^ k + e) (init lp k)))).
Proof. exact @odometer_nodup. Qed.
Print Assumptions C18_odometer_nodup.

(* deterministic: the outcome of the first m calls is a function of the generator state alone,
   whatever number of calls follows (for every state, shuffled or not) *)
Theorem C18_odometer_deterministic : forall (A : Type) (g : gen A) (m m' : nat),
  m <= m' -> fst (run_n m g) = firstn m (fst (run_n m' g)).
Proof. exact @odometer_deterministic. Qed.
Print Assumptions C18_odometer_deterministic.

(* Shuffle(seed): math/rand is an oracle giving a permutation of the option indices and one
   offset per view.  The count-down and the EOF behaviour are unchanged ... *)
Theorem C18_shuffle_count : forall (A : Type) (lp : list A) (k : nat) (perm offs : list nat) (e : nat),
  Permutation perm (seq 0 (length lp)) ->
  length offs = k -> Forall (fun o => o < length lp) offs \/ lp = [] ->
  let N := length lp ^ k in
  let evs := fst (run_n (N + e) (shuffle perm offs (init lp k))) in
  (forall i, i < N -> exists s, nth_error evs i = Some ((announced lp k - Z.of_nat i)%Z, Ok (Some s))) /\
  (forall i, N <= i < N + e -> nth_error evs i = Some (0%Z, Ok None)).
Proof. exact @shuffle_count. Qed.
Print Assumptions C18_shuffle_count.

(* ... and the yielded scenarios are a permutation of the unshuffled ones. *)
Theorem C18_shuffle_perm : forall (A : Type) (lp : list A) (k : nat) (perm offs : list nat) (e : nat),
  Permutation perm (seq 0 (length lp)) ->
  length offs = k -> Forall (fun o => o < length lp) offs \/ lp = [] ->
  Permutation (scenarios (fst (run_n (length lp ^ k + e) (shuffle perm offs (init lp k)))))
              (scenarios (fst (run_n (length lp ^ k + e) (init lp k)))).
Proof. exact @shuffle_perm. Qed.
Print Assumptions C18_shuffle_perm.

(* Well-formedness on the property's finite domain (stated in the theorem): for 1..5 replicas,
   0..2 twin pairs, 1..3 partitions, NewGenerator's option list exists, has no repetition, and
   in every option there are k partitions, every configured node (both twins of a pair
   included) occurs exactly once in them, nothing else occurs, the leader is a configured
   (non-twin) replica, and partitions are kept in a canonical (sorted) order. *)
Theorem C18_partitions_wf_bounded : forall nn nt k,
  1 <= nn <= 5 -> nt <= 2 -> 1 <= k <= 3 ->
  exists lp, option_list nn nt k = Ok lp /\ Forall (wf_view nn nt k) lp /\ NoDup lp.
Proof. exact partitions_wf_bounded. Qed.
Print Assumptions C18_partitions_wf_bounded.

(* hence no scenario is repeated, for every number of views *)
Theorem C18_no_repetition_bounded : forall nn nt k views e,
  1 <= nn <= 5 -> nt <= 2 -> 1 <= k <= 3 ->
  exists lp, option_list nn nt k = Ok lp /\
    NoDup (scenarios (fst (run_n (length lp ^ views + e) (init lp views)))).
Proof. exact no_repetition_bounded. Qed.
Print Assumptions C18_no_repetition_bounded.

(* OBSERVATION, deliberately NOT part of the property: "without repetition" is read as "no scenario
   value is yielded twice" (above).  Up to the order of the partitions within a view, which has no
   meaning for the network, the generator repeats itself when two partitions have the same size:
   3 replicas / 1 twin pair / 2 partitions gives 12 options of which two pairs are the same view
   (10 distinct).  [view_equiv a b] = same leader and partition lists that are permutations. *)
Theorem C18_observation_partition_order_refuted :
  exists lp i j a b,
    option_list 3 1 2 = Ok lp /\ length lp = 12 /\ i < j /\
    nth_error lp i = Some a /\ nth_error lp j = Some b /\ view_equiv a b.
Proof. exact options_repeat_up_to_partition_order. Qed.
Print Assumptions C18_observation_partition_order_refuted.

(* ... whereas options that were pairwise different up to that order would give scenarios that are
   pairwise different up to that order, for every number of views (generic, unbounded). *)
Theorem C18_observation_distinct_up_to_order_lifts : forall (lp : list view_opt) (k e : nat),
  ForallOrdPairs (fun a b => ~ view_equiv a b) lp ->
  ForallOrdPairs (fun s t => ~ Forall2 view_equiv s t)
                 (scenarios (fst (run_n (length lp ^ k + e) (init lp k)))).
Proof. exact distinct_up_to_order_lifts. Qed.
Print Assumptions C18_observation_distinct_up_to_order_lifts.

(* Size vectors for ALL n >= 1 and k (genPartitionSizes(n, k, 1), the only minimum NewGenerator
   uses): the result is exactly the set of non-increasing splits of n into k parts (trailing zeros
   = unused partitions), each once. *)
Theorem C18_sizes_exact : forall n k szs,
  1 <= n -> gen_partition_sizes n k 1 = Ok szs ->
  NoDup szs /\ forall v, In v szs <-> length v = k /\ sum v = n /\ nonincr v.
Proof. exact sizes_exact. Qed.
Print Assumptions C18_sizes_exact.

(* The verdict is 'unsafe' exactly when two compared logs differ at a position where both are
   defined ... *)
Theorem C18_verdict_unsafe_iff : forall logs : list log,
  fst (check_commits logs) = false <->
  exists i a b ha hb, In a logs /\ In b logs /\
    nth_error a i = Some ha /\ nth_error b i = Some hb /\ ha <> hb.
Proof. exact verdict_unsafe_iff. Qed.
Print Assumptions C18_verdict_unsafe_iff.

(* ... the commit count is the length of the agreed prefix (which is unique) ... *)
Theorem C18_verdict_commits : forall logs : list log,
  agreed_prefix logs (snd (check_commits logs)) /\
  forall c, agreed_prefix logs c -> c = snd (check_commits logs).
Proof. exact verdict_commits. Qed.
Print Assumptions C18_verdict_commits.

(* ... and the compared logs are exactly those of replicas with a single node (non-twins). *)
Theorem C18_verdict_non_twins : forall (replicas : list (list log)) (a : log),
  check_commits_net replicas = check_commits (non_twin_logs replicas) /\
  (In a (non_twin_logs replicas) <-> In [a] replicas).
Proof. exact verdict_non_twins. Qed.
Print Assumptions C18_verdict_non_twins.

(* ---- non-vacuity ---- *)
Example C18_ex_drain :
  fst (run_n 6 (init [10; 20] 2))
  = [(4%Z, Ok (Some [10; 10])); (3%Z, Ok (Some [10; 20])); (2%Z, Ok (Some [20; 10]));
     (1%Z, Ok (Some [20; 20])); (0%Z, Ok None); (0%Z, Ok None)].
Proof. vm_compute. reflexivity. Qed.

Example C18_ex_shuffle :
  scenarios (fst (run_n 5 (shuffle [2; 0; 1] [1; 2] (init [10; 20; 30] 2))))
  = [[10; 20]; [10; 30]; [10; 10]; [20; 20]; [20; 30]]
  /\ Permutation [2; 0; 1] (seq 0 3).
Proof. split; [vm_compute; reflexivity | apply perm_trans with [0; 2; 1]; [apply perm_swap | apply perm_skip; apply perm_swap]]. Qed.

Example C18_ex_options : exists lp, option_list 4 1 2 = Ok lp /\ length lp = 18.
Proof. eexists. split; [vm_compute; reflexivity | reflexivity]. Qed.

Example C18_ex_sizes :
  gen_partition_sizes 6 4 1 = Ok [[6;0;0;0]; [5;1;0;0]; [4;2;0;0]; [4;1;1;0]; [3;3;0;0]; [3;2;1;0];
                                  [3;1;1;1]; [2;2;2;0]; [2;2;1;1]].
Proof. vm_compute. reflexivity. Qed.

Example C18_ex_verdict :
  check_commits [[1; 2; 3]; [1; 2]; [1; 4]]%N = (false, 1) /\
  check_commits [[1; 2; 3]; [1; 2]; []]%N = (true, 3) /\
  check_commits_net [[[1; 2]]; [[7]; [8]]; [[1]]]%N = (true, 2).
Proof. vm_compute. repeat split. Qed.

(* C10 — no message from a peer can crash a replica or disturb its state.
   Only statements closed by [exact] and their assumptions.  The model is Wire/NilModel.v: the
   receive path with every pointer / interface / optional protobuf field an [option] and every
   dereference of an absent one a [Panic]; [all_guards] is the code with fixes/C10-*.patch applied,
   [no_guards] the tree as found (the harness probes which vector the tree under test has). *)
From Coq Require Import List Bool NArith. Import ListNotations.
From HS Require Import Base.Prelude Wire.NilModel Wire.NilProofs.
Open Scope N_scope.

(* Whatever a peer sends — every combination of present / absent / empty / inconsistent fields, any
   signatures (the [ok] booleans), any hash classes and views — in every replica state ([env]),
   for all three schemes, cache on and off, plain and aggregate QCs, with and without the Kauri
   tree, with and without the latency matrix (and any sender id, inside or outside it) and whether or not the peer id is known, the composed handler does not panic. *)
Theorem C10_never_panics : forall (c : cfg) (e : env) (ctx_ok : bool) (m : wmsg),
  c_g c = all_guards -> handle c e ctx_ok m <> Panic.
Proof. exact never_panics. Qed.
Print Assumptions C10_never_panics.

(* The exported converters return for every argument, including nil. *)
Theorem C10_decode_never_panics : forall d : dcall, decode_returns all_guards d = true.
Proof. exact decode_never_panics. Qed.
Print Assumptions C10_decode_never_panics.

(* If no certificate and no signature in the message verifies, the protocol projection (view,
   high QC, high TC, lock, committed block, lastVoted) is unchanged, whatever the protocol logic
   [deep] below the verification layer does with accepted messages. *)
Theorem C10_unverifiable_inert :
  forall (proj : Type) (deep : proj -> wmsg -> proj) (c : cfg) (e : env) (ctx_ok : bool) (st : proj) (m : wmsg),
  c_g c = all_guards -> nothing_verifies m = true -> deliver deep c e ctx_ok st m = Ok st.
Proof. exact unverifiable_inert. Qed.
Print Assumptions C10_unverifiable_inert.

(* Independently of the guards, such a message is never handed to the protocol logic. *)
Theorem C10_unverifiable_not_passed : forall (c : cfg) (e : env) (ctx_ok : bool) (m : wmsg),
  nothing_verifies m = true -> handle c e ctx_ok m <> Ok Passed.
Proof. exact unverifiable_not_passed. Qed.
Print Assumptions C10_unverifiable_not_passed.

(* QuorumCert.Equals (an exported method; until /repo d1e8a5e VerifyAnyQC called it on the block QC and the
   high QC of a verified aggregate QC, now no handler does) is total: for every combination of nil / present signatures, equal or different views, hashes
   and bytes it returns, and certificates that differ in signature presence are never equal. *)
Theorem C10_qc_equals_total : forall (g : guards) (vh_eq a b same_bytes : bool),
  g_equals g = true ->
  qc_equals g vh_eq a b same_bytes <> Panic /\ (a <> b -> qc_equals g vh_eq a b same_bytes = Ok false).
Proof. intros g vh a b same G. split; [exact (qc_equals_total g vh a b same G) | exact (qc_equals_nil_mismatch g vh a b same G)]. Qed.
Print Assumptions C10_qc_equals_total.

(* The full statement is false for the tree as found: each of the ten guards is needed.
   With only that guard removed, a concrete wire message (or nil converter argument) panics. *)
Theorem C10_never_panics_unguarded_refuted :
  handle (mkcfg Ecdsa false false (set_guard 0 false all_guards)) env_all true w_srv_block = Panic /\
  decode_returns (set_guard 1 false all_guards) (DBlock None) = false /\
  handle (mkcfg Ecdsa false false (set_guard 2 false all_guards)) env_all true w_pcert = Panic /\
  handle (mkcfg Ecdsa false false (set_guard 3 false all_guards)) env_all true w_tc = Panic /\
  handle (mkcfg Ecdsa false true (set_guard 4 false all_guards)) env_all true w_agg_any = Panic /\
  handle (mkcfg Ecdsa false true (set_guard 5 false all_guards)) env_all true w_agg_sync = Panic /\
  handle (mkcfg Ecdsa true false (set_guard 6 false all_guards)) env_all true w_cache = Panic /\
  handle (mkcfg Bls false false (set_guard 7 false all_guards)) env_all false w_bitfield = Panic /\
  qc_equals (set_guard 8 false all_guards) true false true false = Panic /\
  qc_equals (set_guard 8 false all_guards) true true false false = Panic /\
  handle (mkcfg_lat Ecdsa false (set_guard 9 false all_guards)) env_outside true w_lat_newview = Panic /\
  handle (mkcfg_lat Ecdsa false (set_guard 9 false all_guards)) env_outside false w_lat_timeout = Panic /\
  handle (mkcfg_lat Ecdsa true (set_guard 9 false all_guards)) env_outside true w_lat_propose = Panic.
Proof. exact guards_needed. Qed.
Print Assumptions C10_never_panics_unguarded_refuted.

(* non-vacuity: the hypotheses are satisfiable on non-trivial values, and acceptance is possible *)
Example C10_inert_hypothesis_satisfiable :
  let m := MTimeout (Build_wtimeout 7 (Some (Build_wsync (Some (Build_wqc (Some (Some (WMultiE 3 false))) 6 HKnown))
                                                       (Some (Build_wtc None 6)) None))
                                    (Some (Some (WBls false 3 true))) None false true false) in
  nothing_verifies m = true /\
  handle (mkcfg Bls true false all_guards) env_all true m = Ok Dropped /\
  handle (mkcfg Bls true false no_guards) env_all true m = Panic.
Proof. vm_compute. repeat split; reflexivity. Qed.

Example C10_valid_message_is_passed :
  handle (mkcfg Eddsa true false all_guards) env_all true
         (MNewView (Build_wsync (Some (Build_wqc (Some (Some (WMultiD 3 true))) 4 HKnown)) None None)) = Ok Passed /\
  handle (mkcfg Eddsa true false all_guards) env_all true
         (MNewView (Build_wsync (Some (Build_wqc (Some (Some (WMultiD 2 true))) 4 HKnown)) None None)) = Ok Dropped /\
  handle (mkcfg Eddsa true false all_guards) env_all true
         (MNewView (Build_wsync (Some (Build_wqc (Some (Some (WMultiE 3 true))) 4 HKnown)) None None)) = Ok Dropped.
Proof. vm_compute. repeat split; reflexivity. Qed.

(* the genesis QC is a valid certificate only for view 0 and without anything that restores to a signature *)
Example C10_genesis_qc_only_unsigned :
  let nv q := MNewView (Build_wsync (Some q) None None) in
  let h m := handle (mkcfg Ecdsa false false all_guards) env_all true m in
  h (nv (Build_wqc None 0 HGenesis)) = Ok Passed /\
  h (nv (Build_wqc (Some None) 0 HGenesis)) = Ok Passed /\
  h (nv (Build_wqc (Some (Some (WBls false 0 false))) 0 HGenesis)) = Ok Passed /\   (* bytes that do not restore: nil *)
  h (nv (Build_wqc (Some (Some (WMultiE 0 false))) 0 HGenesis)) = Ok Dropped /\
  h (nv (Build_wqc (Some (Some (WMultiD 1 false))) 0 HGenesis)) = Ok Dropped /\
  h (nv (Build_wqc (Some (Some (WBls true 0 true))) 0 HGenesis)) = Ok Dropped /\
  h (nv (Build_wqc (Some (Some (WBls true 3 false))) 0 HGenesis)) = Ok Dropped /\
  h (nv (Build_wqc None 7 HGenesis)) = Ok Dropped.
Proof. vm_compute. repeat split; reflexivity. Qed.

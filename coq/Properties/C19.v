(* C19 — participant sets behave as mathematical sets of replica ids.
   Only statements closed by [exact] and their assumptions.
   Model: IDSet/BitfieldModel.v (crypto.Bitfield), IDSet/MultiModel.v (Multi signer lists, Sign and
   Combine of ecdsa.go / eddsa.go / bls12.go). Specification vocabulary (IDSet/BitfieldProofs.v):
     mem bs x      bit x-1 of the byte string bs is set (and x >= 1)
     elements bf   the ids the loops of RangeWhile visit, in visiting order
     inv bf        the cached size equals the number of elements
     fold_until    iteration over a plain list that stops when the callback returns false *)
From Coq Require Import List NArith Sorted. Import ListNotations.
From HS Require Import Base.Prelude IDSet.BitfieldModel IDSet.BitfieldProofs IDSet.MultiModel
  IDSet.MultiProofs IDSet.BitfieldSets.
Open Scope N_scope.

(* Add succeeds for every id >= 1; afterwards Contains x holds iff x is the id just added or was
   contained before, and Contains never panics for ids >= 1 *)
Theorem C19_contains_add : forall bf id x, 1 <= id -> 1 <= x ->
  exists bf', add id bf = Ok bf' /\
    (contains x bf' = Ok true <-> x = id \/ contains x bf = Ok true) /\
    (exists b, contains x bf' = Ok b).
Proof. exact contains_add. Qed.
Print Assumptions C19_contains_add.

(* no double counting: Len grows by one exactly when the id is new; the size invariant is kept *)
Theorem C19_len_add : forall bf id bf', 1 <= id -> inv bf -> add id bf = Ok bf' ->
  inv bf' /\
  len bf' = (if in_dec N.eq_dec id (elements bf) then len bf else S (len bf)) /\
  (forall x, In x (elements bf') <-> x = id \/ In x (elements bf)).
Proof. exact len_add. Qed.
Print Assumptions C19_len_add.

(* iteration: RangeWhile / ForEach call back on the elements in strictly ascending order, each
   once, until the callback says stop (so an early exit sees a prefix); the elements are exactly the
   contained ids; Len is their number *)
Theorem C19_range_sorted_exact : forall bf,
  (forall St (f : St -> N -> St * bool) s, range_while f bf s = fst (fold_until f (elements bf) s)) /\
  (forall St (g : St -> N -> St) s, for_each g bf s = fold_left g (elements bf) s) /\
  StronglySorted N.lt (elements bf) /\
  (forall x, In x (elements bf) <-> 1 <= x /\ contains x bf = Ok true) /\
  (inv bf -> len bf = length (elements bf)).
Proof. exact range_sorted_exact. Qed.
Print Assumptions C19_range_sorted_exact.

Theorem C19_range_count_prefix : forall k bf, range_count k bf = firstn (Nat.max 1 k) (elements bf).
Proof. exact range_count_prefix. Qed.
Print Assumptions C19_range_count_prefix.

Theorem C19_enum_is_elements : forall bf, enum bf = elements bf.
Proof. exact enum_elements. Qed.
Print Assumptions C19_enum_is_elements.

(* a field rebuilt from ANY byte list has the size invariant and contains exactly the set bits *)
Theorem C19_from_bytes_any : forall bs,
  inv (from_bytes bs) /\ bytes (from_bytes bs) = bs /\
  (forall x, In x (elements (from_bytes bs)) <-> mem bs x) /\
  len (from_bytes bs) = length (elements (from_bytes bs)).
Proof. exact from_bytes_any. Qed.
Print Assumptions C19_from_bytes_any.

(* round trip: rebuilding from the byte form gives back the same value, data and size *)
Theorem C19_from_bytes_bytes : forall bf, inv bf -> from_bytes (bytes bf) = bf.
Proof. exact from_bytes_bytes. Qed.
Print Assumptions C19_from_bytes_bytes.

Theorem C19_from_bytes_trailing_zeros : forall bs n,
  elements (from_bytes (bs ++ repeat 0 n)) = elements (from_bytes bs) /\
  len (from_bytes (bs ++ repeat 0 n)) = len (from_bytes bs).
Proof. exact from_bytes_trailing_zeros. Qed.
Print Assumptions C19_from_bytes_trailing_zeros.

(* bytes stay below 256 under Add *)
Theorem C19_add_bytes_ok : forall id bf bf', 1 <= id -> bytes_ok (bf_data bf) -> add id bf = Ok bf' ->
  bytes_ok (bf_data bf').
Proof. exact add_bytes_ok. Qed.
Print Assumptions C19_add_bytes_ok.

(* every insertion history over ids >= 1, starting from a field rebuilt from any bytes: membership
   is "inserted or initially set", Len is the number of DISTINCT such ids, iteration is ascending *)
Theorem C19_history_ideal : forall bs ids, Forall (fun i => 1 <= i) ids ->
  exists bf, adds ids (from_bytes bs) = Ok bf /\
    (forall x, 1 <= x -> (contains x bf = Ok true <-> In x ids \/ mem bs x)) /\
    (forall x, 1 <= x -> exists b, contains x bf = Ok b) /\
    len bf = length (nodup N.eq_dec (ids ++ elements (from_bytes bs))) /\
    StronglySorted N.lt (enum bf) /\
    (forall x, In x (enum bf) <-> In x ids \/ mem bs x).
Proof. exact history_ideal. Qed.
Print Assumptions C19_history_ideal.

(* refinement: every sequence of insertions and queries (ids >= 1) on a field rebuilt from any
   byte string produces exactly the observations of an ideal finite set (std++ gset N) *)
Theorem C19_refines_ideal_set : forall ops bs, ops_in_domain ops ->
  run_ops ops (from_bytes bs) = ideal_run ops (bits_of bs).
Proof. exact refines_ideal_set. Qed.
Print Assumptions C19_refines_ideal_set.

(* signer lists: a successful Combine had >= 2 arguments of the right type and returns their
   concatenation, in which no signer occurs twice; Len = number of distinct signers *)
Theorem C19_combine_ok : forall sigs l, m_combine sigs = COk l ->
  exists ms, sigs = map Some ms /\ (2 <= length ms)%nat /\ l = concat ms /\ NoDup l /\
             m_len l = length (nodup N.eq_dec l).
Proof. exact combine_ok. Qed.
Print Assumptions C19_combine_ok.

(* Combine fails iff fewer than two inputs or some signer occurs twice *)
Theorem C19_combine_result : forall ms,
  m_combine (map Some ms) =
    if (length ms <? 2)%nat then CErrMultiple
    else if ListDec.NoDup_dec N.eq_dec (concat ms) then COk (concat ms) else CErrOverlap.
Proof. exact combine_result. Qed.
Print Assumptions C19_combine_result.

Theorem C19_combine_nodup_len : forall l, m_built l ->
  NoDup l /\ m_len l = length (nodup N.eq_dec l) /\
  (forall x, m_contains x l = true <-> In x l) /\ m_enum l = l.
Proof. exact combine_nodup_len. Qed.
Print Assumptions C19_combine_nodup_len.

(* the IDSet methods on ANY signer list (restored from the wire, unsorted, with repetitions):
   Contains is membership in the iterated list, Len its length, early exit a prefix *)
Theorem C19_multi_any_list : forall (l : multi),
  (forall x, m_contains x l = true <-> In x l) /\
  m_len l = length l /\ m_enum l = l /\
  (forall k, m_range_count k l = firstn (Nat.max 1 k) l) /\
  (forall St (f : St -> N -> St * bool) s, m_range_while f l s = fst (fold_until f l s)).
Proof. exact multi_any_list. Qed.
Print Assumptions C19_multi_any_list.

(* NewMultiSorted is an ascending rearrangement of exactly the given signatures *)
Theorem C19_new_sorted : forall l,
  Permutation.Permutation (m_new_sorted l) l /\ StronglySorted N.le (m_new_sorted l) /\
  m_len (m_new_sorted l) = length l /\ (forall x, m_contains x (m_new_sorted l) = true <-> In x l).
Proof. exact new_sorted_spec. Qed.
Print Assumptions C19_new_sorted.

(* BLS: Combine's participant field *)
Theorem C19_bls_combine_ok : forall sigs p, b_combine sigs = COk p ->
  exists ss, sigs = map Some ss /\ (2 <= length ss)%nat /\ inv p /\
    (forall x, In x (elements p) <-> In x (all_elements ss)) /\
    NoDup (all_elements ss) /\ len p = length (all_elements ss).
Proof. exact b_combine_ok. Qed.
Print Assumptions C19_bls_combine_ok.

Theorem C19_bls_combine_result : forall ss,
  match b_combine (map Some ss) with
  | COk _ => (2 <= length ss)%nat /\ NoDup (all_elements ss)
  | CErrMultiple => (length ss < 2)%nat
  | CErrOverlap => (2 <= length ss)%nat /\ ~ NoDup (all_elements ss)
  | CErrType => False
  | CPanic => False
  end.
Proof. exact b_combine_result. Qed.
Print Assumptions C19_bls_combine_result.

Theorem C19_bls_built_len : forall p, b_built p ->
  inv p /\ len p = length (nodup N.eq_dec (enum p)) /\
  (forall x, 1 <= x -> (contains x p = Ok true <-> In x (enum p))).
Proof. exact b_built_inv. Qed.
Print Assumptions C19_bls_built_len.

(* ---- non-vacuity ---- *)
(* a history crossing byte boundaries with repeated insertions *)
Example C19_ex_history :
  match adds [9; 1; 300; 8; 9; 256; 257; 1] empty_bf with
  | Ok bf => (len bf, enum bf, length (bytes bf), contains 8 bf, contains 10 bf)
  | _ => (0%nat, [], 0%nat, Panic, Panic)
  end = (6%nat, [1; 8; 9; 256; 257; 300], 38%nat, Ok true, Ok false).
Proof. vm_compute. reflexivity. Qed.

Example C19_ex_from_bytes :
  let bf := from_bytes [129; 0; 255; 0] in (len bf, enum bf, range_count 3 bf, first_participant bf)
  = (10%nat, [1; 8; 17; 18; 19; 20; 21; 22; 23; 24], [1; 8; 17], 1).
Proof. vm_compute. reflexivity. Qed.

Example C19_ex_combine :
  (m_combine [Some [3; 1]; Some [2]], m_combine [Some [3; 1]; Some [2; 3]], m_combine [Some [1]],
   m_combine [Some [1]; None])
  = (COk [3; 1; 2], CErrOverlap, CErrMultiple, CErrType).
Proof. vm_compute. reflexivity. Qed.

Example C19_ex_new_sorted :
  (m_new_sorted [300; 4294967295; 0; 3; 300; 1], m_contains 4294967295 [3; 1; 4294967295], m_range_count 2 [3; 1; 3])
  = ([0; 1; 3; 300; 300; 4294967295], true, [3; 1]).
Proof. vm_compute. reflexivity. Qed.

Example C19_ex_built : m_built [3; 1; 2].
Proof.
  assert (H31 : m_built [3; 1]).
  { apply (mb_combine [[3]; [1]]); [|reflexivity].
    constructor; [apply (mb_sign 3)|]. constructor; [apply (mb_sign 1) | constructor]. }
  apply (mb_combine [[3; 1]; [2]]); [|reflexivity].
  constructor; [exact H31|]. constructor; [apply (mb_sign 2) | constructor].
Qed.

Example C19_ex_bls :
  match b_sign 9, b_sign 2 with
  | Ok a, Ok b =>
      match b_combine [Some a; Some b], b_combine [Some a; Some b; Some a] with
      | COk p, CErrOverlap => (bytes p, len p, enum p) = ([2; 1], 2%nat, [2; 9])
      | _, _ => False
      end
  | _, _ => False
  end.
Proof. vm_compute. reflexivity. Qed.

(* id 0 is outside the property (ids start at 1); what the model (and Go) do:
   Add(0) panics, Contains(0) is false on every field *)
Example C19_ex_zero :
  (match add 0 empty_bf with Panic => true | _ => false end,
   contains 0 empty_bf, contains 0 (from_bytes [1]), contains 0 (from_bytes [255; 255]))
  = (true, Ok false, Ok false, Ok false).
Proof. vm_compute. reflexivity. Qed.

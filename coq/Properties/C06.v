(* C06 — replicas execute the same commands exactly once, in chain order.
   Only statements closed by [exact], their assumptions, and non-vacuity examples.
   Model: Exec/ExecModel.v (ClientIO, committer emission, one replica = committer + ClientIO on
   one event loop).  [rrun replica_init ops] runs any sequence of operations at a replica (blocks
   stored, TryCommit with any answer of the commit rule, clients registering) and returns the
   replica — whose ghost field [r_log] is its committed block sequence, i.e. the blocks for which
   a CommitEvent was emitted, in order — and the sequence of commands handed to the application. *)
From Coq Require Import List NArith.
From HS Require Import Base.Prelude Exec.ExecModel Exec.ExecProofs.
Import ListNotations.
Open Scope N_scope.

(* The executed command sequence of a replica is the left fold of the duplicate filter over the
   command batches of its committed block sequence, in chain order; the application digest is
   the executed payloads in that order and the count is their number. *)
Theorem C06_exec_is_fold : forall ops r X, rrun replica_init ops = (r, X) ->
  X = snd (fold_exec [] (map b_cmds (r_log r)))
  /\ digest (r_cio r) = payload X
  /\ count (r_cio r) = N.of_nat (length X).
Proof. exact exec_is_fold. Qed.
Print Assumptions C06_exec_is_fold.

(* The same for a bare ClientIO under any interleaving of registrations, Exec and Abort batches:
   only the concatenated Exec stream matters, not how it is cut into batches. *)
Theorem C06_exec_is_fold_clientio : forall evs s' outs, crun cio_init evs = (s', outs) ->
  executed_of outs = snd (fold_exec [] (exec_batches evs))
  /\ digest s' = payload (executed_of outs)
  /\ count s' = N.of_nat (length (executed_of outs)).
Proof. exact exec_is_fold_cio. Qed.
Print Assumptions C06_exec_is_fold_clientio.

(* Two replicas whose committed block sequences are prefix-related (this hypothesis is property
   C01) have prefix-related executed command sequences and digests; after equally many commands
   they executed the same commands and hold the same digest. *)
Theorem C06_exec_prefix : forall ops1 ops2 r1 X1 r2 X2,
  rrun replica_init ops1 = (r1, X1) -> rrun replica_init ops2 = (r2, X2) ->
  prefix (r_log r1) (r_log r2) ->
  prefix X1 X2
  /\ prefix (digest (r_cio r1)) (digest (r_cio r2))
  /\ count (r_cio r1) <= count (r_cio r2)
  /\ (count (r_cio r1) = count (r_cio r2) -> X1 = X2 /\ digest (r_cio r1) = digest (r_cio r2)).
Proof. exact exec_prefix. Qed.
Print Assumptions C06_exec_prefix.

(* No (client, seq) is executed twice, however often it occurs in committed blocks: per client
   the executed sequence numbers strictly increase. *)
Theorem C06_exec_once : forall ops r X, rrun replica_init ops = (r, X) ->
  ForallOrdPairs (fun a b => c_client a = c_client b -> c_seq a < c_seq b) X
  /\ NoDup (map cid X).
Proof. exact exec_once. Qed.
Print Assumptions C06_exec_once.

Theorem C06_exec_once_clientio : forall evs s' outs, crun cio_init evs = (s', outs) ->
  ForallOrdPairs (fun a b => c_client a = c_client b -> c_seq a < c_seq b) (executed_of outs)
  /\ NoDup (map cid (executed_of outs)).
Proof. exact exec_once_cio. Qed.
Print Assumptions C06_exec_once_clientio.

(* Each waiting client (token) gets at most one outcome, and only registered clients get one. *)
Theorem C06_one_outcome : forall evs s' outs,
  NoDup (reg_tokens evs) -> crun cio_init evs = (s', outs) ->
  NoDup (map (fun x : delivery => snd (fst x)) (delivered_of outs))
  /\ incl (map (fun x : delivery => snd (fst x)) (delivered_of outs)) (reg_tokens evs).
Proof. exact one_outcome. Qed.
Print Assumptions C06_one_outcome.

(* A success outcome is delivered only by the Exec step that executed that very command. *)
Theorem C06_success_after_exec : forall evs s s' outs i e x d id w,
  crun s evs = (s', outs) -> nth_error evs i = Some e -> nth_error outs i = Some (x, d) ->
  In (id, w, OSuccess) d ->
  exists b c, e = CExec b /\ In c b /\ In c x /\ cid c = id.
Proof. exact success_after_exec. Qed.
Print Assumptions C06_success_after_exec.

(* Committer (ancestors may be fetched from peers, [remote]; [aborted] is PruneToHeight's answer):
   a successful commit emits CommitEvent+ExecuteEvent per block of the parent-linked path (in the
   store after the fetches) from just above the committed block up to the target, ancestor first,
   then only AbortEvents; the new committed block is the target (or unchanged if its view is not
   higher); the store only grows. *)
Theorem C06_commit_order : forall remote ch c b aborted ch' c' es,
  commit remote ch c b aborted = (ch', Ok (c', es)) ->
  exists l,
    es = flat_map emit_block l ++ map EmAbort aborted
    /\ forallb (fun e => negb (is_abort e)) (flat_map emit_block l) = true
    /\ forallb is_abort (map EmAbort aborted) = true
    /\ emit_execs es = map b_cmds l /\ emit_commits es = map b_hash l
    /\ c' = last l c
    /\ extends (blocks ch) (blocks ch')
    /\ ((l = [] /\ b_view b <= b_view c)
        \/ exists p, b_view p <= b_view c /\ linked (blocks ch') p l /\ last l p = b
                     /\ Forall (fun x => b_view c < b_view x) l).
Proof. exact commit_order. Qed.
Print Assumptions C06_commit_order.

(* A failing TryCommit (missing ancestor) leaves the committed block unchanged (and emits nothing:
   the error result carries no events). *)
Theorem C06_commit_error : forall remote ch c b target aborted ch' c' r,
  try_commit remote ch c b target aborted = (ch', c', r) -> (forall es, r <> Ok es) -> c' = c.
Proof. exact try_commit_error. Qed.
Print Assumptions C06_commit_error.

(* The ghost field r_log used above is exactly the sequence of blocks announced by CommitEvents. *)
Theorem C06_log_is_commit_events : forall r o r' es x d, rstep r o = (r', Ok es, x, d) ->
  map b_hash (r_log r') = map b_hash (r_log r) ++ emit_commits es.
Proof. exact log_is_commit_events. Qed.
Print Assumptions C06_log_is_commit_events.

(* ---------- non-vacuity ---------- *)
Definition xa1 := mkCmd 1 1 [1;1].  Definition xa2 := mkCmd 1 2 [1;2].
Definition xb1 := mkCmd 2 1 [2;1].
Definition B2 := mkBlock 2 0 1 [xa1; xb1].       (* child of genesis, view 1 *)
Definition B3 := mkBlock 3 2 3 [xa1; xa2].       (* repeats xa1 *)
Definition B4 := mkBlock 4 2 2 [xb1].            (* a fork: other child of B2, never certified further *)
Definition B5 := mkBlock 5 3 4 [xb1; xa2].       (* repeats both *)

(* one replica commits B2, B3, B5 in one go, the other in two steps; a client waits on xa2 *)
Example C06_run_once :
  let '(r, X) := rrun replica_init [RStore B2; RStore B4; RStore B3; RRegister (1,2) 7; RTryCommit B5 (Some B5) [] [[xb1]]] in
  (map b_hash (r_log r), X, digest (r_cio r), count (r_cio r), awaiting (r_cio r))
  = ([2; 3; 5], [xa1; xb1; xa2], [1;1;2;1;1;2], 3, []).
Proof. vm_compute. reflexivity. Qed.

Example C06_run_steps :
  let '(r, X) := rrun replica_init [RStore B4; RTryCommit B2 (Some B2) [] []; RTryCommit B3 None [] []; RTryCommit B5 (Some B3) [] [[xb1]]] in
  (map b_hash (r_log r), X, digest (r_cio r), count (r_cio r))
  = ([2; 3], [xa1; xb1; xa2], [1;1;2;1;1;2], 3).
Proof. vm_compute. reflexivity. Qed.

(* the emission of the one-go commit: execute events ancestor first, then the abort of the fork
   (PruneToHeight's answer, here B4's batch) *)
Example C06_emission :
  snd (fst (fst (rstep (fst (rrun replica_init [RStore B2; RStore B3; RStore B4])) (RTryCommit B5 (Some B5) [] [[xb1]]))))
  = Ok [EmCommit 2; EmExec [xa1; xb1]; EmCommit 3; EmExec [xa1; xa2]; EmCommit 5; EmExec [xb1; xa2];
        EmAbort [xb1]].
Proof. vm_compute. reflexivity. Qed.

(* a missing ancestor: error, nothing emitted *)
Example C06_missing_parent :
  snd (fst (fst (rstep replica_init (RTryCommit B5 (Some B5) [] [[xb1]])))) = Reject.
Proof. vm_compute. reflexivity. Qed.

(* catching up: nothing stored locally, the ancestors come from a peer *)
Example C06_fetch :
  let '(r, X) := rrun replica_init [RTryCommit B5 (Some B5) [B4; B3; B2] []] in
  (map b_hash (r_log r), X, map b_hash (blocks (r_chain r))) = ([2; 3; 5], [xa1; xb1; xa2], [0; 5; 3; 2]).
Proof. vm_compute. reflexivity. Qed.

(* lifecycle: stopping the replica / a caller going away gives no waiting client an outcome; the
   command can still execute afterwards and only then is its waiter told success *)
Example C06_lifecycle :
  delivered_of (snd (crun cio_init [CRegister (1,1) 10; CLifecycle; CLifecycle; CExec [xa1]; CLifecycle]))
  = [((1,1), 10, OSuccess)]
  /\ snd (crun cio_init [CRegister (1,1) 10; CLifecycle]) = [([], []); ([], [])].
Proof. vm_compute. split; reflexivity. Qed.

(* outcomes: the waiter of an executed command gets success once; a later waiter on the same
   command gets failure; an aborted one gets failure *)
Example C06_outcomes :
  delivered_of (snd (crun cio_init
     [CRegister (1,1) 10; CRegister (2,1) 11; CExec [xa1]; CRegister (1,1) 12; CExec [xa1; xa2]; CAbort [xb1]]))
  = [((1,1), 10, OSuccess); ((1,1), 12, OFailure); ((2,1), 11, OFailure)].
Proof. vm_compute. reflexivity. Qed.

(* Composition with C01 (no hypothesis left about the protocol): in every reachable state of the
   abstract chained / simple HotStuff system (any schedule, <= f Byzantine members), two honest
   replicas whose execution layer (committer walk + ClientIO, the model above) has committed
   exactly the blocks of their ledgers — identified by hash, a hash naming one block — have
   executed prefix-related command sequences and hold prefix-related digests. *)
From HS Require Protocol.Core Protocol.Chained Protocol.ChainedExec Protocol.ChainedExecProofs Exec.Compose.

Theorem C06_cross_replica_execution_composed :
  forall rs replicas byz genesis,
    Protocol.ChainedExec.config_ok replicas byz genesis = true ->
    forall s, Protocol.Chained.reach rs (Protocol.ChainedExec.member replicas) (Protocol.ChainedExec.honest byz)
                (Protocol.ChainedExec.qsize replicas) genesis s ->
    forall i1 i2, Protocol.ChainedExec.honest byz i1 = true -> Protocol.ChainedExec.honest byz i2 = true ->
    forall ops1 ops2 r1 X1 r2 X2,
      rrun replica_init ops1 = (r1, X1) -> rrun replica_init ops2 = (r2, X2) ->
      map b_hash (r_log r1) = map Protocol.Core.b_hash (Protocol.Chained.log (Protocol.Chained.loc genesis s i1)) ->
      map b_hash (r_log r2) = map Protocol.Core.b_hash (Protocol.Chained.log (Protocol.Chained.loc genesis s i2)) ->
      (forall x y, In x (r_log r1 ++ r_log r2) -> In y (r_log r1 ++ r_log r2) -> b_hash x = b_hash y -> x = y) ->
      (prefix X1 X2 /\ prefix (digest (r_cio r1)) (digest (r_cio r2))) \/
      (prefix X2 X1 /\ prefix (digest (r_cio r2)) (digest (r_cio r1))).
Proof.
  intros rs replicas byz genesis Hc s R i1 i2 H1 H2 ops1 ops2 r1 X1 r2 X2 E1 E2 M1 M2 CA.
  exact (Exec.Compose.exec_prefix_of_ledger_prefix _ _ ops1 ops2 r1 X1 r2 X2 E1 E2 M1 M2 CA
           (proj1 (Protocol.ChainedExecProofs.reach_safe rs replicas byz genesis Hc s R i1 i2 H1 H2))).
Qed.
Print Assumptions C06_cross_replica_execution_composed.

(* C13 — the block store is content-addressed and its ancestry answers are exact.
   Only statements closed by [exact], their assumptions, and non-vacuity examples.

   Vocabulary (Store/StoreModel.v, Store/StoreProofs.v):
   - [run true s ops]      the replica-side model (Blockchain + RequestBlockQF + Committer.commit)
                           driven by an operation sequence; [true] = fetch answers pass through
                           RequestBlockQF; every OGet/OExtends/OCommit carries the peers' replies,
                           which are arbitrary (lying peers included);
   - [ca st]               forall k b, blocks[k] = b -> hash b = k;
   - [obs_ok o x]          a Get / LocalGet for h that returned a block returned one with hash h;
   - [forest G]            a universe of blocks filed by hash in which the view strictly grows
                           along every present parent link (forks, equal views on different
                           branches and missing ancestors are all allowed);
   - [sub st G]            the store holds some of G's blocks; [inG G b] : b is G's block for its hash;
   - [replies_in G tbl]    the peers' replies *whose hash is the requested one* are G's blocks
                           (collision resistance of SHA-256, idealised; other replies are arbitrary);
   - [reach st b t]        t is b or lies on b's parent chain as far as parents are present in st;
   - [reports x]           the blocks an observation reports as abandoned. *)
From HS Require Import Base.Prelude Store.StoreModel Store.StoreProofs.
Open Scope N_scope.

(* 1. content addressing, over every history and for every behaviour of the peers *)
Theorem C13_content_addressed : forall genesis ops s xs,
  run true (new_sys genesis) ops = (s, xs) ->
  (forall k b, alookup k (blocks (s_store s)) = Some b -> b_hash b = k) /\ Forall2 obs_ok ops xs.
Proof. exact content_addressed. Qed.
Print Assumptions C13_content_addressed.

Theorem C13_get_returns_requested : forall st h conc replies st' b,
  ca st -> get st h conc (request_block_qf h replies) = (st', Some b) -> b_hash b = h /\ ca st'.
Proof. exact get_returns_requested. Qed.
Print Assumptions C13_get_returns_requested.

(* 2. storing the same block again changes nothing *)
Theorem C13_store_idempotent : forall st b, store_block b (store_block b st) = store_block b st.
Proof. exact store_idempotent. Qed.
Print Assumptions C13_store_idempotent.

Theorem C13_store_present_noop : forall st b x,
  alookup (b_hash b) (blocks st) = Some x -> store_block b st = st.
Proof. exact store_present_noop. Qed.
Print Assumptions C13_store_present_noop.

(* 3. Extends answers true exactly for the block itself and the blocks on its parent chain
      (relative to what is available after the fetches Extends itself makes); it always answers *)
Theorem C13_extends_exact : forall G st tbl b t,
  forest G -> sub st G -> replies_in G tbl -> inG G b -> inG G t ->
  exists st' r, extends true st tbl b t = (st', Some r) /\ sub st' G /\ stable st st' /\
                (r = true <-> reach st' b t).
Proof. exact extends_exact. Qed.
Print Assumptions C13_extends_exact.

Theorem C13_extends_exact_local : forall G st b t,
  forest G -> sub st G -> inG G b -> inG G t ->
  exists r, extends true st [] b t = (st, Some r) /\ (r = true <-> reach st b t).
Proof. exact extends_exact_local. Qed.
Print Assumptions C13_extends_exact_local.

(* 4. no block reported as abandoned lies on the committed block's parent chain:
      for a store satisfying the invariants, and for every state a replica can reach *)
Theorem C13_prune_sound : forall G st c height st' forked,
  forest G -> sub st G -> ah_keyed st -> ah_in_blocks st -> inG G c ->
  prune_to_height st c height = (st', forked) ->
  forall r, In r forked -> ~ reach st c r.
Proof. exact prune_sound. Qed.
Print Assumptions C13_prune_sound.

Theorem C13_prune_sound_run : forall G g ops s xs c height st' forked,
  forest G -> inG G g -> Forall (op_in G) ops -> run true (new_sys g) ops = (s, xs) ->
  inG G c -> prune_to_height (s_store s) c height = (st', forked) ->
  forall r, In r forked -> ~ reach (s_store s) c r.
Proof. exact prune_sound_run. Qed.
Print Assumptions C13_prune_sound_run.

Theorem C13_commit_abort_sound : forall G g ops s xs b tbl s' executed aborted,
  forest G -> inG G g -> Forall (op_in G) ops -> run true (new_sys g) ops = (s, xs) ->
  inG G b -> replies_in G tbl ->
  commit true s tbl b = (s', CDone executed aborted) ->
  forall r, In r aborted -> ~ reach (s_store s') (s_committed s') r /\ ~ In r executed.
Proof. exact commit_abort_sound. Qed.
Print Assumptions C13_commit_abort_sound.

(* 5. each abandoned block is reported at most once, over any history whose commit heights
      increase ([asc_le 0 hs]: hs strictly increasing), with or without the network filter *)
Theorem C13_prune_once : forall flt g ops s xs,
  asc_le 0 (flat_map height_of ops) -> run flt (new_sys g) ops = (s, xs) ->
  NoDup (map b_view (flat_map reports xs)) /\ NoDup (flat_map reports xs).
Proof. exact prune_once. Qed.
Print Assumptions C13_prune_once.

Theorem C13_prune_once_hash : forall G g ops s xs,
  forest G -> inG G g -> Forall (op_in G) ops ->
  asc_le 0 (flat_map height_of ops) -> run true (new_sys g) ops = (s, xs) ->
  NoDup (map b_hash (flat_map reports xs)).
Proof. exact prune_once_hash. Qed.
Print Assumptions C13_prune_once_hash.

(* 6. across commits (the committer is the only caller of PruneToHeight): a block reported as
      abandoned is never executed by a later commit, with or without the network filter, also when
      commits fail in between; and a failing commit commits nothing, prunes nothing, loses nothing *)
Theorem C13_no_execute_after_abort : forall flt g ops s xs,
  Forall no_prune ops -> run flt (new_sys g) ops = (s, xs) -> abort_then_exec xs.
Proof. exact no_execute_after_abort. Qed.
Print Assumptions C13_no_execute_after_abort.

Theorem C13_commit_error_keeps : forall flt s tbl b s',
  ah_keyed (s_store s) -> commit flt s tbl b = (s', CErr) ->
  s_committed s' = s_committed s /\ prune_height (s_store s') = prune_height (s_store s) /\
  stable (s_store s) (s_store s').
Proof. exact commit_error_keeps. Qed.
Print Assumptions C13_commit_error_keeps.

(* ---- non-vacuity: a forest with a fork and an equivocation (two blocks in view 2), the
   equivocating block stored after the committed chain; a gap (block 7's parent 6 is nowhere) *)
Definition ex_g := B 1 0 0.
Definition ex_a := B 2 1 1.
Definition ex_b := B 3 2 2.
Definition ex_c := B 4 3 3.
Definition ex_e := B 5 1 2.
Definition ex_o := B 7 6 1.
Definition ex_G := [(1, ex_g); (2, ex_a); (3, ex_b); (4, ex_c); (5, ex_e); (7, ex_o)].
Definition ex_ops :=
  [OStore ex_a; OStore ex_o; OStore ex_c;
   OExtends ex_c ex_a [(3, [ex_e; ex_b])];   (* b is fetched; the lying reply e is filtered out *)
   OStore ex_e;                                (* the equivocating block arrives after b *)
   OExtends ex_c ex_e []; OExtends ex_e ex_b []; OExtends ex_o ex_g [];
   OGet 9 [] [ex_e];                           (* a peer answers with a block of another hash *)
   OStore ex_e;                                (* again: nothing changes *)
   OPrune ex_a 1;
   OCommit ex_c []].

Example C13_ex_forest : forest ex_G.
Proof. apply forestb_sound. vm_compute. reflexivity. Qed.

Example C13_ex_ops_in : inG ex_G ex_g /\ Forall (op_in ex_G) ex_ops /\ asc_le 0 (flat_map height_of ex_ops).
Proof.
  split; [reflexivity|]. split.
  - repeat constructor; cbn; try reflexivity;
      intros k l r H; cbn in H; intuition; try discriminate;
      repeat match goal with H : (_, _) = (_, _) |- _ => injection H as <- <- end;
      cbn in *; intuition; subst; try reflexivity; try discriminate.
  - cbn. lia.
Qed.

Example C13_ex_run :
  snd (run true (new_sys ex_g) ex_ops) =
  [RUnit; RUnit; RUnit;
   RBool (Some true); RUnit; RBool (Some false); RBool (Some false); RBool (Some false);
   RBlock None; RUnit;
   RBlocks [ex_o];
   RCommit (CDone [ex_a; ex_b; ex_c] [ex_e])].
Proof. vm_compute. reflexivity. Qed.

(* a commit that fails because an ancestor is missing and nobody has it, then succeeds once a peer
   answers; o (view 1, stored after a) is abandoned by the second commit and never executed *)
Definition ex_ops2 :=
  [OStore ex_a; OStore ex_o; OStore ex_c;
   OCommit ex_c [];                 (* b missing: error, nothing happens *)
   OCommit ex_c [(3, [ex_b])]].     (* b fetched: a, b, c executed; o abandoned *)
Example C13_ex_run2 :
  snd (run true (new_sys ex_g) ex_ops2) =
  [RUnit; RUnit; RUnit; RCommit CErr; RCommit (CDone [ex_a; ex_b; ex_c] [ex_o])] /\
  Forall no_prune ex_ops2.
Proof. split; [vm_compute; reflexivity|repeat constructor]. Qed.

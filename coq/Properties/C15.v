(* C15 — command batching is FIFO, full-sized and duplicate-free.
   Only statements closed by [exact] and their assumptions.  Model: Batch/BatchModel.v
   (CommandCache.Add / Proposed / tryExtractBatch / Get of internal/proto/clientpb/cmdcache.go).
   [run bs ops] executes any sequence of Add / Proposed / Get on NewCommandCache(bs) and records the
   accepted commands [t_acc] (those that passed Add's filter, in order) and the batches handed
   out [t_out].  Commands are instances (client, sequence number, payload tag). *)
From Coq Require Import List NArith. Import ListNotations.
From HS Require Import Base.Prelude Batch.BatchModel Batch.BatchProofs Batch.BatchConc.
Open Scope N_scope.

(* ---- sequential: all operation sequences, all batch sizes ---- *)

(* every returned batch has exactly batch_size commands *)
Theorem C15_batches_full : forall bs ops, Forall (fun b => len b = bs) (t_out (run bs ops)).
Proof. exact batches_full. Qed.
Print Assumptions C15_batches_full.

(* the handed-out commands, in hand-out order, are an order-preserving sub-sequence of the
   accepted ones: arrival order is kept and every accepted instance is handed out at most once *)
Theorem C15_fifo_once : forall bs ops, Subseq (concat (t_out (run bs ops))) (t_acc (run bs ops)).
Proof. exact fifo_once. Qed.
Print Assumptions C15_fifo_once.

(* a Get in any reachable state returns only commands above the mark of their client *)
Theorem C15_fresh_only : forall bs ops st' b,
  get (t_state (run bs ops)) = (st', GBatch b) ->
  Forall (fun c => seq_of (seqs (t_state (run bs ops))) (cmd_client c) < cmd_seq c) b.
Proof. exact fresh_only. Qed.
Print Assumptions C15_fresh_only.

(* ... and a command at or below the mark at some point is never handed out afterwards *)
Theorem C15_marked_never_handed_out : forall bs ops1 ops2 c st' b,
  is_dup (seqs (t_state (run bs ops1))) c = true ->
  get (t_state (run bs (ops1 ++ ops2))) = (st', GBatch b) ->
  ~ In c b.
Proof. exact marked_never_handed_out. Qed.
Print Assumptions C15_marked_never_handed_out.

(* marking does mark: after Proposed b every command of b is at or below its client's mark *)
Theorem C15_proposed_marks : forall st b c, In c b -> is_dup (seqs (proposed st b)) c = true.
Proof. exact proposed_marks. Qed.
Print Assumptions C15_proposed_marks.

(* nothing is lost: the accepted sequence is a consumed prefix followed by the cache, and the
   consumed prefix is a merge of exactly the handed-out commands and of dropped commands, all of
   which are at or below their client's mark *)
Theorem C15_no_loss : forall bs ops,
  let t := run bs ops in
  exists consumed dropped,
    t_acc t = consumed ++ cache (t_state t) /\
    Interleave (concat (t_out t)) dropped consumed /\
    Forall (fun c => is_dup (seqs (t_state t)) c = true) dropped.
Proof. exact no_loss. Qed.
Print Assumptions C15_no_loss.

(* counting form: a still-fresh command is cached exactly as often as it was accepted and not
   handed out *)
Theorem C15_no_loss_count : forall bs ops c,
  let t := run bs ops in
  is_dup (seqs (t_state t)) c = false ->
  count_occ cmd_eq_dec (t_acc t) c =
  (count_occ cmd_eq_dec (concat (t_out t)) c + count_occ cmd_eq_dec (cache (t_state t)) c)%nat.
Proof. exact no_loss_count. Qed.
Print Assumptions C15_no_loss_count.

(* a returned batch is the oldest batch_size fresh cached commands in arrival order; what leaves
   the cache with it is an examined prefix whose fresh part is exactly the batch *)
Theorem C15_oldest_first : forall bs ops st' b,
  let st := t_state (run bs ops) in
  get st = (st', GBatch b) ->
  b = firstn (N.to_nat bs) (filter (fresh (seqs st)) (cache st)) /\
  seqs st' = seqs st /\
  exists examined, cache st = examined ++ cache st' /\ filter (fresh (seqs st)) examined = b.
Proof. exact oldest_first. Qed.
Print Assumptions C15_oldest_first.

(* Get returns a batch exactly when batch_size fresh commands are cached; otherwise it blocks
   (ends only by cancellation) and leaves cache and marks alone.  Sequential no-lost-wake-up. *)
Theorem C15_get_returns_iff_enough : forall bs ops, 1 <= bs ->
  let st := t_state (run bs ops) in
  (bs <= len (filter (fresh (seqs st)) (cache st)) -> exists b st', get st = (st', GBatch b)) /\
  (len (filter (fresh (seqs st)) (cache st)) < bs ->
     exists st', get st = (st', GBlocked) /\ cache st' = cache st /\ seqs st' = seqs st).
Proof. exact get_returns_iff_enough. Qed.
Print Assumptions C15_get_returns_iff_enough.

(* the Get loop needs at most two iterations *)
Theorem C15_get_terminates : forall st, snd (get st) <> GContinue.
Proof. exact get_never_continue. Qed.
Print Assumptions C15_get_terminates.

(* ---- concurrent (partial): small-step semantics of Batch/BatchConc.v ----
   Atomic steps: mutex sections up to their channel operation, the send+unlock, the receive in
   Get's select, ctx.Done().  Not covered (gap, exercised only by the -race soak): scheduler
   fairness, i.e. that an enabled step is eventually taken, and cancellation timing.
   Full statement that is NOT proved:
     "under a fair scheduler every Get that waits while batch_size fresh commands stay cached
      eventually returns a batch". *)

Theorem C15_conc_safety_partial : forall bs s, creach bs s ->
  Forall (fun b => len b = bs) (g_out s) /\
  Subseq (concat (g_out s)) (g_acc s) /\
  exists consumed dropped,
    g_acc s = consumed ++ cache (sh s) /\
    Interleave (concat (g_out s)) dropped consumed /\
    Forall (fun c => is_dup (seqs (sh s)) c = true) dropped.
Proof. exact conc_safety. Qed.
Print Assumptions C15_conc_safety_partial.

Theorem C15_conc_extract_oldest_fresh_partial : forall bs s i b s',
  creach bs s -> cstep s i (LExtract b) s' ->
  len b = bs /\
  b = firstn (N.to_nat bs) (filter (fresh (seqs (sh s))) (cache (sh s))) /\
  Forall (fun c => seq_of (seqs (sh s)) (cmd_client c) < cmd_seq c) b /\
  seqs (sh s') = seqs (sh s) /\
  exists examined, cache (sh s) = examined ++ cache (sh s') /\ filter (fresh (seqs (sh s))) examined = b.
Proof. exact conc_extract_oldest_fresh. Qed.
Print Assumptions C15_conc_extract_oldest_fresh_partial.

(* token_when_ready: no thread inside a section + a full fresh batch => the token is present *)
Theorem C15_conc_token_when_ready_partial : forall bs s, creach bs s -> 1 <= bs ->
  bs <= len (filter (fresh (seqs (sh s))) (cache (sh s))) ->
  lock s = None -> (forall j, pcs s j <> PGetRecv) ->
  ready (sh s) = true.
Proof. exact token_when_ready. Qed.
Print Assumptions C15_conc_token_when_ready_partial.

(* hence a waiting Get can take the token and leaves its section with the oldest fresh batch *)
Theorem C15_conc_no_lost_wakeup_partial : forall bs s i, creach bs s -> 1 <= bs ->
  bs <= len (filter (fresh (seqs (sh s))) (cache (sh s))) ->
  lock s = None -> (forall j, pcs s j <> PGetRecv) ->
  pcs s i = PGetWait ->
  exists s1 s2 b, cstep s i LRecv s1 /\ cstep s1 i (LExtract b) s2 /\
                  b = firstn (N.to_nat bs) (filter (fresh (seqs (sh s))) (cache (sh s))) /\
                  (pcs s2 i = PGetDone b \/ pcs s2 i = PGetSig b).
Proof. exact no_lost_wakeup. Qed.
Print Assumptions C15_conc_no_lost_wakeup_partial.

(* in every reachable state with a waiting Get and a full fresh batch, some internal step
   (not a call, a return or a cancellation) is enabled *)
Theorem C15_conc_waiting_get_not_stuck_partial : forall bs s i, creach bs s -> 1 <= bs ->
  bs <= len (filter (fresh (seqs (sh s))) (cache (sh s))) ->
  pcs s i = PGetWait ->
  exists j l s', cstep s j l s' /\ internal l = true.
Proof. exact waiting_get_not_stuck. Qed.
Print Assumptions C15_conc_waiting_get_not_stuck_partial.

(* a Get leaves its select only with the token or because its context is done *)
Theorem C15_conc_get_ends_only_by_token_or_cancel_partial : forall s i l s',
  pcs s i = PGetWait -> cstep s i l s' ->
  (l = LRecv /\ ready (sh s) = true /\ pcs s' i = PGetRecv) \/ (l = LCancel /\ pcs s' i = PGetCancelled).
Proof. exact get_leaves_select_only_by_token_or_cancel. Qed.
Print Assumptions C15_conc_get_ends_only_by_token_or_cancel_partial.

(* ---- non-vacuity ---- *)

(* batch size 2: a stale command in front is skipped and dropped, the two oldest fresh ones are
   handed out in order, the re-signal makes the next Get succeed too, the third Get blocks *)
Example C15_run_example :
  let ops := [OAdd (1,1,10); OAdd (2,1,11); OAdd (1,2,12); OAdd (2,2,13); OAdd (1,3,14);
              OProposed [(1,1,0)]; OGet; OGet; OGet] in
  t_out (run 2 ops) = [[(2,1,11); (1,2,12)]; [(2,2,13); (1,3,14)]] /\
  t_acc (run 2 ops) = [(1,1,10); (2,1,11); (1,2,12); (2,2,13); (1,3,14)] /\
  cache (t_state (run 2 ops)) = [] /\ ready (t_state (run 2 ops)) = false.
Proof. vm_compute. repeat split. Qed.

(* the premises of fresh_only / oldest_first are satisfiable: a reachable state whose Get returns *)
Example C15_get_example :
  exists st' b, get (t_state (run 2 [OAdd (1,1,0); OAdd (1,2,0); OAdd (1,3,0)])) = (st', GBatch b)
                /\ b = [(1,1,0); (1,2,0)] /\ cache st' = [(1,3,0)].
Proof. eexists. eexists. vm_compute. repeat split. Qed.

(* a Get that has the token but finds too few fresh commands blocks and keeps the cache *)
Example C15_false_alarm_example :
  let st := t_state (run 2 [OAdd (1,1,0); OAdd (1,2,0); OProposed [(1,1,0)]]) in
  ready st = true /\ exists st', get st = (st', GBlocked) /\ cache st' = [(1,1,0); (1,2,0)].
Proof. vm_compute. split; [reflexivity|]. eexists. repeat split. Qed.

(* the concurrent semantics has non-trivial reachable states: two adders and a getter; the
   second Add holds the mutex before its send while the Get still waits *)
Example C15_conc_example :
  exists s, creach 2 s /\ lock s = Some 1%nat /\ pcs s 2%nat = PGetWait /\
            ready (sh s) = false /\ cache (sh s) = [(1,1,0); (2,1,0)].
Proof.
  eexists. split.
  - eapply cr_step; [eapply cr_step; [eapply cr_step; [eapply cr_step; [eapply cr_step; [apply cr_init|]|]|]|]|].
    + apply (s_call_add _ 0%nat (1,1,0)). reflexivity.
    + apply (s_call_add _ 1%nat (2,1,0)). reflexivity.
    + apply (s_call_get _ 2%nat). reflexivity.
    + eapply (s_add_nosignal _ 0%nat); reflexivity.
    + eapply (s_add_append _ 1%nat); reflexivity.
  - vm_compute. repeat split.
Qed.

(* ---- hardening: waiting Gets and the containsDuplicate helper ---- *)

(* the harness observes k Gets that wait while an Add/Proposed happens; in the model that is
   [gets k], which is nothing but k further Get operations of the run (so all statements above
   apply to the batches it returns) *)
Theorem C15_gets_of_run : forall bs ops k,
  let t' := run bs (ops ++ repeat OGet k) in
  fst (gets k (t_state (run bs ops))) = t_state t' /\
  t_out t' = t_out (run bs ops) ++ snd (gets k (t_state (run bs ops))) /\
  t_acc t' = t_acc (run bs ops).
Proof. exact gets_of_run. Qed.
Print Assumptions C15_gets_of_run.

Theorem C15_contains_dup_spec : forall st b,
  contains_dup st b = true <-> exists c, In c b /\ cmd_seq c <= seq_of (seqs st) (cmd_client c).
Proof. exact contains_dup_spec. Qed.
Print Assumptions C15_contains_dup_spec.

Example C15_gets_example :
  gets 3 (t_state (run 1 [OAdd (1,1,0); OAdd (65537,1,0); OProposed [(1,1,0)]; OAdd (1,2,0)]))
  = (mkState 1 [(1,1)] [] false, [[(65537,1,0)]; [(1,2,0)]]).
Proof. vm_compute. reflexivity. Qed.

(* hand-off: one buffered token serves several waiting Gets.  Two Gets at their select (parked or
   about to park) and two full fresh batches cached: there is an execution in which the first takes
   the token and the oldest batch, re-signals, and the second takes the next batch. *)
Theorem C15_conc_handoff_two_waiters_partial : forall bs s i j, creach bs s -> 1 <= bs ->
  2 * bs <= len (filter (fresh (seqs (sh s))) (cache (sh s))) ->
  lock s = None -> (forall t, pcs s t <> PGetRecv) ->
  i <> j -> pcs s i = PGetWait -> pcs s j = PGetWait ->
  let F := filter (fresh (seqs (sh s))) (cache (sh s)) in
  exists s' b1 b2,
    csteps s s' /\
    pcs s' i = PGetDone b1 /\ (pcs s' j = PGetDone b2 \/ pcs s' j = PGetSig b2) /\
    b1 = firstn (N.to_nat bs) F /\ b2 = firstn (N.to_nat bs) (skipn (N.to_nat bs) F).
Proof. exact handoff_two_waiters. Qed.
Print Assumptions C15_conc_handoff_two_waiters_partial.

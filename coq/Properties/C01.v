(* C01 — committed ledgers of honest replicas never diverge (chained and simple HotStuff). *)
From Coq Require Import List NArith ZArith.
From HS Require Import Quorum.QuorumModel Protocol.Core Protocol.Chained Protocol.ChainedExec Protocol.ChainedExecProofs.
Import ListNotations.
Open Scope N_scope.

(* Every history accepted by the trace validator — i.e. every sequence of abstract-model
   transitions, for either ruleset, any duplicate-free membership, any set of at most f
   Byzantine members — ends in a state in which any two honest ledgers are prefix related and
   each honest ledger is a hash-linked chain from genesis with strictly increasing views and
   no repeated block. *)
Theorem C01_validated_histories_safe :
  forall rs replicas byz genesis es s,
    config_ok replicas byz genesis = true ->
    run rs replicas byz genesis (Chained.init genesis) es 0 = (s, None) ->
    forall r1 r2, honest byz r1 = true -> honest byz r2 = true ->
      (prefix (log (loc genesis s r1)) (log (loc genesis s r2)) \/
       prefix (log (loc genesis s r2)) (log (loc genesis s r1))) /\
      linked genesis (log (loc genesis s r1)) /\ NoDup (log (loc genesis s r1)).
Proof. intros rs replicas byz genesis es s Hc. exact (run_safe rs replicas byz genesis Hc es s). Qed.
Print Assumptions C01_validated_histories_safe.

(* C01 — committed ledgers of honest replicas never diverge (chained, simple and fast HotStuff).
   Only statements closed by [exact] and their assumptions; definitions are in Protocol/. *)
From Coq Require Import List NArith ZArith.
From HS Require Import Quorum.QuorumModel Protocol.Core Protocol.Chained Protocol.ChainedExec Protocol.ChainedExecProofs.
From HS Require Import Protocol.Fast Protocol.FastExec Protocol.FastExecProofs.
From HS Require Protocol.Refine Protocol.RefineFast Protocol.RefineCommit Protocol.Stack Protocol.StackFast Protocol.Bridge Cert.CertModel Crypto.Symbolic Base.Prelude.
Import ListNotations.
Open Scope N_scope.

(* [config_ok replicas byz genesis]: duplicate-free membership of n >= 1 replicas, at most
   f = (n-1)/3 Byzantine members (twins or arbitrary), genesis of view 0 whose parent/QC links
   do not point at itself.  [honest byz r] = r is not Byzantine.

   Chained and simple HotStuff. [Chained.reach] = every state reachable by any interleaving of:
   a block coming to exist (any content), a Byzantine member signing any vote, an honest replica
   signing a timeout, an honest replica voting under the guards the code enforces (fresh view,
   certified QC, parent = certified block, higher view, lock target available, vote rule), an
   honest replica committing along the commit walk when the commit rule fires.  Deliveries,
   delays, duplication, loss and partitions are all covered because no transition depends on a
   network.  In every such state the ledgers of any two honest replicas are prefix related and
   each is a hash-linked chain hanging below genesis with strictly increasing views ([linked])
   and without repeats. *)
Theorem C01_chained_simple_ledgers_never_diverge :
  forall rs replicas byz genesis,
    config_ok replicas byz genesis = true ->
    forall s, Chained.reach rs (member replicas) (honest byz) (qsize replicas) genesis s ->
    forall r1 r2, honest byz r1 = true -> honest byz r2 = true ->
      (prefix (log (Chained.loc genesis s r1)) (log (Chained.loc genesis s r2)) \/
       prefix (log (Chained.loc genesis s r2)) (log (Chained.loc genesis s r1))) /\
      linked genesis (log (Chained.loc genesis s r1)) /\ NoDup (log (Chained.loc genesis s r1)).
Proof. intros rs replicas byz genesis Hc. exact (reach_safe rs replicas byz genesis Hc). Qed.
Print Assumptions C01_chained_simple_ledgers_never_diverge.

(* Fast-HotStuff: additionally Byzantine and honest signed timeout messages (an honest one
   reports a certified block at least as high as the QC block of everything it voted for), and
   the aggregate-QC vote rule with an aggregate certificate of a view >= proposal view - 1. *)
Theorem C01_fast_ledgers_never_diverge :
  forall replicas byz genesis,
    config_ok replicas byz genesis = true ->
    forall s, Fast.reach (member replicas) (honest byz) (qsize replicas) genesis s ->
    forall r1 r2, honest byz r1 = true -> honest byz r2 = true ->
      (prefix (f_log (Fast.loc genesis s r1)) (f_log (Fast.loc genesis s r2)) \/
       prefix (f_log (Fast.loc genesis s r2)) (f_log (Fast.loc genesis s r1))) /\
      linked genesis (f_log (Fast.loc genesis s r1)) /\ NoDup (f_log (Fast.loc genesis s r1)).
Proof. intros replicas byz genesis Hc. exact (freach_safe replicas byz genesis Hc). Qed.
Print Assumptions C01_fast_ledgers_never_diverge.

(* The tie to the code: a history observed on the implementation and accepted by the executable
   validator [run] / [frun] (this is what the correspondence check evaluates in the kernel on
   every run) is a path of the abstract system, hence safe. *)
Theorem C01_validated_histories_safe :
  forall rs replicas byz genesis es s,
    config_ok replicas byz genesis = true ->
    run rs replicas byz genesis (Chained.init genesis) es 0 = (s, None) ->
    forall r1 r2, honest byz r1 = true -> honest byz r2 = true ->
      (prefix (log (Chained.loc genesis s r1)) (log (Chained.loc genesis s r2)) \/
       prefix (log (Chained.loc genesis s r2)) (log (Chained.loc genesis s r1))) /\
      linked genesis (log (Chained.loc genesis s r1)) /\ NoDup (log (Chained.loc genesis s r1)).
Proof. intros rs replicas byz genesis es s Hc. exact (run_safe rs replicas byz genesis Hc es s). Qed.
Print Assumptions C01_validated_histories_safe.

Theorem C01_validated_fast_histories_safe :
  forall replicas byz genesis es s,
    config_ok replicas byz genesis = true ->
    frun replicas byz genesis (Fast.init genesis) es 0 = (s, None) ->
    forall r1 r2, honest byz r1 = true -> honest byz r2 = true ->
      (prefix (f_log (Fast.loc genesis s r1)) (f_log (Fast.loc genesis s r2)) \/
       prefix (f_log (Fast.loc genesis s r2)) (f_log (Fast.loc genesis s r1))) /\
      linked genesis (f_log (Fast.loc genesis s r1)) /\ NoDup (f_log (Fast.loc genesis s r1)).
Proof. intros replicas byz genesis es s Hc. exact (frun_safe replicas byz genesis Hc es s). Qed.
Print Assumptions C01_validated_fast_histories_safe.

(* Direct commits are ordered by ancestry (the core lemma, exported for C06). *)
Theorem C01_direct_commits_ordered :
  forall rs replicas byz genesis,
    config_ok replicas byz genesis = true ->
    forall s b3 b2 b1 c3 c2 c1,
      Chained.reach rs (member replicas) (honest byz) (qsize replicas) genesis s ->
      Chained.three_chain (member replicas) (qsize replicas) genesis s b3 b2 b1 ->
      Chained.three_chain (member replicas) (qsize replicas) genesis s c3 c2 c1 ->
      anc (Chained.U s) c3 b3 \/ anc (Chained.U s) b3 c3.
Proof.
  intros rs replicas byz genesis Hc s b3 b2 b1 c3 c2 c1.
  destruct (cfg_parts replicas byz genesis Hc) as (_ & _ & _ & Gv & Gp & Gq).
  exact (direct_commits_ordered rs (member replicas) (honest byz) (qsize replicas)
           (quorum_inter_inst replicas byz genesis Hc) (quorum_has_honest_inst replicas byz genesis Hc)
           genesis Gv Gp Gq s b3 b2 b1 c3 c2 c1).
Qed.
Print Assumptions C01_direct_commits_ordered.

(* ---- local decisions refine the abstract step (Protocol/Refine.v, Protocol/Bridge.v) ----
   The abstract vote step is guarded by global notions; the code decides on the replica's own
   store with the functions the C04 correspondence check runs against consensus/rules/*.  When
   the code-level chained VoteRule ([Rules.RulesModel.chained_vote]) accepts a proposal on a
   store that is a partial view of the global universe, after the checks of the proposal
   handler (QC verified) and Voter.Verify (view, parent, QC block), the abstract vote step is
   enabled and the lock computed by the code-level CommitRule is the lock of the abstract
   successor state.  [absb] projects a code-level block to (hash, parent, view, QC hash). *)
Theorem C01_code_level_vote_refines_abstract_step :
  forall replicas byz,
    config_ok replicas byz (Refine.absb Refine.R.genesis) = true ->
    forall s r f lk v p qb,
      let genesis := Refine.absb Refine.R.genesis in
      let blk := Refine.R.p_block p in
      Chained.reach RChained (member replicas) (honest byz) (qsize replicas) genesis s ->
      honest byz r = true ->
      Refine.view_of f (Chained.U s) ->
      Chained.U s (Refine.R.b_hash blk) = Some (Refine.absb blk) ->
      lock (Chained.loc genesis s r) = Refine.absb lk ->
      Refine.R.get f (Refine.R.qc_hash (Refine.R.b_qc blk)) = Some qb ->
      Chained.certified (member replicas) (qsize replicas) genesis s (Refine.R.qc_hash (Refine.R.b_qc blk)) ->
      Refine.R.b_parent blk = Refine.R.qc_hash (Refine.R.b_qc blk) ->
      Refine.R.b_view qb < Refine.R.b_view blk ->
      lastVoted (Chained.loc genesis s r) < Refine.R.b_view blk ->
      Refine.R.chained_vote f lk v p = true ->
      Chained.step RChained (member replicas) (honest byz) (qsize replicas) genesis s
                   (Chained.cast_vote genesis s r (Refine.absb blk)) /\
      lock (Chained.loc genesis (Chained.cast_vote genesis s r (Refine.absb blk)) r)
        = Refine.absb (fst (Refine.R.chained_commit f lk blk)).
Proof.
  intros replicas byz Hc s r f lk v p qb.
  exact (Refine.chained_replica_vote_refines (member replicas) (honest byz) (qsize replicas)
           (quorum_inter_inst replicas byz _ Hc) (quorum_has_honest_inst replicas byz _ Hc)
           s r f lk v p qb).
Qed.
Print Assumptions C01_code_level_vote_refines_abstract_step.

(* a commit decision of the code-level chained CommitRule satisfies the abstract commit rule *)
Theorem C01_code_level_commit_refines_abstract_rule :
  forall replicas byz,
    config_ok replicas byz (Refine.absb Refine.R.genesis) = true ->
    forall s f lk blk b3,
      let genesis := Refine.absb Refine.R.genesis in
      Chained.reach RChained (member replicas) (honest byz) (qsize replicas) genesis s ->
      Refine.view_of f (Chained.U s) ->
      Chained.certified (member replicas) (qsize replicas) genesis s (Refine.R.qc_hash (Refine.R.b_qc blk)) ->
      snd (Refine.R.chained_commit f lk blk) = Some b3 ->
      (forall x, In x f -> Refine.small x) ->
      exists b1 b2,
        Refine.R.get f (Refine.R.qc_hash (Refine.R.b_qc blk)) = Some b1 /\
        Chained.commit_rule RChained (member replicas) (qsize replicas) genesis s
                            (Refine.absb b3) (Refine.absb b2) (Refine.absb b1).
Proof.
  intros replicas byz Hc s f lk blk b3.
  exact (Refine.chained_replica_commit_refines (member replicas) (honest byz) (qsize replicas)
           s f lk blk b3).
Qed.
Print Assumptions C01_code_level_commit_refines_abstract_rule.

(* the same for simple HotStuff ... *)
Theorem C01_code_level_simple_vote_refines_abstract_step :
  forall replicas byz,
    config_ok replicas byz (Refine.absb Refine.R.genesis) = true ->
    forall s r f lk v p qb,
      let genesis := Refine.absb Refine.R.genesis in
      let blk := Refine.R.p_block p in
      Chained.reach RSimple (member replicas) (honest byz) (qsize replicas) genesis s ->
      honest byz r = true ->
      Refine.view_of f (Chained.U s) ->
      Chained.U s (Refine.R.b_hash blk) = Some (Refine.absb blk) ->
      lock (Chained.loc genesis s r) = Refine.absb lk ->
      Refine.R.get f (Refine.R.qc_hash (Refine.R.b_qc blk)) = Some qb ->
      Chained.certified (member replicas) (qsize replicas) genesis s (Refine.R.qc_hash (Refine.R.b_qc blk)) ->
      Refine.R.b_parent blk = Refine.R.qc_hash (Refine.R.b_qc blk) ->
      Refine.R.b_view qb < Refine.R.b_view blk ->
      lastVoted (Chained.loc genesis s r) < Refine.R.b_view blk ->
      Refine.R.simple_vote f lk v p = true ->
      Chained.step RSimple (member replicas) (honest byz) (qsize replicas) genesis s
                   (Chained.cast_vote genesis s r (Refine.absb blk)) /\
      lock (Chained.loc genesis (Chained.cast_vote genesis s r (Refine.absb blk)) r)
        = Refine.absb (fst (Refine.R.simple_commit f lk blk)).
Proof.
  intros replicas byz Hc s r f lk v p qb.
  exact (Refine.simple_replica_vote_refines (member replicas) (honest byz) (qsize replicas)
           (quorum_inter_inst replicas byz _ Hc) (quorum_has_honest_inst replicas byz _ Hc)
           s r f lk v p qb).
Qed.
Print Assumptions C01_code_level_simple_vote_refines_abstract_step.

Theorem C01_code_level_simple_commit_refines_abstract_rule :
  forall replicas byz s f lk blk b3,
      let genesis := Refine.absb Refine.R.genesis in
      Chained.reach RSimple (member replicas) (honest byz) (qsize replicas) genesis s ->
      Refine.view_of f (Chained.U s) ->
      Chained.certified (member replicas) (qsize replicas) genesis s (Refine.R.qc_hash (Refine.R.b_qc blk)) ->
      snd (Refine.R.simple_commit f lk blk) = Some b3 ->
      (forall x, In x f -> Refine.small2 x) ->
      exists b1 b2,
        Refine.R.get f (Refine.R.qc_hash (Refine.R.b_qc blk)) = Some b1 /\
        Chained.commit_rule RSimple (member replicas) (qsize replicas) genesis s
                            (Refine.absb b3) (Refine.absb b2) (Refine.absb b1).
Proof.
  intros replicas byz s f lk blk b3.
  exact (Refine.simple_replica_commit_refines (member replicas) (honest byz) (qsize replicas)
           s f lk blk b3).
Qed.
Print Assumptions C01_code_level_simple_commit_refines_abstract_rule.

(* ... and for Fast-HotStuff: the optimistic branch needs the certificate's view to be the view
   of the block it certifies (what the repaired VerifyQuorumCert enforces, C02), the
   aggregate branch needs the verified aggregate certificate ([agg_ok]). *)
Theorem C01_code_level_fast_vote_refines_abstract_step :
  forall replicas byz s r f v p qb,
    let genesis := Refine.absb Refine.R.genesis in
    let blk := Refine.R.p_block p in
    honest byz r = true ->
    Refine.view_of f (Fast.U s) ->
    Fast.U s (Refine.R.b_hash blk) = Some (Refine.absb blk) ->
    Refine.R.get f (Refine.R.qc_hash (Refine.R.b_qc blk)) = Some qb ->
    Fast.certified (member replicas) (qsize replicas) genesis s (Refine.R.qc_hash (Refine.R.b_qc blk)) ->
    Refine.R.qc_view (Refine.R.b_qc blk) = Refine.R.b_view qb ->
    Refine.R.b_parent blk = Refine.R.qc_hash (Refine.R.b_qc blk) ->
    Refine.R.b_view qb < Refine.R.b_view blk ->
    f_lastVoted (Fast.loc genesis s r) < Refine.R.b_view blk ->
    (forall a, Refine.R.p_agg p = Some a ->
               Fast.agg_ok (member replicas) (qsize replicas) genesis s (Refine.R.agg_view a) (Refine.absb qb)
               /\ Refine.R.agg_view a < Refine.R.two64 - 1) ->
    Refine.R.b_view qb < Refine.R.two64 - 1 ->
    Refine.R.fast_vote f v p = true ->
    Fast.step (member replicas) (honest byz) (qsize replicas) genesis s
              (Fast.fcast_vote genesis s r (Refine.absb blk)).
Proof.
  intros replicas byz s r f v p qb.
  exact (RefineFast.fast_replica_vote_refines (member replicas) (honest byz) (qsize replicas)
           s r f v p qb).
Qed.
Print Assumptions C01_code_level_fast_vote_refines_abstract_step.

Theorem C01_code_level_fast_commit_refines_abstract_rule :
  forall replicas s f blk gp,
    let genesis := Refine.absb Refine.R.genesis in
    Refine.view_of f (Fast.U s) ->
    Fast.certified (member replicas) (qsize replicas) genesis s (Refine.R.qc_hash (Refine.R.b_qc blk)) ->
    Refine.R.fast_commit f blk = Some gp ->
    (forall x, In x f -> Refine.R.b_view x < Refine.R.two64 - 1) ->
    exists par,
      Refine.R.get f (Refine.R.qc_hash (Refine.R.b_qc blk)) = Some par /\
      Fast.two_chain (member replicas) (qsize replicas) genesis s (Refine.absb gp) (Refine.absb par).
Proof.
  intros replicas s f blk gp.
  exact (RefineFast.fast_replica_commit_refines (member replicas) (qsize replicas) s f blk gp).
Qed.
Print Assumptions C01_code_level_fast_commit_refines_abstract_rule.

(* The replica stack in one statement: C03's model of Voter.Verify (freshness, certificate, parent,
   view and leader checks) on top of C04's rule model refines the abstract vote step.
   [Stack.describes] says that the proposal record the voter model sees describes the code-level
   proposal and store the rule model sees; the certificate verdict is linked to "certified" by
   C01_verified_qc_is_certified below. *)
Theorem C01_voter_and_rules_stack_refines_abstract_step :
  forall replicas byz leader,
    config_ok replicas byz (Refine.absb Refine.R.genesis) = true ->
    forall s r f lk cur st p pr,
      let genesis := Refine.absb Refine.R.genesis in
      let blk := Refine.R.p_block pr in
      Chained.reach RChained (member replicas) (honest byz) (qsize replicas) genesis s ->
      honest byz r = true ->
      Refine.view_of f (Chained.U s) ->
      Chained.U s (Refine.R.b_hash blk) = Some (Refine.absb blk) ->
      lock (Chained.loc genesis s r) = Refine.absb lk ->
      lastVoted (Chained.loc genesis s r) = Stack.V.last_voted st ->
      Stack.describes Refine.R.chained_vote p pr f lk cur ->
      (Stack.V.p_qc_ok p = true ->
       Chained.certified (member replicas) (qsize replicas) genesis s (Refine.R.qc_hash (Refine.R.b_qc blk))) ->
      Stack.V.verify leader st p = true ->
      Chained.step RChained (member replicas) (honest byz) (qsize replicas) genesis s
                   (Chained.cast_vote genesis s r (Refine.absb blk)) /\
      lock (Chained.loc genesis (Chained.cast_vote genesis s r (Refine.absb blk)) r)
        = Refine.absb (fst (Refine.R.chained_commit f lk blk)).
Proof.
  intros replicas byz leader Hc s r f lk cur st p pr.
  exact (Stack.chained_stack_vote_refines (member replicas) (honest byz) (qsize replicas)
           (quorum_inter_inst replicas byz _ Hc) (quorum_has_honest_inst replicas byz _ Hc)
           leader s r f lk cur st p pr).
Qed.
Print Assumptions C01_voter_and_rules_stack_refines_abstract_step.

Theorem C01_voter_and_simple_rules_stack_refines_abstract_step :
  forall replicas byz leader,
    config_ok replicas byz (Refine.absb Refine.R.genesis) = true ->
    forall s r f lk cur st p pr,
      let genesis := Refine.absb Refine.R.genesis in
      let blk := Refine.R.p_block pr in
      Chained.reach RSimple (member replicas) (honest byz) (qsize replicas) genesis s ->
      honest byz r = true ->
      Refine.view_of f (Chained.U s) ->
      Chained.U s (Refine.R.b_hash blk) = Some (Refine.absb blk) ->
      lock (Chained.loc genesis s r) = Refine.absb lk ->
      lastVoted (Chained.loc genesis s r) = Stack.V.last_voted st ->
      Stack.describes Refine.R.simple_vote p pr f lk cur ->
      (Stack.V.p_qc_ok p = true ->
       Chained.certified (member replicas) (qsize replicas) genesis s (Refine.R.qc_hash (Refine.R.b_qc blk))) ->
      Stack.V.verify leader st p = true ->
      Chained.step RSimple (member replicas) (honest byz) (qsize replicas) genesis s
                   (Chained.cast_vote genesis s r (Refine.absb blk)) /\
      lock (Chained.loc genesis (Chained.cast_vote genesis s r (Refine.absb blk)) r)
        = Refine.absb (fst (Refine.R.simple_commit f lk blk)).
Proof.
  intros replicas byz leader Hc s r f lk cur st p pr.
  exact (Stack.simple_stack_vote_refines (member replicas) (honest byz) (qsize replicas)
           (quorum_inter_inst replicas byz _ Hc) (quorum_has_honest_inst replicas byz _ Hc)
           leader s r f lk cur st p pr).
Qed.
Print Assumptions C01_voter_and_simple_rules_stack_refines_abstract_step.

(* The commit walk: Committer.commitInner as modelled for C06 ([ExecModel.commit_walk], run against
   the Go committer by the C06 correspondence check, with fetches from peers) returns, block for
   block, the abstract [segment] that the abstract commit step appends to the ledger, whenever the
   replica's store and what its peers serve are partial views of the global universe. *)
Theorem C01_code_level_commit_walk_is_abstract_segment :
  forall Uu remote fuel ch b cv ch' l x lx,
    RefineCommit.store_view (RefineCommit.E.blocks ch) Uu -> RefineCommit.store_view remote Uu ->
    RefineCommit.same b x ->
    RefineCommit.E.commit_walk fuel remote ch b cv = (ch', Prelude.Ok l) ->
    segment Uu x cv lx ->
    Forall2 RefineCommit.same l lx.
Proof. exact RefineCommit.commit_walk_matches_abstract_commit. Qed.
Print Assumptions C01_code_level_commit_walk_is_abstract_segment.

Theorem C01_code_level_commit_walk_segment_exists :
  forall Uu remote fuel ch b cv ch' l x,
    RefineCommit.store_view (RefineCommit.E.blocks ch) Uu -> RefineCommit.store_view remote Uu ->
    RefineCommit.same b x ->
    RefineCommit.E.commit_walk fuel remote ch b cv = (ch', Prelude.Ok l) ->
    RefineCommit.store_view (RefineCommit.E.blocks ch') Uu /\
    exists lx, segment Uu x cv lx /\ Forall2 RefineCommit.same l lx.
Proof. exact RefineCommit.commit_walk_is_segment. Qed.
Print Assumptions C01_code_level_commit_walk_segment_exists.

Theorem C01_voter_and_fast_rules_stack_refines_abstract_step :
  forall replicas byz leader s r f cur st p pr,
    let genesis := Refine.absb Refine.R.genesis in
    let blk := Refine.R.p_block pr in
    honest byz r = true ->
    Refine.view_of f (Fast.U s) ->
    Fast.U s (Refine.R.b_hash blk) = Some (Refine.absb blk) ->
    f_lastVoted (Fast.loc genesis s r) = Stack.V.last_voted st ->
    Stack.describes (fun f _ v pr => Refine.R.fast_vote f v pr) p pr f Refine.R.genesis cur ->
    (Stack.V.p_qc_ok p = true ->
     Fast.certified (member replicas) (qsize replicas) genesis s (Refine.R.qc_hash (Refine.R.b_qc blk)) /\
     forall qb, Refine.R.get f (Refine.R.qc_hash (Refine.R.b_qc blk)) = Some qb ->
                Refine.R.qc_view (Refine.R.b_qc blk) = Refine.R.b_view qb) ->
    (Stack.V.p_agg_ok p = true -> forall a qb, Refine.R.p_agg pr = Some a ->
       Refine.R.get f (Refine.R.qc_hash (Refine.R.b_qc blk)) = Some qb ->
       Fast.agg_ok (member replicas) (qsize replicas) genesis s (Refine.R.agg_view a) (Refine.absb qb) /\
       Refine.R.agg_view a < Refine.R.two64 - 1) ->
    (forall x, In x f -> Refine.R.b_view x < Refine.R.two64 - 1) ->
    Stack.V.verify leader st p = true ->
    Fast.step (member replicas) (honest byz) (qsize replicas) genesis s
              (Fast.fcast_vote genesis s r (Refine.absb blk)).
Proof.
  intros replicas byz leader s r f cur st p pr.
  exact (StackFast.fast_stack_vote_refines (member replicas) (honest byz) (qsize replicas) leader
           s r f cur st p pr).
Qed.
Print Assumptions C01_voter_and_fast_rules_stack_refines_abstract_step.

(* "certified" is what VerifyQuorumCert establishes (C02's model) under signature
   unforgeability: every genuine vote signature of a member inside the certificate is a vote of
   the abstract state, and the local store is content addressed. *)
Theorem C01_verified_qc_is_certified :
  forall (c : CertModel.cfg) (st : CertModel.store) (q : CertModel.qc) genesis (s : Chained.state),
    CertModel.verify_qc c st q = Prelude.Ok tt ->
    (forall h b, st h = Some b -> CertModel.bi_hash b = h) ->
    (forall sg i h, CertModel.qc_sig q = Some sg -> Symbolic.genuine sg i (Symbolic.MBlock h) ->
                    In i (CertModel.c_replicas c) -> Chained.voted s i h) ->
    CertModel.c_genesis c = b_hash genesis ->
    Chained.certified (member (CertModel.c_replicas c)) (qsize (CertModel.c_replicas c)) genesis s
                      (CertModel.qc_hash q).
Proof. exact Bridge.verified_qc_is_certified. Qed.
Print Assumptions C01_verified_qc_is_certified.

(* ---- non-vacuity: concrete accepted histories with commits, n = 4, replica 4 Byzantine ---- *)
Definition g0 : block := {| b_hash := 1; b_parent := 0; b_view := 0; b_qc := 0 |}.
Definition mk (h p v : N) : block := {| b_hash := h; b_parent := p; b_view := v; b_qc := p |}.
Definition votes3 h l := [EVote 1 h l; EVote 2 h l; EVote 3 h l].
Definition demo : list event :=
  [EAddBlock (mk 2 1 1)] ++ votes3 2 (Some 1) ++ [EAddBlock (mk 3 2 2)] ++ votes3 3 (Some 1) ++
  [EAddBlock (mk 4 3 3)] ++ votes3 4 (Some 2) ++ [EAddBlock (mk 5 4 4); EVote 1 5 (Some 3); ECommit 1 4 [2];
   EByzVote 4 5; EStop 2 9; ECommit 2 4 [2]; EVote 3 5 (Some 3)].

Example C01_demo_accepted :
  config_ok [1;2;3;4] [4] g0 = true /\
  snd (run RChained [1;2;3;4] [4] g0 (Chained.init g0) demo 0) = None /\
  snd (run RSimple [1;2;3;4] [4] g0 (Chained.init g0) demo 0) = None /\
  map (fun r => map b_hash (log (Chained.loc g0 (fst (run RChained [1;2;3;4] [4] g0 (Chained.init g0) demo 0)) r))) [1;2;3]
    = [[2]; [2]; []].
Proof. vm_compute. repeat split. Qed.

(* an equivocating second block for view 1 cannot be voted by a replica that voted in view 1 *)
Example C01_demo_equivocation_rejected :
  snd (run RChained [1;2;3;4] [4] g0 (Chained.init g0)
         ([EAddBlock (mk 2 1 1); EVote 1 2 (Some 1); EAddBlock {| b_hash := 9; b_parent := 1; b_view := 1; b_qc := 1 |};
           EVote 1 9 (Some 1)]) 0) = Some 3%nat.
Proof. vm_compute. reflexivity. Qed.

Definition fvotes3 h a := [FVote 1 h a; FVote 2 h a; FVote 3 h a].
Definition fdemo : list fevent :=
  [FAddBlock (mk 2 1 1)] ++ fvotes3 2 None ++ [FAddBlock (mk 3 2 2)] ++ fvotes3 3 None ++
  [FAddBlock (mk 4 3 3); FVote 1 4 None; FCommit 1 3 [2];
   FStop 2 3; FTimeout 2 3 3; FStop 3 3; FTimeout 3 3 3; FStop 1 3; FTimeout 1 3 3;
   FAddBlock (mk 6 3 4)].

(* accepted: the aggregate-QC vote with an aggregate certificate of the preceding view;
   rejected (index 18 = the vote): the same vote justified by an aggregate certificate of view 1,
   and a timeout that reports a QC lower than the QC of a block the replica voted for *)
Example C01_fdemo_accepted :
  snd (frun [1;2;3;4] [4] g0 (Fast.init g0) (fdemo ++ [FVote 2 6 (Some (3, [(1, 3); (2, 3); (3, 3)]))]) 0) = None /\
  snd (frun [1;2;3;4] [4] g0 (Fast.init g0) (fdemo ++ [FVote 2 6 (Some (1, [(1, 3); (2, 3); (3, 3)]))]) 0) = Some 18%nat /\
  snd (frun [1;2;3;4] [4] g0 (Fast.init g0)
         ([FAddBlock (mk 2 1 1)] ++ fvotes3 2 None ++ [FAddBlock (mk 3 2 2); FVote 1 3 None; FStop 1 2; FTimeout 1 2 1]) 0) = Some 7%nat /\
  map b_hash (f_log (Fast.loc g0 (fst (frun [1;2;3;4] [4] g0 (Fast.init g0) fdemo 0)) 1)) = [2].
Proof. vm_compute. repeat split. Qed.

(* the premises of the refinement theorem hold together in a concrete reachable state *)
Definition rblk : Refine.R.block := Refine.R.mkBlock 2 1 1 (Refine.R.mkQC 1 0).
Definition rstore : Refine.R.store := [Refine.R.genesis; rblk].
Definition rs0 : Chained.state := Chained.add_block (Chained.init (Refine.absb Refine.R.genesis)) (Refine.absb rblk).
Example C01_refinement_premises_satisfiable :
  let genesis := Refine.absb Refine.R.genesis in
  config_ok [1;2;3;4] [4] genesis = true /\
  Chained.reach RChained (member [1;2;3;4]) (honest [4]) (qsize [1;2;3;4]) genesis rs0 /\
  honest [4] 1 = true /\
  Refine.view_of rstore (Chained.U rs0) /\
  Chained.U rs0 2 = Some (Refine.absb rblk) /\
  lock (Chained.loc genesis rs0 1) = Refine.absb Refine.R.genesis /\
  Refine.R.get rstore 1 = Some Refine.R.genesis /\
  Chained.certified (member [1;2;3;4]) (qsize [1;2;3;4]) genesis rs0 1 /\
  lastVoted (Chained.loc genesis rs0 1) < 1 /\
  Refine.R.chained_vote rstore Refine.R.genesis 1 (Refine.R.mkProp rblk None) = true.
Proof.
  cbv zeta. split; [vm_compute; reflexivity|]. split.
  { eapply Chained.reach_step; [apply Chained.reach_init|]. apply Chained.step_addblock; [reflexivity|discriminate|discriminate]. }
  split; [reflexivity|]. split.
  { intros h b. unfold rstore, Refine.R.get. cbn [find Refine.R.b_hash Refine.R.genesis rblk].
    destruct (N.eqb_spec 1 h) as [E|_]; [intros [= E2]; subst; reflexivity|].
    destruct (N.eqb_spec 2 h) as [E|_]; [intros [= E2]; subst; reflexivity|discriminate]. }
  repeat split; try reflexivity. now left.
Qed.

(* C05 — progress resumes once a quorum of honest replicas is synchronous (PARTIAL). *)
From Coq Require Import List NArith ZArith.
From HS Require Import Quorum.QuorumModel Protocol.Core Protocol.Chained Protocol.ChainedExec Protocol.ChainedExecProofs Protocol.SyncRun Protocol.SyncProof.
From HS Require Protocol.Resume Protocol.ResumeFast Protocol.Fast Protocol.FastExecProofs.
Import ListNotations.
Open Scope N_scope.

(* Rule level, every reachable state of the abstract chained / simple system, every n:
   a well-formed proposal of a fresh view whose QC block is at least as high as the replica's
   lock is never blocked by the vote rule (the vote transition is enabled). *)
Theorem C05_rules_never_block_partial :
  forall rs replicas byz genesis,
    config_ok replicas byz genesis = true ->
    forall s r b c1,
      Chained.reach rs (member replicas) (honest byz) (qsize replicas) genesis s ->
      honest byz r = true ->
      Chained.U s (b_hash b) = Some b -> lastVoted (Chained.loc genesis s r) < b_view b ->
      Chained.U s (b_qc b) = Some c1 -> Chained.certified (member replicas) (qsize replicas) genesis s (b_qc b) ->
      b_parent b = b_qc b -> b_view c1 < b_view b ->
      (b_qc b = b_hash genesis \/ exists c2, Chained.U s (b_qc c1) = Some c2) ->
      b_view (lock (Chained.loc genesis s r)) <= b_view c1 ->
      Chained.step rs (member replicas) (honest byz) (qsize replicas) genesis s (cast_vote genesis s r b).
Proof.
  intros rs replicas byz genesis Hc.
  destruct (cfg_parts replicas byz genesis Hc) as (_ & _ & _ & Gv & Gp & Gq).
  exact (vote_enabled rs (member replicas) (honest byz) (qsize replicas)
           (quorum_inter_inst replicas byz genesis Hc) (quorum_has_honest_inst replicas byz genesis Hc)
           genesis Gv Gp Gq).
Qed.
Print Assumptions C05_rules_never_block_partial.

(* Once a chain of commit-chain length (three direct consecutive blocks, the newest certified)
   exists, every honest replica can commit its tail, and doing so makes the tail its committed head. *)
Theorem C05_commit_after_chain_partial :
  forall rs replicas byz genesis,
    config_ok replicas byz genesis = true ->
    forall s r b3 b2 b1,
      Chained.reach rs (member replicas) (honest byz) (qsize replicas) genesis s ->
      honest byz r = true ->
      Chained.three_chain (member replicas) (qsize replicas) genesis s b3 b2 b1 ->
      exists l,
        segment (Chained.U s) b3 (b_view (head (Chained.loc genesis s r))) l /\
        Chained.step rs (member replicas) (honest byz) (qsize replicas) genesis s
          (set_loc s r {| lastVoted := lastVoted (Chained.loc genesis s r); lock := lock (Chained.loc genesis s r);
                          head := if b_view (head (Chained.loc genesis s r)) <? b_view b3 then b3
                                  else head (Chained.loc genesis s r);
                          log := log (Chained.loc genesis s r) ++ l |}) /\
        (b_view (head (Chained.loc genesis s r)) < b_view b3 -> exists l', l = l' ++ [b3]).
Proof.
  intros rs replicas byz genesis Hc.
  destruct (cfg_parts replicas byz genesis Hc) as (_ & _ & _ & Gv & Gp & Gq).
  exact (commit_enabled rs (member replicas) (honest byz) (qsize replicas)
           (quorum_inter_inst replicas byz genesis Hc) (quorum_has_honest_inst replicas byz genesis Hc)
           genesis Gv Gp Gq).
Qed.
Print Assumptions C05_commit_after_chain_partial.

(* Progress can resume from ANY reachable state (protocol level, unbounded, both rule sets, every
   membership with at most f Byzantine members).  Whatever happened before -- partitions, loss,
   Byzantine behaviour, crashes (replicas outside Q never act below) -- for every quorum Q of honest
   members there is a continuation [steps s s'] of exactly three views (the commit-chain length)
   in which only Q acts: one new block per view on top of the highest lock held in Q, each voted by
   all of Q; afterwards the three new blocks form a certified three-chain and EVERY member of Q
   has committed a block that did not exist in s.  Hence the vote rule, the lock discipline and the
   commit rule can never wedge the protocol.  PARTIAL with respect to the property: the
   continuation is shown to exist; that the pacemaker (timeouts, TC/AggQC, new-view) actually
   drives a synchronous quorum along it is what the harness checks on the implementation. *)
Theorem C05_progress_can_resume_from_any_state_partial :
  forall rs replicas byz genesis,
    config_ok replicas byz genesis = true ->
    forall (Q : list rid) s,
      Chained.reach rs (member replicas) (honest byz) (qsize replicas) genesis s ->
      NoDup Q -> (qsize replicas <= length Q)%nat ->
      (forall r, In r Q -> member replicas r = true /\ honest byz r = true) ->
      exists s' B1 B2 B3,
        Resume.steps rs (member replicas) (honest byz) (qsize replicas) genesis s s' /\
        Chained.U s (b_hash B1) = None /\
        Chained.three_chain (member replicas) (qsize replicas) genesis s' B1 B2 B3 /\
        forall r, In r Q ->
          exists l', log (Chained.loc genesis s' r) = log (Chained.loc genesis s r) ++ l' ++ [B1].
Proof.
  intros rs replicas byz genesis Hc.
  destruct (cfg_parts replicas byz genesis Hc) as (_ & _ & _ & Gv & Gp & Gq).
  exact (Resume.progress_resumes_from_any_state rs (member replicas) (honest byz) (qsize replicas)
           (quorum_inter_inst replicas byz genesis Hc) (quorum_has_honest_inst replicas byz genesis Hc)
           genesis Gv Gp Gq).
Qed.
Print Assumptions C05_progress_can_resume_from_any_state_partial.

(* [steps] is a path of the abstract system: the continuation stays reachable (so C01 applies) *)
Theorem C05_continuation_is_reachable :
  forall rs replicas byz genesis s s',
    Chained.reach rs (member replicas) (honest byz) (qsize replicas) genesis s ->
    Resume.steps rs (member replicas) (honest byz) (qsize replicas) genesis s s' ->
    Chained.reach rs (member replicas) (honest byz) (qsize replicas) genesis s'.
Proof.
  intros rs replicas byz genesis.
  exact (Resume.steps_reach rs (member replicas) (honest byz) (qsize replicas) genesis).
Qed.
Print Assumptions C05_continuation_is_reachable.

(* The same for Fast-HotStuff: from any reachable state, for every quorum Q of honest members
   there is a continuation in which every member of Q signs a timeout for a common view reporting
   the highest certified block Q has built on, the next leader's block B1 is justified by the
   resulting aggregate certificate and voted by Q, B2 extends B1 in the next view and is voted by
   Q, and every member of Q commits the new block B1 -- two views after the view change.  The
   implementation does not follow this path (known finding: its aggregate timeout rule ignores
   plain QCs); the theorem shows the protocol rules themselves are live. *)
Theorem C05_fast_progress_can_resume_from_any_state_partial :
  forall replicas byz genesis,
    config_ok replicas byz genesis = true ->
    forall (Q : list rid) s,
      Fast.reach (member replicas) (honest byz) (qsize replicas) genesis s ->
      NoDup Q -> (qsize replicas <= length Q)%nat ->
      (forall r, In r Q -> member replicas r = true /\ honest byz r = true) ->
      exists s' B1 B2,
        ResumeFast.steps (member replicas) (honest byz) (qsize replicas) genesis s s' /\
        Fast.U s (b_hash B1) = None /\
        Fast.two_chain (member replicas) (qsize replicas) genesis s' B1 B2 /\
        forall r, In r Q ->
          exists l', Fast.f_log (Fast.loc genesis s' r) = Fast.f_log (Fast.loc genesis s r) ++ l' ++ [B1].
Proof.
  intros replicas byz genesis Hc.
  destruct (cfg_parts replicas byz genesis Hc) as (_ & _ & _ & Gv & Gp & Gq).
  exact (ResumeFast.fast_progress_resumes_from_any_state (member replicas) (honest byz) (qsize replicas)
           (quorum_inter_inst replicas byz genesis Hc) (quorum_has_honest_inst replicas byz genesis Hc)
           genesis Gv Gp).
Qed.
Print Assumptions C05_fast_progress_can_resume_from_any_state_partial.

(* the premises of the two resume theorems are satisfiable: n = 4, replica 4 Byzantine, Q = {1,2,3} *)
Definition reps4 : list rid := [1;2;3;4].
Definition quorum3 : list rid := [1;2;3].
Example C05_resume_premises_satisfiable :
  config_ok [1;2;3;4] [4] {| b_hash := 1; b_parent := 0; b_view := 0; b_qc := 0 |} = true /\
  NoDup quorum3 /\ (qsize reps4 <= length quorum3)%nat /\
  (forall r, In r quorum3 -> member reps4 r = true /\ honest [4] r = true).
Proof.
  split; [vm_compute; reflexivity|]. split; [repeat constructor; simpl; intuition discriminate|].
  split; [vm_compute; repeat constructor|].
  intros r [<-|[<-|[<-|[]]]]; split; reflexivity.
Qed.

(* Fault-free synchronous run, unbounded: for either ruleset, every cluster size n >= 1 (replicas
   1..n, none faulty) and every number of views k, the abstract system has a reachable state — the
   run in which in each view the leader's block on top of the previous one is voted by everybody —
   where every replica has voted in view k, is locked on b_{k-2}, and its ledger is exactly
   b_1 .. b_{k-3}: every view extended the chain by a certified block and commits trail the newest
   block by the commit-chain length. *)
Theorem C05_sync_run_exact :
  forall rs n, (1 <= n)%nat -> forall k,
    exists s, Chained.reach rs (member (ids n)) (honest []) (qsize (ids n)) sgen s /\
      forall r, In r (ids n) ->
        lastVoted (Chained.loc sgen s r) = N.of_nat k /\
        b_hash (lock (Chained.loc sgen s r)) = N.of_nat k - 2 + 1 /\
        map b_hash (log (Chained.loc sgen s r)) = expected_log k.
Proof. exact sync_run_exists. Qed.
Print Assumptions C05_sync_run_exact.

(* The same run as an executable event list ([sync_events], the function the correspondence
   check compares with the implementation's ledgers): accepted by the validator with exactly the
   expected ledgers.  PARTIAL: by kernel evaluation for the sizes below only. *)
Theorem C05_sync_events_accepted_partial :
  forallb (fun rs => forallb (fun n => forallb (fun k => sync_ok rs n k) (seq 0 25)) [1; 2; 3; 4; 5; 7; 10]%nat)
          [RChained; RSimple] = true.
Proof. vm_compute. reflexivity. Qed.
Print Assumptions C05_sync_events_accepted_partial.

(* NOT PROVED (named gaps): recover_any — that from an arbitrary reachable post-partition state the
   pacemaker (timeouts, view catch-up by one view per accepted certificate) brings a live quorum
   into a common view within a bounded number of views; real timers; fast-hotstuff, whose
   aggregate timeout rule ignores plain QCs so that no view ends without a timeout (known finding). *)

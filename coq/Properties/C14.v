(* C14 — events are handled once each, in order, prioritised observers first.
   Only statements closed by [exact] and their assumptions.
   Concurrency assumption (stated, not proved): every queue.push / queue.pop / queue.len and
   every access to the handler table or the waiting-event table is one sync.Mutex-protected
   atomic section, so every concurrent history of producers and the consumer is some
   interleaving of these atomic operations; the theorems quantify over ALL operation sequences. *)
From Coq Require Import ZArith List. Import ListNotations.
From HS Require Import Base.Prelude EventLoop.QueueModel EventLoop.QueueProofs EventLoop.LoopModel EventLoop.LoopProofs EventLoop.WakeModel EventLoop.WakeProofs.
Open Scope Z_scope.

(* ---- the ring buffer refines a bounded FIFO list, for every capacity >= 1 ---- *)
Theorem C14_push_spec : forall (A : Type) (q : queue A) (x : option A), inv q ->
  let '(q', d) := push q x in
  inv q' /\ qcap q' = qcap q /\
  (qlen q < qcap q -> abs q' = abs q ++ [x] /\ d = None) /\
  (qlen q = qcap q -> abs q' = tl (abs q) ++ [x] /\ d = hd None (abs q)).
Proof. exact (@push_spec). Qed.
Print Assumptions C14_push_spec.

Theorem C14_pop_spec : forall (A : Type) (q : queue A), inv q ->
  let '(q', (x, ok)) := pop q in
  inv q' /\ qcap q' = qcap q /\
  match abs q with
  | [] => ok = false /\ x = None /\ q' = q
  | a :: r => ok = true /\ x = a /\ abs q' = r
  end.
Proof. exact (@pop_spec). Qed.
Print Assumptions C14_pop_spec.

Theorem C14_len_spec : forall (A : Type) (q : queue A), inv q -> qlen q = Z.of_nat (length (abs q)).
Proof. exact (@len_spec). Qed.
Print Assumptions C14_len_spec.

(* all operation sequences on a fresh ring of any capacity >= 1 give exactly the outputs of the
   reference bounded FIFO (the reported dropped entry is the OLDEST one) *)
Theorem C14_ring_is_bounded_fifo : forall (A : Type) (c : nat) (ops : list (qop A)), (1 <= c)%nat ->
  exists q0 : queue A, new_queue c = Ok q0 /\ q_run push q0 ops = ref_run c [] ops.
Proof. exact (@ring_is_bounded_fifo). Qed.
Print Assumptions C14_ring_is_bounded_fifo.

Theorem C14_ring_invariant : forall (A : Type) (c : nat) (ops : list (qop A)) (q : queue A), inv q -> qcap q = Z.of_nat c ->
  let q' := fold_left (fun q o => fst (q_step push q o)) ops q in
  inv q' /\ qcap q' = Z.of_nat c /\ (length (abs q') <= c)%nat /\ 0 <= qlen q' <= Z.of_nat c.
Proof. exact (@run_invariant). Qed.
Print Assumptions C14_ring_invariant.

(* the push of the unpatched tree reports the wrong entry for capacities >= 2
   (fixes/C14-queue-dropped.patch); the buffer contents are nevertheless the same *)
Theorem C14_push_current_dropped_refuted :
  exists (q : queue N) (x : option N), inv q /\ qlen q = qcap q /\
    snd (push_current q x) <> hd None (abs q) /\
    fst (push_current q x) = fst (push q x).
Proof. exact push_current_dropped_refuted. Qed.
Print Assumptions C14_push_current_dropped_refuted.

(* ---- the event loop: for every capacity >= 1, every table of handler bodies [script]
   (handlers may add, defer, register and unregister while being dispatched), every nesting
   bound [fuel] and every program [ops] of AddEvent / DelayUntil / Register / unregister / Tick
   operations.  [run ... = Some st] says the nesting bound was not exceeded. ---- *)

(* events are handled in the order they were added as long as nothing overflows:
   added = handled ++ still pending, as sequences *)
Theorem C14_fifo_handling : forall (script : hid -> event -> list action) (fuel c : nat) (ops : list op) (st0 st : lstate),
  new_loop c = Ok st0 -> run script fuel st0 ops = Some st ->
  dropped (log st) = [] ->
  map Some (pushed (log st)) = map Some (popped (log st)) ++ pending st.
Proof. exact fifo_handling. Qed.
Print Assumptions C14_fifo_handling.

(* in general the pending events are the most recently added ones, and the events that are gone
   are exactly the handled and the reported-dropped ones (each sequence in the order added):
   nothing is lost unreported, nothing is duplicated *)
Theorem C14_overflow_conservation : forall (script : hid -> event -> list action) (fuel c : nat) (ops : list op) (st0 st : lstate),
  new_loop c = Ok st0 -> run script fuel st0 ops = Some st ->
  exists gone, map Some (pushed (log st)) = map Some gone ++ pending st /\
    Interleave (popped (log st)) (dropped (log st)) gone /\
    length (pushed (log st)) = (length (popped (log st)) + length (dropped (log st)) + length (pending st))%nat /\
    (forall e, In e (pushed (log st)) <-> In e (popped (log st)) \/ In e (dropped (log st)) \/ In (Some e) (pending st)).
Proof. exact overflow_conservation. Qed.
Print Assumptions C14_overflow_conservation.

(* one AddEvent in any reachable state: either there is room and nothing is reported, or the
   queue is full and exactly the OLDEST pending event is lost and exactly that one is reported *)
Theorem C14_overflow_oldest : forall (script : hid -> event -> list action) (fuel c : nat) (ops : list op) (st0 st : lstate) (e : event),
  new_loop c = Ok st0 -> run script fuel st0 ops = Some st ->
  ((length (pending st) < length (entries (lq st)))%nat /\
    log (push_report st e) = log st ++ [LPush e] /\
    pending (push_report st e) = pending st ++ [Some e])
   \/
   (exists x r, pending st = Some x :: r /\ length (pending st) = length (entries (lq st)) /\
    log (push_report st e) = log st ++ [LPush e; LDrop x] /\
    pending (push_report st e) = r ++ [Some e]).
Proof. intros script fuel c ops st0 st e H0 Hr. exact (proj2 (push_report_spec st e (fifo_invariant script fuel c ops st0 st H0 Hr))). Qed.
Print Assumptions C14_overflow_oldest.

(* Tick: the popped event is passed exactly once to every handler registered for its type at
   the moment of the pop, in the order [to_run] (prioritised first, see C14_priority_first), also
   when handlers unregister each other, register new handlers or add events meanwhile; only
   afterwards are the events deferred on that type re-added, each once, in deferral order *)
Theorem C14_dispatch_exactly_once : forall (script : hid -> event -> list action) (fuel : nat) (st st' : lstate) (q' : queue event) (e : event),
  pop (lq st) = (q', (Some e, true)) -> tick script fuel st = Some st' ->
  exists st1 D R,
    log st1 = log st ++ LPop e :: D /\
    handled_at 0 D = map (fun h => (false, h, e)) (to_run st (fst e) false) /\
    (forall t, readded_on t D = []) /\
    log st' = log st1 ++ R ++ [LTick true] /\
    (forall t, readded_on t R = if N.eqb (fst e) t then waiting st1 (fst e) else []) /\
    Forall (fun x => fst (fst x) = true) (handled_at 0 R).
Proof. exact tick_exactly_once. Qed.
Print Assumptions C14_dispatch_exactly_once.

(* AddEvent (at any nesting level d): the run-in-AddEvent handlers see the event exactly once,
   prioritised first, before it enters the queue *)
Theorem C14_add_event_exactly_once : forall (script : hid -> event -> list action) (fuel d : nat) (st : lstate) (e : event) (st' : lstate),
  add_event script fuel d st (Some e) = Some st' ->
  exists st1 D, log st1 = log st ++ D /\
    handled_at d D = map (fun h => (true, h, e)) (to_run st (fst e) true) /\
    (forall t, readded_on t D = []) /\ st' = push_report st1 e.
Proof. exact add_event_exactly_once. Qed.
Print Assumptions C14_add_event_exactly_once.

(* the handlers run are the live ones with the matching option: all prioritised ones (slot order),
   then all ordinary ones (slot order) *)
Theorem C14_priority_first : forall (st : lstate) (t : ety) (inadd : bool),
  to_run st t inadd = flat_map (eligible inadd true) (handlers st t) ++ flat_map (eligible inadd false) (handlers st t).
Proof. exact to_run_spec. Qed.
Print Assumptions C14_priority_first.

(* deferred events: in every reachable state, for every type t, the events deferred on t are
   (in deferral order) those re-added so far, each exactly once, followed by those still waiting *)
Theorem C14_deferred_once_in_order : forall (script : hid -> event -> list action) (fuel c : nat) (ops : list op) (st0 st : lstate),
  new_loop c = Ok st0 -> run script fuel st0 ops = Some st ->
  forall t, delayed_on t (log st) = readded_on t (log st) ++ waiting st t.
Proof. exact deferred_once_in_order. Qed.
Print Assumptions C14_deferred_once_in_order.

(* re-adding happens only at the end of a Tick (C14_dispatch_exactly_once says where) *)
Theorem C14_only_tick_readds : forall (script : hid -> event -> list action) (fuel : nat) (st : lstate) (a : action) (st' : lstate),
  do_action (add_event script fuel) 0 st a = Some st' ->
  exists suf, log st' = log st ++ suf /\ forall t, readded_on t suf = [].
Proof. exact only_tick_readds. Qed.
Print Assumptions C14_only_tick_readds.

(* "registered for its type" means: Register was called and the closure it returned has not
   been called yet.  In every reachable state a slot of the handler table holds a callback iff
   exactly one not-yet-called closure points to it; so a closure only ever removes the handler
   it registered, also after the slot has been reused (repaired behaviour,
   fixes/C14-unregister-idempotent.patch).  Together with C14_dispatch_exactly_once /
   C14_priority_first (which speak about the table) this is "each exactly once by every handler
   registered for its type". *)
Theorem C14_registered_iff_not_unregistered : forall (script : hid -> event -> list action) (fuel c : nat) (ops : list op) (st0 st : lstate),
  new_loop c = Ok st0 -> run script fuel st0 ops = Some st ->
  (forall t i, (exists s, nth_error (handlers st t) i = Some s /\ s_cb s <> None) <->
               (exists k, nth_error (tokens st) k = Some (t, i, false))) /\
  (forall k k' t i, nth_error (tokens st) k = Some (t, i, false) ->
                    nth_error (tokens st) k' = Some (t, i, false) -> k = k').
Proof. exact registered_iff_not_unregistered. Qed.
Print Assumptions C14_registered_iff_not_unregistered.

Theorem C14_unregister_idempotent : forall (st : lstate) (k : nat), unregister (unregister st k) k = unregister st k.
Proof. exact unregister_idempotent. Qed.
Print Assumptions C14_unregister_idempotent.

(* the closure of the unpatched tree clears slot (t,i) on every call: register h1, call its closure,
   register h2 (reuses the slot), call the FIRST closure again -> h2 is gone although its own closure
   was never called; with the repaired closure h2 stays *)
Theorem C14_unregister_current_refuted : stale_demo unregister_current = [] /\ stale_demo unregister = [2%N].
Proof. exact unregister_current_refuted. Qed.
Print Assumptions C14_unregister_current_refuted.

(* ---- the Run loop against concurrent producers: an added event is handled without waiting for a
   further AddEvent.  Model (WakeModel.v): every interleaving [sched] of producer pushes and consumer
   steps (pop / enter the select / wake up), with the repaired ready channel (one slot,
   fixes/C14-ready-signal-not-lost.patch). ---- *)
(* level-triggered wake-up: whenever an event is pending, the consumer is running or a token waits for it *)
Theorem C14_wake_level_triggered : forall sched : list wstep,
  let s := w_run true w_init sched in (w_pending s > 0)%nat -> w_pc s = Running \/ w_token s = true.
Proof. exact wake_level_triggered. Qed.
Print Assumptions C14_wake_level_triggered.

(* ... so the consumer's next two steps handle a pending event: no further push is needed *)
Theorem C14_wake_progress : forall sched : list wstep, let s := w_run true w_init sched in
  (w_pending s > 0)%nat -> (w_handled (w_run true s [Cons; Cons]) > w_handled s)%nat.
Proof. exact wake_progress. Qed.
Print Assumptions C14_wake_progress.

Theorem C14_wake_conservation : forall (b : bool) (sched : list wstep), let s := w_run b w_init sched in
  (w_handled s + w_pending s)%nat = length (filter (fun x => match x with Push => true | Cons => false end) sched).
Proof. exact wake_conservation. Qed.
Print Assumptions C14_wake_conservation.

(* the unbuffered channel of the tree before the fix: a push between the failed pop and the select is
   lost; the consumer sleeps with an event pending, whatever it does itself, until another push arrives *)
Theorem C14_wake_unbuffered_refuted :
  let s := w_run false w_init [Cons; Push; Cons] in
  w_pending s = 1%nat /\ w_handled s = 0%nat /\ cons_step s = None /\
  (forall n, w_run false s (repeat Cons n) = s) /\
  w_handled (w_run false s [Push; Cons; Cons]) = 2%nat.
Proof. exact wake_unbuffered_refuted. Qed.
Print Assumptions C14_wake_unbuffered_refuted.

(* the queue side of it (compared with the real queue on every run): after a push, the next
   non-blocking receive on ready() succeeds, whatever pops and len calls happen in between *)
Theorem C14_signal_persists : forall (A : Type) (s : queue A * bool) (x : option A) (ops : list (sop A)),
  forallb quiet ops = true ->
  exists outs, s_run true s (SOp (QPush x) :: ops ++ [SPoll]) = outs ++ [SPolled true].
Proof. exact (@signal_persists). Qed.
Print Assumptions C14_signal_persists.

(* non-vacuity of the loop theorems: capacity 2; handler 7 (prioritised, type 0) unregisters
   handler 5 during dispatch and defers an event; two events deferred on type 0; overflow *)
Definition ex_script (h : hid) (_ : event) : list action :=
  if N.eqb h 7 then [AUnreg 0; ADelay 0%N (Some (1%N, 33%N)); AAdd (Some (1%N, 34%N))] else [].
Definition ex_prog : list op :=
  [OAct (AReg 0%N 5%N false false); OAct (AReg 0%N 7%N true false); OAct (AReg 1%N 6%N true true);
   OAct (ADelay 0%N (Some (1%N, 31%N))); OAct (ADelay 0%N (Some (1%N, 32%N)));
   OAct (AAdd (Some (0%N, 1%N))); OTick; OTick; OTick].
Example C14_loop_values :
  match new_loop 2 with
  | Ok st0 => option_map (fun st => filter observable (log st)) (run ex_script 5 st0 ex_prog)
  | _ => None
  end
  = Some [LHandle 0 false 7%N (0%N, 1%N); LHandle 1 true 6%N (1%N, 34%N); LHandle 0 false 5%N (0%N, 1%N);
          LHandle 0 true 6%N (1%N, 31%N); LHandle 0 true 6%N (1%N, 32%N); LDrop (1%N, 34%N);
          LHandle 0 true 6%N (1%N, 33%N); LDrop (1%N, 31%N); LTick true; LTick true; LTick true].
Proof. vm_compute. reflexivity. Qed.

(* non-vacuity: capacity 3, wrap-around with two overflows *)
Example C14_queue_values :
  match new_queue 3 with
  | Ok q0 => q_run push q0 [QPush (Some 1%N); QPush (Some 2%N); QPop; QPush (Some 3%N); QPush (Some 4%N);
                            QPush (Some 5%N); QLen; QPush (Some 6%N); QPop; QPop; QPop; QPop]
  | _ => []
  end
  = [OPushed None; OPushed None; OPopped (Some 1%N) true; OPushed None; OPushed None;
     OPushed (Some 2%N); OLen 3; OPushed (Some 3%N); OPopped (Some 4%N) true; OPopped (Some 5%N) true;
     OPopped (Some 6%N) true; OPopped None false].
Proof. vm_compute. reflexivity. Qed.

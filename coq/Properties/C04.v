(* C04 — vote, lock and commit decisions equal the published protocol rules.
   Only statements closed by [exact], their assumptions, and non-vacuity examples.
   Model: Rules/RulesModel.v (mirrors /repo/protocol/rules/*.go, including the repair of
   fixes/C04-simple-commit-direct-chain.patch = /repo commit 90d0904 and the AggregateQC view
   condition of /repo commit 80dd43c); published rules: Rules/RulesSpec.v. *)
From HS Require Import Base.Prelude Rules.RulesModel Rules.RulesSpec Rules.RulesProofs.
Open Scope N_scope.

(* For every store (any shape, any view assignment below the uint64 wrap, certificate
   pointers equal to or different from parents, any missing blocks), every lock and every
   proposal, the three rulesets decide what the published rules decide:
   - commit and lock decisions agree on every store, and the published relation determines
     the decision uniquely;
   - simple HotStuff's vote decision agrees on every store;
   - chained HotStuff's and Fast-HotStuff's vote decisions are sound on every store and
     complete on block trees (content-addressed, views increasing along parent links, as in
     the papers); Fast-HotStuff's AggQC branch is stated under the voter's precondition that
     the block's own QC is the AggQC's highest QC. *)
Theorem C04_rules_equal_spec : forall f lock v p,
  let blk := p_block p in
  views_small f blk ->
  (forall lock' c, chained_commit f lock blk = (lock', c) ->
     chained_lock_spec f lock blk lock' /\ commit_agrees (chained_commit_spec f blk) c) /\
  commit_agrees (fast_commit_spec f blk) (fast_commit f blk) /\
  (forall lock' c, simple_commit f lock blk = (lock', c) ->
     simple_lock_spec f lock blk lock' /\ commit_agrees (simple_commit_spec f blk) c) /\
  (forall b1 b2, chained_commit_spec f blk b1 -> chained_commit_spec f blk b2 -> b1 = b2) /\
  (forall b1 b2, fast_commit_spec f blk b1 -> fast_commit_spec f blk b2 -> b1 = b2) /\
  (forall b1 b2, simple_commit_spec f blk b1 -> simple_commit_spec f blk b2 -> b1 = b2) /\
  (forall l1 l2, chained_lock_spec f lock blk l1 -> chained_lock_spec f lock blk l2 -> l1 = l2) /\
  (forall l1 l2, simple_lock_spec f lock blk l1 -> simple_lock_spec f lock blk l2 -> l1 = l2) /\
  (simple_vote f lock v p = true <-> simple_vote_spec f lock v p) /\
  (chained_vote f lock v p = true -> chained_vote_spec f lock p) /\
  (agg_matches p -> agg_small p -> fast_vote f v p = true -> fast_vote_spec f v p) /\
  (content_addressed (lock :: blk :: f) -> parent_views_increase f blk ->
   (chained_vote f lock v p = true <-> chained_vote_spec f lock p) /\
   (agg_matches p -> agg_small p -> (fast_vote f v p = true <-> fast_vote_spec f v p))).
Proof. exact rules_equal_spec. Qed.
Print Assumptions C04_rules_equal_spec.

(* a block is committed only as the tail of the required chain of directly linked,
   consecutively numbered, certified blocks: three-chain under the new block's certificate
   (chained, simple), two-chain ending in the new block (fast) *)
Theorem C04_commit_only_tail : forall rs f lock blk lock' b,
  views_small f blk -> no_zero f ->
  commit_rule rs f lock blk = (lock', Some b) -> required_chain rs f blk b.
Proof. exact commit_only_tail. Qed.
Print Assumptions C04_commit_only_tail.

(* hence a view gap anywhere in the chain prevents the commit *)
Theorem C04_commit_view_distance : forall rs f lock blk lock' b,
  views_small f blk -> no_zero f ->
  commit_rule rs f lock blk = (lock', Some b) ->
  match rs with
  | Fast => b_view blk = b_view b + 2
  | _ => exists b'', certified_by f blk b'' /\ b_view b'' = b_view b + 2
  end.
Proof. exact commit_view_distance. Qed.
Print Assumptions C04_commit_view_distance.

(* the paper's "view gap = 2" form of simple HotStuff's condition is the chain form *)
Theorem C04_simple_gap_is_chain : forall f bnew b,
  simple_commit_spec f bnew b <->
  exists b'' b', get f (qc_hash (b_qc bnew)) = Some b'' /\
                 get f (qc_hash (b_qc b'')) = Some b' /\ direct b'' b' /\ consecutive b'' b' /\
                 get f (qc_hash (b_qc b')) = Some b /\ direct b' b /\ consecutive b' b.
Proof. exact simple_commit_spec_iff_chain. Qed.
Print Assumptions C04_simple_gap_is_chain.

(* "extends" as computed by the block store is ancestry along parent links: always sound,
   complete on block trees *)
Theorem C04_extends_is_ancestry : forall f blk t,
  (extends f blk t = true -> extends_spec f blk (b_hash t)) /\
  (content_addressed (t :: blk :: f) -> parent_views_increase f blk ->
   (extends f blk t = true <-> extends_spec f blk (b_hash t))).
Proof. exact extends_is_ancestry. Qed.
Print Assumptions C04_extends_is_ancestry.

(* for every sequence of presented blocks, proposals and fetched blocks, from every state:
   the lock never moves to a lower view *)
Theorem C04_lock_view_monotone : forall rs ss st st' os,
  run rs st ss = (st', os) -> b_view (snd st) <= b_view (snd st').
Proof. exact lock_view_monotone. Qed.
Print Assumptions C04_lock_view_monotone.

(* ... and in every state reached from the initial one the store holds one block per hash and
   the lock is a stored block *)
Theorem C04_reachable_state_ok : forall rs ss st' os,
  run rs init_state ss = (st', os) ->
  NoDup (map b_hash (fst st')) /\ In (snd st') (fst st').
Proof. exact reachable_state_ok. Qed.
Print Assumptions C04_reachable_state_ok.

(* Blockchain.Get fetches and stores blocks it does not have.  The rules as the Go code runs
   them (every Get threaded through the store, [net] = what the peers can supply) decide what
   the pure rules above decide on the available blocks [f ++ net]; the store only grows by
   fetched blocks, and the lock / committed block end up stored. *)
Theorem C04_fetching_vote_is_pure_on_available : forall rs net f lock v p f' r,
  vote_rule_io rs net f lock v p = (f', r) ->
  r = vote_rule rs (f ++ net) lock v p /\ grows net f f'.
Proof. exact vote_rule_io_pure. Qed.
Print Assumptions C04_fetching_vote_is_pure_on_available.

Theorem C04_fetching_commit_is_pure_on_available : forall rs net f lock blk f' lock' c,
  commit_rule_io rs net f lock blk = (f', (lock', c)) ->
  commit_rule rs (f ++ net) lock blk = (lock', c) /\ grows net f f' /\
  (lock' = lock \/ In lock' f') /\ (forall b, c = Some b -> In b f').
Proof. exact commit_rule_io_pure. Qed.
Print Assumptions C04_fetching_commit_is_pure_on_available.

(* along every run with fetching and a changing network: one block per hash, the lock is
   stored, and its view never decreases *)
Theorem C04_fetching_run_ok : forall rs ss st st' os,
  nstate_ok st -> nrun rs st ss = (st', os) ->
  nstate_ok st' /\ b_view (snd (fst st)) <= b_view (snd (fst st')).
Proof. exact nrun_ok. Qed.
Print Assumptions C04_fetching_run_ok.

(* the simple-HotStuff commit rule as it stands WITHOUT the patch decides by certificate links
   and the total view gap only ... *)
Theorem C04_simple_unpatched_characterised : forall f lock blk lock' c,
  views_small f blk ->
  simple_commit_unpatched f lock blk = (lock', c) ->
  commit_agrees (simple_commit_spec_qc_only f blk) c.
Proof. exact simple_commit_unpatched_char. Qed.
Print Assumptions C04_simple_unpatched_characterised.

(* ... and therefore commits a block that is not the tail of a direct consecutive chain *)
Theorem C04_simple_unpatched_refuted :
  exists f lock blk lock' b,
    views_small f blk /\ no_zero f /\
    simple_commit_unpatched f lock blk = (lock', Some b) /\
    ~ required_chain Simple f blk b /\
    simple_commit f lock blk = (lock', None).
Proof. exact simple_unpatched_commits_off_chain. Qed.
Print Assumptions C04_simple_unpatched_refuted.

(* ---------------------------------------------------------------- non-vacuity *)
(* a straight chain G <- B1 <- B2 <- B3 <- B4 with consecutive views *)
Definition nv_b1 := mkBlock 2 1 1 (mkQC 1 0).
Definition nv_b2 := mkBlock 3 2 2 (mkQC 2 1).
Definition nv_b3 := mkBlock 4 3 3 (mkQC 3 2).
Definition nv_b4 := mkBlock 5 4 4 (mkQC 4 3).
Definition nv_store := [genesis; nv_b1; nv_b2; nv_b3; nv_b4].
(* the same with a view gap between B2 and B3 *)
Definition nv_b3g := mkBlock 6 3 4 (mkQC 3 2).
Definition nv_b4g := mkBlock 7 6 5 (mkQC 6 4).
Definition nv_store_gap := [genesis; nv_b1; nv_b2; nv_b3g; nv_b4g].
(* a fork: B2' competes with B2 in the same view *)
Definition nv_b2' := mkBlock 8 2 2 (mkQC 2 1).
Definition nv_fork := mkBlock 9 8 5 (mkQC 8 2).

Example C04_nv_hypotheses :
  views_small nv_store nv_b4 /\ no_zero nv_store /\
  content_addressed (nv_b2 :: nv_b4 :: nv_store) /\ parent_views_increase nv_store nv_b4.
Proof.
  split.
  { unfold views_small, two64. split; [| split; simpl; lia].
    intros b Hin. simpl in Hin. repeat (destruct Hin as [<- | Hin]; [simpl; lia |]). destruct Hin. }
  split; [reflexivity |].
  split.
  { intros b1 b2 H1 H2 E. simpl in H1, H2.
    repeat (destruct H1 as [<- | H1]); try destruct H1;
    repeat (destruct H2 as [<- | H2]); try destruct H2; try reflexivity; vm_compute in E; discriminate. }
  { intros b Hin p G. simpl in Hin.
    repeat (destruct Hin as [<- | Hin]); try destruct Hin; vm_compute in G; inversion G; subst; simpl; lia. }
Qed.

Example C04_nv_decisions :
  (* commits: every ruleset commits on the straight chain ... *)
  chained_commit nv_store nv_b1 nv_b4 = (nv_b2, Some nv_b1) /\
  fast_commit nv_store nv_b4 = Some nv_b2 /\
  simple_commit nv_store nv_b1 nv_b4 = (nv_b2, Some nv_b1) /\
  (* ... and none across the view gap, although the lock still moves *)
  chained_commit nv_store_gap nv_b1 nv_b4g = (nv_b2, None) /\
  fast_commit nv_store_gap nv_b4g = None /\
  simple_commit nv_store_gap nv_b1 nv_b4g = (nv_b2, None) /\
  (* votes: locked on B2, a proposal on the competing B2' is refused by chained HotStuff
     (neither higher certificate nor extension), accepted by simple HotStuff (same view) *)
  chained_vote (nv_store ++ [nv_b2']) nv_b2 5 (mkProp nv_fork None) = false /\
  simple_vote (nv_store ++ [nv_b2']) nv_b2 5 (mkProp nv_fork None) = true /\
  chained_vote nv_store nv_b2 5 (mkProp (mkBlock 10 5 5 (mkQC 5 4)) None) = true /\
  fast_vote nv_store 5 (mkProp (mkBlock 10 5 5 (mkQC 5 4)) None) = true /\
  fast_vote nv_store 5 (mkProp (mkBlock 10 5 6 (mkQC 5 4)) None) = false /\
  fast_vote nv_store 5 (mkProp (mkBlock 10 5 6 (mkQC 5 4)) (Some (mkAgg (mkQC 5 4) 5))) = true /\
  (* the block the lock must move to (B3, certified by B4's QC) is missing: no vote; it is
     fetched and stored when a peer has it *)
  chained_vote [genesis; nv_b1; nv_b2; nv_b4] nv_b1 5 (mkProp (mkBlock 10 5 5 (mkQC 5 4)) None) = false /\
  simple_vote [genesis; nv_b1; nv_b2; nv_b4] nv_b1 5 (mkProp (mkBlock 10 5 5 (mkQC 5 4)) None) = false /\
  chained_vote_io [nv_b3] [genesis; nv_b1; nv_b2; nv_b4] nv_b1 5 (mkProp (mkBlock 10 5 5 (mkQC 5 4)) None)
    = ([genesis; nv_b1; nv_b2; nv_b4; nv_b3], true) /\
  (* an AggQC from an older view justifies nothing *)
  fast_vote nv_store 5 (mkProp (mkBlock 10 5 7 (mkQC 5 4)) (Some (mkAgg (mkQC 5 4) 5))) = false.
Proof. vm_compute. repeat split. Qed.

(* C11 — the signature cache never changes a verification verdict.
   Only statements closed by [exact] and their assumptions.

   Model: coq/SigCache/SigCacheModel.v (security/cert/cache.go).  The uncached scheme
   (crypto.Base: ECDSA, EdDSA or BLS12) is an arbitrary triple of functions Vv / Vb / Vc;
   SHA-256 is an arbitrary injective function with 32-byte results; [fixed_kd] is the key
   derivation after fixes/C11-batch-digest.patch and fixes/C11-key-signers.patch, [legacy_kd]
   the one of the tree as found.  [wf_op]: lengths and ids fit their 64-bit encodings.
   [sign_sound]: the scheme accepts the signatures it makes itself (Cache.Sign remembers them). *)
From Coq Require Import List NArith. Import ListNotations.
From HS Require Import Base.Prelude SigCache.SigCacheModel SigCache.SigCacheProofs.

(* For every capacity >= 1 and every sequence of sign / verify / batch-verify / combine
   requests, the replica with the cache returns exactly the results of the replica without. *)
Theorem C11_cache_transparent :
  forall (sha : bytes -> bytes),
    (forall a b, sha a = sha b -> a = b) -> (forall a, length (sha a) = 32%nat) ->
  forall (Vv : qsig -> bytes -> verdict) (Vb : qsig -> batch -> verdict) (Vc : list qsig -> option qsig)
         (cp : nat) (ops : list op),
    (1 <= cp)%nat -> Forall wf_op ops -> Forall (sign_sound Vv) ops ->
    outs (run_cached Vv Vb Vc (fixed_kd sha) (empty cp) ops) = run_plain Vv Vb Vc ops.
Proof. exact cache_transparent. Qed.
Print Assumptions C11_cache_transparent.

(* The same for any key derivation under which equal keys imply equal verdicts of the scheme. *)
Theorem C11_cache_transparent_gen :
  forall Vv Vb Vc (kd : keyderiv), key_respects Vv Vb kd -> no_key_panic kd ->
  forall cp ops, (1 <= cp)%nat -> Forall wf_op ops -> Forall (sign_sound Vv) ops ->
    outs (run_cached Vv Vb Vc kd (empty cp) ops) = run_plain Vv Vb Vc ops.
Proof. exact cache_transparent_gen. Qed.
Print Assumptions C11_cache_transparent_gen.

(* key_injective for the repaired keys: a key determines the signature (scheme, claimed signers
   in order, each signer's bytes) and the message, resp. the batch as a map; keys of single
   verifications and of batch verifications never coincide. *)
Theorem C11_key_injective :
  forall (sha : bytes -> bytes),
    (forall a b, sha a = sha b -> a = b) -> (forall a, length (sha a) = 32%nat) ->
  (forall s m s' m' k, wf_sig s -> wf_sig s' ->
     fixed_verify_key sha s m = KKey k -> fixed_verify_key sha s' m' = KKey k -> s = s' /\ m = m') /\
  (forall s b s' b' k, wf_sig s -> wf_sig s' -> wf_batch b -> wf_batch b' ->
     fixed_batch_key sha s b = KKey k -> fixed_batch_key sha s' b' = KKey k -> s = s' /\ canon b = canon b') /\
  (forall s m s' b' k, fixed_verify_key sha s m = KKey k -> fixed_batch_key sha s' b' = KKey k -> False).
Proof. exact key_injective. Qed.
Print Assumptions C11_key_injective.

(* The membership may grow while the cache lives (RuntimeConfig.AddReplica after NewAuthority):
   the scheme of each epoch accepts whatever the previous one accepted.  The cached replica still
   returns exactly the uncached results, in every epoch, although it never forgets an entry on
   reconfiguration; in particular a signature rejected while its signer was unknown is accepted
   as soon as the uncached scheme accepts it. *)
Theorem C11_cache_transparent_growing :
  forall (sha : bytes -> bytes),
    (forall a b, sha a = sha b -> a = b) -> (forall a, length (sha a) = 32%nat) ->
  forall (cp : nat) (es : list (scheme * list op)), (1 <= cp)%nat ->
    Forall epoch_ok es -> growing (map fst es) ->
    run_epochs (fixed_kd sha) (empty cp) es = run_plain_epochs es.
Proof. exact cache_transparent_growing. Qed.
Print Assumptions C11_cache_transparent_growing.

(* Eviction never turns a valid signature invalid: the results do not depend on which of the
   remembered entries are still present. *)
Theorem C11_evict_harmless :
  forall (sha : bytes -> bytes),
    (forall a b, sha a = sha b -> a = b) -> (forall a, length (sha a) = 32%nat) ->
  forall Vv Vb Vc (c c' : lru) ops, (1 <= cap c)%nat -> (1 <= cap c')%nat ->
    cache_ok Vv Vb (fixed_kd sha) c -> (forall k, In k (order c') -> In k (order c)) ->
    Forall wf_op ops -> Forall (sign_sound Vv) ops ->
    outs (run_cached Vv Vb Vc (fixed_kd sha) c' ops) = outs (run_cached Vv Vb Vc (fixed_kd sha) c ops).
Proof. exact evict_harmless. Qed.
Print Assumptions C11_evict_harmless.

(* evict drops at most the least recently used entry, and only from a full cache *)
Theorem C11_evict_only_lru : forall c c', evict c = Some c' ->
  cap c' = cap c /\
  ((length (order c) < cap c)%nat /\ order c' = order c \/
   (cap c <= length (order c))%nat /\ order c' = removelast (order c)).
Proof. exact evict_spec. Qed.
Print Assumptions C11_evict_only_lru.

(* the cache never holds more than its capacity and never holds a key twice *)
Theorem C11_cache_bounded :
  forall (sha : bytes -> bytes),
    (forall a b, sha a = sha b -> a = b) -> (forall a, length (sha a) = 32%nat) ->
  forall Vv Vb Vc cp ops, (1 <= cp)%nat -> Forall wf_op ops -> Forall (sign_sound Vv) ops ->
    let c' := final_cache Vv Vb Vc (fixed_kd sha) (empty cp) ops in
    cap c' = cp /\ (length (order c') <= cp)%nat /\ NoDup (order c').
Proof. exact cache_bounded. Qed.
Print Assumptions C11_cache_bounded.

(* and it does cache: repeating an accepted verification is answered without the scheme *)
Theorem C11_hit_after_accept :
  forall Vv Vb Vc kd c s m k, (1 <= cap c)%nat -> kd_verify kd s m = KKey k -> Vv s m = VAccept ->
    let c1 := step_cache (cached_step Vv Vb Vc kd c (OVerify s m)) in
    fst (cached_step Vv Vb Vc kd c1 (OVerify s m)) = (OutV VAccept, false).
Proof. exact hit_after_accept. Qed.
Print Assumptions C11_hit_after_accept.

(* ---- the key derivations of the tree as found: the full statement is false ---- *)

(* claimed signers are not part of the key (ECDSA/EdDSA ids, BLS bitfield) *)
Theorem C11_legacy_signers_refuted : forall sha,
  exists Vv Vb Vc cp ops, (1 <= cp)%nat /\ Forall wf_op ops /\ Forall (sign_sound Vv) ops /\
    outs (run_cached Vv Vb Vc (legacy_kd sha) (empty cp) ops) <> run_plain Vv Vb Vc ops.
Proof. exact legacy_signers_refuted. Qed.
Print Assumptions C11_legacy_signers_refuted.

(* the batch digest is written into a discarded slice *)
Theorem C11_legacy_batch_digest_refuted : forall sha,
  exists Vv Vb Vc cp ops, (1 <= cp)%nat /\ Forall wf_op ops /\ Forall (sign_sound Vv) ops /\
    outs (run_cached Vv Vb Vc (legacy_kd sha) (empty cp) ops) <> run_plain Vv Vb Vc ops.
Proof. exact legacy_batch_digest_refuted. Qed.
Print Assumptions C11_legacy_batch_digest_refuted.

(* signature bytes are concatenated without framing *)
Theorem C11_legacy_signature_split_refuted : forall sha,
  exists Vv Vb Vc cp ops, (1 <= cp)%nat /\ Forall wf_op ops /\ Forall (sign_sound Vv) ops /\
    outs (run_cached Vv Vb Vc (legacy_kd sha) (empty cp) ops) <> run_plain Vv Vb Vc ops.
Proof. exact legacy_signature_split_refuted. Qed.
Print Assumptions C11_legacy_signature_split_refuted.

(* a nil signature panics in the cache and is rejected by the schemes *)
Theorem C11_legacy_nil_refuted : forall sha,
  exists Vv Vb Vc cp ops, (1 <= cp)%nat /\ Forall wf_op ops /\ Forall (sign_sound Vv) ops /\
    outs (run_cached Vv Vb Vc (legacy_kd sha) (empty cp) ops) <> run_plain Vv Vb Vc ops.
Proof. exact legacy_nil_refuted. Qed.
Print Assumptions C11_legacy_nil_refuted.

(* the batch digest as it was meant (messages concatenated in id order) is ambiguous too *)
Theorem C11_intended_batch_split_refuted : forall sha,
  exists Vv Vb Vc cp ops, (1 <= cp)%nat /\ Forall wf_op ops /\ Forall (sign_sound Vv) ops /\
    outs (run_cached Vv Vb Vc (intended_kd sha) (empty cp) ops) <> run_plain Vv Vb Vc ops.
Proof. exact intended_batch_split_refuted. Qed.
Print Assumptions C11_intended_batch_split_refuted.

(* and single and batch verifications share keys *)
Theorem C11_intended_verify_as_batch_refuted : forall sha,
  exists Vv Vb Vc cp ops, (1 <= cp)%nat /\ Forall wf_op ops /\ Forall (sign_sound Vv) ops /\
    outs (run_cached Vv Vb Vc (intended_kd sha) (empty cp) ops) <> run_plain Vv Vb Vc ops.
Proof. exact intended_verify_as_batch_refuted. Qed.
Print Assumptions C11_intended_verify_as_batch_refuted.

(* the first patch alone does not repair the signer defect *)
Theorem C11_p1_signers_refuted : forall sha,
  exists Vv Vb Vc cp ops, (1 <= cp)%nat /\ Forall wf_op ops /\ Forall (sign_sound Vv) ops /\
    outs (run_cached Vv Vb Vc (p1_kd sha) (empty cp) ops) <> run_plain Vv Vb Vc ops.
Proof. exact p1_signers_refuted. Qed.
Print Assumptions C11_p1_signers_refuted.

Theorem C11_legacy_key_injective_refuted : forall sha,
  (exists s s' m, s <> s' /\ legacy_verify_key sha s m = legacy_verify_key sha s' m) /\
  (exists s b b', canon b <> canon b' /\ legacy_batch_key s b = legacy_batch_key s b') /\
  (exists s b b', canon b <> canon b' /\ intended_batch_key sha s b = intended_batch_key sha s b').
Proof. exact legacy_key_not_injective. Qed.
Print Assumptions C11_legacy_key_injective_refuted.

(* ---- non-vacuity ---- *)

(* the hypotheses about SHA-256 are satisfiable: the digest the correspondence check runs the
   model with is injective on all lists and 32 long *)
Example C11_sha_hypotheses_satisfiable :
  (forall a b, sha_toy a = sha_toy b -> a = b) /\ (forall a, length (sha_toy a) = 32%nat).
Proof. split; [exact sha_toy_inj | exact sha_toy_len]. Qed.

(* a concrete run of the repaired cache (capacity 1) over a scheme that accepts exactly one
   signature: verify, verify again (answered from the cache: impl not called), then the same
   bytes relabelled to signers {3,4} (rejected), another valid entry evicting the first, the
   first again (recomputed, still accepted) *)
Example C11_concrete_run :
  let Vv := fun s m => if (qsig_eqb s w_sig12 || qsig_eqb s w_sig_ab_c) && bytes_eqb m w_msg then VAccept else VReject in
  let ops := [OVerify w_sig12 w_msg; OVerify w_sig12 w_msg; OVerify w_sig34 w_msg;
              OVerify w_sig_ab_c w_msg; OVerify w_sig_a_bc w_msg; OVerify w_sig12 w_msg; OVerify SNil w_msg] in
  Forall wf_op ops /\ Forall (sign_sound Vv) ops /\
  run_cached Vv no_Vb no_Vc (fixed_kd sha_toy) (empty 1) ops =
    [(OutV VAccept, true, 1%nat); (OutV VAccept, false, 1%nat); (OutV VReject, true, 1%nat);
     (OutV VAccept, true, 1%nat); (OutV VReject, true, 1%nat); (OutV VAccept, true, 1%nat); (OutV VReject, true, 1%nat)] /\
  (* the derivation of the tree as found on the same run: the relabelled and the re-split
     signature are accepted, the nil signature panics *)
  outs (run_cached Vv no_Vb no_Vc (legacy_kd sha_toy) (empty 2) ops) =
    [OutV VAccept; OutV VAccept; OutV VAccept; OutV VAccept; OutV VAccept; OutV VAccept; OutV VPanic].
Proof.
  cbv zeta. split; [solve_wf|]. split; [repeat constructor|]. split; vm_compute; reflexivity.
Qed.

(* a batch {1:"ab",2:"c"} versus {1:"a",2:"bc"} and versus another view's batch *)
Example C11_concrete_batches :
  let Vb := toy_Vb w_sig12 w_batch1 in
  let ops := [OBatch w_sig12 w_batch1; OBatch w_sig12 w_batch3; OBatch w_sig12 w_batch2; OBatch w_sig12 (rev w_batch1)] in
  outs (run_cached no_Vv Vb no_Vc (fixed_kd sha_toy) (empty 4) ops) = [OutV VAccept; OutV VReject; OutV VReject; OutV VAccept] /\
  run_plain no_Vv Vb no_Vc ops = [OutV VAccept; OutV VReject; OutV VReject; OutV VAccept] /\
  outs (run_cached no_Vv Vb no_Vc (legacy_kd sha_toy) (empty 4) ops) = [OutV VAccept; OutV VAccept; OutV VAccept; OutV VAccept].
Proof. cbv zeta. repeat split; vm_compute; reflexivity. Qed.

(* two epochs: signer set {3,4} is unknown in the first and known in the second.  The relabelled
   signature is rejected, then accepted (computed, then answered from memory), also at capacity 1. *)
Example C11_concrete_growth :
  let S1 := {| sv := toy_Vv w_sig12 w_msg; sb := no_Vb; sc := no_Vc |} in
  let S2 := {| sv := fun s m => if (qsig_eqb s w_sig12 || qsig_eqb s w_sig34) && bytes_eqb m w_msg then VAccept else VReject;
               sb := no_Vb; sc := no_Vc |} in
  let es := [(S1, [OVerify w_sig12 w_msg; OVerify w_sig34 w_msg; OVerify w_sig34 w_msg]);
             (S2, [OVerify w_sig34 w_msg; OVerify w_sig34 w_msg; OVerify w_sig12 w_msg])] in
  run_epochs (fixed_kd sha_toy) (empty 1) es =
    [OutV VAccept; OutV VReject; OutV VReject; OutV VAccept; OutV VAccept; OutV VAccept] /\
  run_plain_epochs es = [OutV VAccept; OutV VReject; OutV VReject; OutV VAccept; OutV VAccept; OutV VAccept].
Proof. cbv zeta. split; vm_compute; reflexivity. Qed.

(* the premise [growing] is needed: if a reconfiguration makes the scheme reject what it accepted
   (a replica's key replaced), the cache, which is not flushed, keeps accepting.  Replacing keys is
   outside the property's quantifier (request sequences over one membership that only grows). *)
Example C11_shrinking_not_covered :
  let S1 := {| sv := toy_Vv w_sig12 w_msg; sb := no_Vb; sc := no_Vc |} in
  let S2 := {| sv := no_Vv; sb := no_Vb; sc := no_Vc |} in
  let es := [(S1, [OVerify w_sig12 w_msg]); (S2, [OVerify w_sig12 w_msg])] in
  run_epochs (fixed_kd sha_toy) (empty 1) es = [OutV VAccept; OutV VAccept] /\
  run_plain_epochs es = [OutV VAccept; OutV VReject].
Proof. cbv zeta. split; vm_compute; reflexivity. Qed.

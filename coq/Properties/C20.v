(* C20 — the quorum size guarantees intersection and availability for every n.
   Only statements closed by [exact] and their assumptions. *)
From Coq Require Import ZArith List. Import ListNotations.
From HS Require Import Quorum.QuorumModel Quorum.QuorumProofs Quorum.QuorumSets.
Open Scope Z_scope.

(* f is the largest integer with 3f < n *)
Theorem C20_f_largest : forall n, 1 <= n ->
  3 * num_faulty n < n /\ forall f', 3 * f' < n -> f' <= num_faulty n.
Proof. intros n Hn. split; [exact (proj1 (f_largest n Hn)) | intros f'; exact (f_largest_max n f' Hn)]. Qed.
Print Assumptions C20_f_largest.

(* any two quorums overlap in at least f+1 replicas *)
Theorem C20_intersection : forall n, 1 <= n -> 2 * quorum_size n - n >= num_faulty n + 1.
Proof. exact q_intersect. Qed.
Print Assumptions C20_intersection.

(* honest replicas alone can form a quorum *)
Theorem C20_availability : forall n, 1 <= n -> quorum_size n <= n - num_faulty n.
Proof. exact q_available. Qed.
Print Assumptions C20_availability.

(* q is the smallest number with the intersection property *)
Theorem C20_minimal : forall n q', 1 <= n -> 2 * q' - n >= num_faulty n + 1 -> quorum_size n <= q'.
Proof. exact q_minimal. Qed.
Print Assumptions C20_minimal.

(* set form: two quorums share a member outside any fault set of size <= f *)
Theorem C20_quorums_share_honest : forall (U A B F : list N),
  (1 <= length U)%nat -> NoDup A -> NoDup B -> incl A U -> incl B U ->
  Z.of_nat (length A) >= quorum_size (Z.of_nat (length U)) ->
  Z.of_nat (length B) >= quorum_size (Z.of_nat (length U)) ->
  Z.of_nat (length F) <= num_faulty (Z.of_nat (length U)) ->
  exists x, In x A /\ In x B /\ ~ In x F.
Proof. exact quorum_intersection_honest. Qed.
Print Assumptions C20_quorums_share_honest.

Theorem C20_honest_form_quorum : forall (U F : list N),
  (1 <= length U)%nat -> NoDup U -> NoDup F -> incl F U ->
  Z.of_nat (length F) <= num_faulty (Z.of_nat (length U)) ->
  Z.of_nat (length (diff U F)) >= quorum_size (Z.of_nat (length U)).
Proof. exact honest_quorum_available. Qed.
Print Assumptions C20_honest_form_quorum.

(* non-vacuity: the classical sizes *)
Example C20_values :
  map (fun n => (num_faulty n, quorum_size n)) [1; 2; 3; 4; 7; 10; 13]
  = [(0,1); (0,2); (0,2); (1,3); (2,5); (3,7); (4,9)].
Proof. vm_compute. reflexivity. Qed.

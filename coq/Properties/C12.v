(* C12 — wire encoding preserves the meaning of every protocol message.
   Only statements closed by [exact] and their assumptions.

   Reading guide.  [bls_decode] is the external BLS12-381 point decompression (Some canonical bytes /
   None); [H] is SHA-256.  [wf_X d x = true] collects what every Go-constructed object satisfies: ids
   below 2^32 and views below 2^64 (Go's uint32 / uint64), 32-byte hashes, timestamps with
   0 <= nanos < 10^9 and int64 seconds, BLS signature bytes that decode to themselves, and for a
   partial certificate the recorded signer being the signature's first participant (0 if there is none).
   Timeout messages and proposals are taken as the receiving server reconstructs them
   (server.go: protobuf fields plus the sender id of the authenticated connection). *)
From HS Require Import Base.Prelude Wire.WireModel Wire.WireProofs.
Open Scope N_scope.

(* ---- round trips, one per object kind ---- *)
Theorem C12_roundtrip_signature : forall d s, wf_sig d s = true -> from_pb_sig d (Some (to_pb_sig s)) = s.
Proof. exact roundtrip_sig. Qed.
Print Assumptions C12_roundtrip_signature.

Theorem C12_roundtrip_partial_cert : forall d c, wf_pc d c = true -> from_pb_pc d (Some (to_pb_pc c)) = Ok c.
Proof. exact roundtrip_pc. Qed.
Print Assumptions C12_roundtrip_partial_cert.

Theorem C12_roundtrip_quorum_cert : forall d q, wf_qc d q = true -> from_pb_qc d (Some (to_pb_qc q)) = q.
Proof. exact roundtrip_qc. Qed.
Print Assumptions C12_roundtrip_quorum_cert.

Theorem C12_roundtrip_timeout_cert : forall d t, wf_tc d t = true -> from_pb_tc d (Some (to_pb_tc t)) = t.
Proof. exact roundtrip_tc. Qed.
Print Assumptions C12_roundtrip_timeout_cert.

Theorem C12_roundtrip_aggregate_qc : forall d a, wf_agg d a = true -> from_pb_agg d (Some (to_pb_agg a)) = a.
Proof. exact roundtrip_agg. Qed.
Print Assumptions C12_roundtrip_aggregate_qc.

Theorem C12_roundtrip_sync_info : forall d s, wf_sync d s = true -> from_pb_sync d (Some (to_pb_sync s)) = s.
Proof. exact roundtrip_sync. Qed.
Print Assumptions C12_roundtrip_sync_info.

Theorem C12_roundtrip_timeout_msg : forall d m, wf_timeout d m = true ->
  server_timeout d (tm_id m) (to_pb_timeout m) = m.
Proof. exact roundtrip_timeout. Qed.
Print Assumptions C12_roundtrip_timeout_msg.

Theorem C12_roundtrip_block : forall d b, wf_block d b = true -> from_pb_block d (Some (to_pb_block b)) = Ok b.
Proof. exact roundtrip_block. Qed.
Print Assumptions C12_roundtrip_block.

Theorem C12_roundtrip_proposal : forall d kauri p, wf_proposal d p = true ->
  server_propose d kauri (p_id p) (to_pb_proposal p) = Ok p.
Proof. exact roundtrip_proposal. Qed.
Print Assumptions C12_roundtrip_proposal.

(* ---- same hash ---- *)
Theorem C12_hash_preserved : forall d (H : bytes -> bytes) b, wf_block d b = true ->
  exists b', from_pb_block d (Some (to_pb_block b)) = Ok b' /\ block_hash H b' = block_hash H b
             /\ block_bytes b' = block_bytes b /\ obs_block b' = obs_block b.
Proof. exact hash_preserved. Qed.
Print Assumptions C12_hash_preserved.

(* ---- same bytes-to-sign and same participants, for every kind ---- *)
Theorem C12_observables_preserved : forall d,
  (forall s, wf_sig d s = true -> obs_sig (from_pb_sig d (Some (to_pb_sig s))) = obs_sig s) /\
  (forall c, wf_pc d c = true -> exists c', from_pb_pc d (Some (to_pb_pc c)) = Ok c' /\ obs_pc c' = obs_pc c) /\
  (forall q, wf_qc d q = true -> obs_qc (from_pb_qc d (Some (to_pb_qc q))) = obs_qc q) /\
  (forall t, wf_tc d t = true -> obs_tc (from_pb_tc d (Some (to_pb_tc t))) = obs_tc t) /\
  (forall a, wf_agg d a = true -> obs_agg (from_pb_agg d (Some (to_pb_agg a))) = obs_agg a) /\
  (forall s, wf_sync d s = true -> obs_sync (from_pb_sync d (Some (to_pb_sync s))) = obs_sync s) /\
  (forall m, wf_timeout d m = true -> obs_timeout (server_timeout d (tm_id m) (to_pb_timeout m)) = obs_timeout m) /\
  (forall b, wf_block d b = true -> exists b', from_pb_block d (Some (to_pb_block b)) = Ok b' /\ obs_block b' = obs_block b) /\
  (forall k p, wf_proposal d p = true ->
      exists p', server_propose d k (p_id p) (to_pb_proposal p) = Ok p' /\ obs_proposal p' = obs_proposal p).
Proof. exact observables_preserved. Qed.
Print Assumptions C12_observables_preserved.

(* ---- same verification verdict: cert.Authority reads a certificate only through the converted fields
        (signature with its participants, view, block hash, id -> QC map); for every function V of those
        fields - every scheme, block store and quorum size - the verdict is the same after the round trip.
        (VerifyAnyQC is the instance for proposals.)  The harness checks on the real Authority that the
        Go verdicts do agree before and after. ---- *)
Theorem C12_verdict_preserved : forall d,
  (forall (V : pcert -> bool) c, wf_pc d c = true ->
     exists c', from_pb_pc d (Some (to_pb_pc c)) = Ok c' /\ V c' = V c) /\
  (forall (V : qc -> bool) q, wf_qc d q = true -> V (from_pb_qc d (Some (to_pb_qc q))) = V q) /\
  (forall (V : tc -> bool) t, wf_tc d t = true -> V (from_pb_tc d (Some (to_pb_tc t))) = V t) /\
  (forall (V : aggqc -> bool) a, wf_agg d a = true -> V (from_pb_agg d (Some (to_pb_agg a))) = V a) /\
  (forall (V : proposal -> bool) k p, wf_proposal d p = true ->
     exists p', server_propose d k (p_id p) (to_pb_proposal p) = Ok p' /\ V p' = V p).
Proof. exact verdict_preserved. Qed.
Print Assumptions C12_verdict_preserved.

(* ---- a block fetched by hash is a block that hash names ----
   Whatever order the replies are visited in, and whatever the other repliers sent, the block that
   RequestBlock hands to the block store came from one of the replies, its recomputed hash is the
   requested one, and (SHA-256 injective) its bytes are those of every block with that hash. *)
Theorem C12_fetch_by_hash : forall d (H : bytes -> bytes),
  (forall a b, H a = H b -> a = b) -> (forall a, length (H a) = 32%nat) ->
  forall h replies blk, fetch_block H d h replies = Ok (Some blk) ->
    block_hash H blk = fix32 h /\
    (exists node pb, In (node, Some pb) replies /\ from_pb_block d (Some pb) = Ok blk) /\
    forall orig, block_hash H orig = h -> block_bytes blk = block_bytes orig.
Proof. exact fetch_by_hash. Qed.
Print Assumptions C12_fetch_by_hash.

(* and an honest reply among the answers is enough for the fetch to succeed *)
Theorem C12_fetch_finds_honest_reply : forall d (H : bytes -> bytes),
  (forall a b, H a = H b -> a = b) -> (forall a, length (H a) = 32%nat) ->
  forall orig replies node, wf_block d orig = true -> In (node, Some (to_pb_block orig)) replies ->
    (forall n r, In (n, r) replies -> r <> None) ->
    exists blk, fetch_block H d (block_hash H orig) replies = Ok (Some blk) /\ block_bytes blk = block_bytes orig.
Proof. exact fetch_finds_honest_reply. Qed.
Print Assumptions C12_fetch_finds_honest_reply.

(* ---- what the bytes (hence the hash) of a certificate and of a block name ----
   (after fixes/C12-qc-bytes-bind-signers.patch: QuorumCert.ToBytes also covers the claimed participant ids
   and their count.)  [ids_ok s]: the participant ids are below 2^32 and fewer than 2^32 - what Go's types give. *)
Theorem C12_qc_bytes_name_signers : forall q1 q2,
  length (qc_hash q1) = 32%nat -> length (qc_hash q2) = 32%nat ->
  qc_view q1 < 2^64 -> qc_view q2 < 2^64 -> ids_ok (qc_sig q1) -> ids_ok (qc_sig q2) ->
  qc_bytes q1 = qc_bytes q2 ->
  qc_view q1 = qc_view q2 /\ qc_hash q1 = qc_hash q2 /\ sig_is_nil (qc_sig q1) = sig_is_nil (qc_sig q2)
  /\ sig_raw (qc_sig q1) = sig_raw (qc_sig q2) /\ sig_ids (qc_sig q1) = sig_ids (qc_sig q2).
Proof. exact qc_bytes_inj. Qed.
Print Assumptions C12_qc_bytes_name_signers.

(* for multi-signature certificates (ECDSA, EdDSA) the bytes name every (signer, signature) entry: after
   fixes/C12-multi-bytes-frame-signatures.patch Multi.ToBytes precedes each signature by its length
   ([entries_ok]: every signature is shorter than 2^32 bytes) *)
Theorem C12_qc_bytes_name_entries : forall q1 q2,
  length (qc_hash q1) = 32%nat -> length (qc_hash q2) = 32%nat ->
  qc_view q1 < 2^64 -> qc_view q2 < 2^64 -> ids_ok (qc_sig q1) -> ids_ok (qc_sig q2) ->
  sig_is_multi (qc_sig q1) = true -> sig_is_multi (qc_sig q2) = true ->
  entries_ok (sig_entries (qc_sig q1)) -> entries_ok (sig_entries (qc_sig q2)) ->
  qc_bytes q1 = qc_bytes q2 ->
  qc_view q1 = qc_view q2 /\ qc_hash q1 = qc_hash q2 /\ sig_entries (qc_sig q1) = sig_entries (qc_sig q2).
Proof. exact qc_bytes_name_entries. Qed.
Print Assumptions C12_qc_bytes_name_entries.

(* equal block bytes name the signers of a signed certificate whatever the batches are (the participant
   section is read back from the end of the bytes) ... *)
Theorem C12_block_bytes_name_signers : forall b1 b2,
  sig_is_nil (qc_sig (b_cert b1)) = false -> sig_is_nil (qc_sig (b_cert b2)) = false ->
  ids_ok (qc_sig (b_cert b1)) -> ids_ok (qc_sig (b_cert b2)) ->
  block_bytes b1 = block_bytes b2 ->
  sig_ids (qc_sig (b_cert b1)) = sig_ids (qc_sig (b_cert b2)) /\ ts_nanos (b_ts b1) = ts_nanos (b_ts b2).
Proof. exact block_bytes_name_signers. Qed.
Print Assumptions C12_block_bytes_name_signers.

(* ... and every component: after fixes/C12-block-bytes-frame-batch.patch the batch is preceded by its length,
   so batch and certificate cannot trade bytes (batches are shorter than 2^32 bytes: Go's uint32(len)) *)
Theorem C12_block_bytes_name_everything : forall b1 b2,
  length (b_parent b1) = 32%nat -> length (b_parent b2) = 32%nat ->
  b_proposer b1 < 2^32 -> b_proposer b2 < 2^32 -> b_view b1 < 2^64 -> b_view b2 < 2^64 ->
  length (qc_hash (b_cert b1)) = 32%nat -> length (qc_hash (b_cert b2)) = 32%nat ->
  qc_view (b_cert b1) < 2^64 -> qc_view (b_cert b2) < 2^64 ->
  ids_ok (qc_sig (b_cert b1)) -> ids_ok (qc_sig (b_cert b2)) ->
  N.of_nat (length (b_batch b1)) < 2^32 -> N.of_nat (length (b_batch b2)) < 2^32 ->
  block_bytes b1 = block_bytes b2 ->
  b_parent b1 = b_parent b2 /\ b_proposer b1 = b_proposer b2 /\ b_view b1 = b_view b2 /\ b_batch b1 = b_batch b2
  /\ qc_view (b_cert b1) = qc_view (b_cert b2) /\ qc_hash (b_cert b1) = qc_hash (b_cert b2)
  /\ sig_is_nil (qc_sig (b_cert b1)) = sig_is_nil (qc_sig (b_cert b2))
  /\ sig_raw (qc_sig (b_cert b1)) = sig_raw (qc_sig (b_cert b2)) /\ sig_ids (qc_sig (b_cert b1)) = sig_ids (qc_sig (b_cert b2))
  /\ ts_nanos (b_ts b1) = ts_nanos (b_ts b2).
Proof. exact block_bytes_inj. Qed.
Print Assumptions C12_block_bytes_name_everything.

(* the fetched block carries the certificate signers of the block the requested hash names *)
Theorem C12_fetched_block_names_signers : forall d (H : bytes -> bytes),
  (forall a b, H a = H b -> a = b) -> (forall a, length (H a) = 32%nat) ->
  forall h replies blk orig,
    fetch_block H d h replies = Ok (Some blk) -> block_hash H orig = h ->
    sig_is_nil (qc_sig (b_cert blk)) = false -> sig_is_nil (qc_sig (b_cert orig)) = false ->
    ids_ok (qc_sig (b_cert blk)) -> ids_ok (qc_sig (b_cert orig)) ->
    sig_ids (qc_sig (b_cert blk)) = sig_ids (qc_sig (b_cert orig)) /\ ts_nanos (b_ts blk) = ts_nanos (b_ts orig).
Proof. exact fetched_block_names_signers. Qed.
Print Assumptions C12_fetched_block_names_signers.

(* the encoding before the repair (signature bytes without the signer ids) did not have this property:
   two well-formed blocks with different certificate signers and the same old bytes *)
Theorem C12_old_block_bytes_name_signers_refuted :
  exists b1 b2, wf_block (fun _ => None) b1 = true /\ wf_block (fun _ => None) b2 = true /\
    block_bytes_old b1 = block_bytes_old b2 /\
    sig_ids (qc_sig (b_cert b1)) <> sig_ids (qc_sig (b_cert b2)) /\
    block_bytes b1 <> block_bytes b2.
Proof. exact old_block_bytes_name_signers_refuted. Qed.
Print Assumptions C12_old_block_bytes_name_signers_refuted.

(* nor did the encoding without the batch length prefix name one batch: a well-formed block without
   commands and one with a command, with different certificates, and the same unframed bytes *)
Theorem C12_unframed_block_bytes_refuted :
  exists b1 b2, wf_block (fun _ => None) b1 = true /\ wf_block (fun _ => None) b2 = true /\
    block_bytes_unframed b1 = block_bytes_unframed b2 /\
    b_batch b1 <> b_batch b2 /\ qc_view (b_cert b1) <> qc_view (b_cert b2) /\
    block_bytes b1 <> block_bytes b2.
Proof. exact unframed_block_bytes_refuted. Qed.
Print Assumptions C12_unframed_block_bytes_refuted.

(* nor did the certificate bytes with the signatures back to back name one certificate: the same signers
   carrying the same bytes cut at other boundaries (signer 1 carrying two signatures, signer 2 none) *)
Theorem C12_unframed_signature_bytes_refuted :
  exists b1 b2, wf_block (fun _ => None) b1 = true /\ wf_block (fun _ => None) b2 = true /\
    block_bytes_v2 b1 = block_bytes_v2 b2 /\
    sig_ids (qc_sig (b_cert b1)) = sig_ids (qc_sig (b_cert b2)) /\
    sig_entries (qc_sig (b_cert b1)) <> sig_entries (qc_sig (b_cert b2)) /\
    block_bytes b1 <> block_bytes b2.
Proof. exact unframed_signature_bytes_refuted. Qed.
Print Assumptions C12_unframed_signature_bytes_refuted.

(* ---- non-vacuity: concrete well-formed objects of each scheme, and the hypotheses are not idle ---- *)
Definition ex_decode (s : bytes) : option bytes := if bytes_eqb s [192; 0; 1] then Some s else None.
Definition ex_h (x : N) : bytes := repeat x 32.
Definition ex_qc_ecdsa := mkQC (SigECDSA [(3, [48; 1]); (1, [48; 2]); (4294967295, [])]) 18446744073709551615 (ex_h 7).
Definition ex_qc_bls := mkQC (SigBLS [192; 0; 1] [5; 0; 128]) 9 (ex_h 1).
Definition ex_agg := mkAgg [(1, ex_qc_ecdsa); (2, ex_qc_bls); (3, mkQC SigNil 0 (ex_h 0))] (SigEDDSA [(2, [9]); (1, [8])]) 12.
Definition ex_block := mkBlock (ex_h 2) 4 [10; 3; 8; 1; 16; 2] ex_qc_bls (2^63) (-62135596800, 999999999)%Z.
Definition ex_timeout := mkTimeout 3 6 (SigBLS [192; 0; 1] [4]) SigNil (mkSync (Some ex_qc_ecdsa) (Some (mkTC SigNil 0)) (Some ex_agg)).
Definition ex_proposal := mkProposal 4 ex_block (Some ex_agg).

Example C12_wf_examples :
  wf_qc ex_decode ex_qc_ecdsa = true /\ wf_qc ex_decode ex_qc_bls = true /\ wf_agg ex_decode ex_agg = true /\
  wf_block ex_decode ex_block = true /\ wf_timeout ex_decode ex_timeout = true /\ wf_proposal ex_decode ex_proposal = true /\
  wf_pc ex_decode (mkPC 1 (SigBLS [192; 0; 1] [5; 0; 128]) (ex_h 3)) = true.
Proof. vm_compute. repeat split. Qed.

Example C12_participants_example :
  sig_participants (qc_sig ex_qc_bls) = Ok [1; 3; 24] /\ sig_participants (qc_sig ex_qc_ecdsa) = Ok [3; 1; 4294967295] /\
  qc_bytes ex_qc_bls = le64 9 ++ ex_h 1 ++ [192; 0; 1] ++ [1;0;0;0; 3;0;0;0; 24;0;0;0] ++ [3;0;0;0] /\
  qc_bytes (mkQC SigNil 0 (ex_h 0)) = le64 0 ++ ex_h 0.
Proof. vm_compute. repeat split; reflexivity. Qed.

(* outside wf the round trip really fails: an id above 2^32, a 31-byte hash, a non-canonical point *)
Example C12_wf_needed :
  from_pb_qc ex_decode (Some (to_pb_qc (mkQC (SigECDSA [(2^32 + 1, [])]) 1 (ex_h 0)))) <> mkQC (SigECDSA [(2^32 + 1, [])]) 1 (ex_h 0) /\
  from_pb_qc ex_decode (Some (to_pb_qc (mkQC SigNil 1 (repeat 0 31)))) <> mkQC SigNil 1 (repeat 0 31) /\
  from_pb_qc ex_decode (Some (to_pb_qc (mkQC (SigBLS [1] []) 1 (ex_h 0)))) <> mkQC (SigBLS [1] []) 1 (ex_h 0).
Proof. vm_compute. repeat split; discriminate. Qed.

(* C16 — all replicas agree on a valid leader for every view.
   Only statements closed by [exact] and their assumptions; the model is Leader/LeaderModel.v. *)
From Coq Require Import List NArith ZArith Permutation. Import ListNotations.
From HS Require Import Base.Prelude Quorum.QuorumModel Leader.LeaderModel Leader.LeaderProofs.

(* round-robin names a configured replica (ids 1..n) for every view, and never panics for n >= 1 *)
Theorem C16_rr_valid : forall (v : view) (n : Z), (1 <= n < 2^32)%Z ->
  exists l, choose_round_robin v n = Ok l /\ (1 <= Z.of_N l <= n)%Z.
Proof. exact rr_valid. Qed.
Print Assumptions C16_rr_valid.

(* every replica has exactly one turn in any n consecutive views (the window must not contain the
   uint64 wrap-around: v + n <= 2^64; see C16_rr_window_guard_needed) *)
Theorem C16_rr_window : forall (v : view) (n : Z), (1 <= n < 2^32)%Z -> (Z.of_N v + n <= two64z)%Z ->
  Permutation (map (fun k => choose_round_robin (v + N.of_nat k)%N n) (seq 0 (Z.to_nat n)))
              (map (fun i => Ok (N.of_nat i)) (seq 1 (Z.to_nat n))).
Proof. exact rr_window. Qed.
Print Assumptions C16_rr_window.

(* the stateless schemes depend on (view, n, tree positions) only: not on the replica's own id, its
   seed or its position in the tree *)
Theorem C16_stateless_agree : forall (s : scheme) (c1 c2 : config) (v : view),
  c_n c1 = c_n c2 -> tree_positions c1 = tree_positions c2 ->
  stateless_leader s c1 v = stateless_leader s c2 v.
Proof. exact stateless_agree. Qed.
Print Assumptions C16_stateless_agree.

(* ... and always name a configured replica, without panic (fixed leader / tree positions configured) *)
Theorem C16_stateless_valid : forall (s : scheme) (c : config) (v : view),
  (1 <= c_n c < 2^32)%Z -> scheme_ok s c ->
  exists l, stateless_leader s c v = Ok l /\ (1 <= Z.of_N l <= c_n c)%Z.
Proof. exact stateless_valid. Qed.
Print Assumptions C16_stateless_valid.

(* an active carousel does not panic and picks a signer of the committed head's certificate that
   proposed none of the last f blocks of the committed chain *)
Theorem C16_carousel_member : forall (c : config) (cl : Z) (rnd : Z -> Z) (h : head) (round : view) (signers : list rid),
  (1 <= c_n c)%Z ->
  h_qc h = Some signers -> carousel_active cl h round = true ->
  NoDup signers -> (num_faulty (c_n c) < Z.of_nat (length signers))%Z ->
  (forall s, 0 <= rnd s)%Z ->
  exists l, carousel c cl rnd h round = Ok l /\ In l signers /\ ~ In l (last_authors (c_n c) h).
Proof. exact carousel_member. Qed.
Print Assumptions C16_carousel_member.

(* a quorum certificate has enough signers for the previous theorem *)
Theorem C16_quorum_above_faulty : forall n : Z, (1 <= n)%Z -> (num_faulty n < quorum_size n)%Z.
Proof. exact quorum_above_faulty. Qed.
Print Assumptions C16_quorum_above_faulty.

(* an inactive carousel is round-robin *)
Theorem C16_carousel_fallback : forall (c : config) (cl : Z) (rnd : Z -> Z) (h : head) (round : view),
  carousel_active cl h round = false -> carousel c cl rnd h round = choose_round_robin round (c_n c).
Proof. exact carousel_fallback. Qed.
Print Assumptions C16_carousel_fallback.

(* an active carousel on ANY committed head (the certificate may list no signer at all, repeated or unknown
   signers, or only recent proposers): either no candidate is left and the answer is round-robin, or the
   answer is a signer outside the last f proposers *)
Theorem C16_carousel_active_spec : forall (c : config) (cl : Z) (rnd : Z -> Z) (h : head) (round : view) (signers : list rid),
  h_qc h = Some signers -> carousel_active cl h round = true -> (forall s, 0 <= rnd s)%Z ->
  (candidates (c_n c) h signers = [] /\ carousel c cl rnd h round = choose_round_robin round (c_n c))
  \/ exists l, carousel c cl rnd h round = Ok l /\ In l signers /\ ~ In l (last_authors (c_n c) h).
Proof. exact carousel_active_spec. Qed.
Print Assumptions C16_carousel_active_spec.

(* no committed head whatsoever makes the carousel panic (repaired code, fixes/C16-carousel-no-candidates.patch) *)
Theorem C16_carousel_no_panic : forall (c : config) (cl : Z) (rnd : Z -> Z) (h : head) (round : view),
  (1 <= c_n c < 2^32)%Z -> (forall s, 0 <= rnd s)%Z -> exists l, carousel c cl rnd h round = Ok l.
Proof. exact carousel_no_panic. Qed.
Print Assumptions C16_carousel_no_panic.

(* the code before the repair: "no scheme panics" was false -- a committed head whose certificate carries a
   non-nil signature without participants (accepted by VerifyQuorumCert when it names the genesis block)
   divides by zero *)
Theorem C16_carousel_no_panic_unfixed_refuted :
  exists c cl rnd h round, (1 <= c_n c < 2^32)%Z /\ (forall s, 0 <= rnd s)%Z /\ h_qc h = Some [] /\
    carousel_unfixed c cl rnd h round = Panic.
Proof. exact carousel_unfixed_panics. Qed.
Print Assumptions C16_carousel_no_panic_unfixed_refuted.

(* active or not, the carousel never names an unknown replica when the certificate's signers are configured
   (they may be repeated and fewer than a quorum) *)
Theorem C16_carousel_valid : forall (c : config) (cl : Z) (rnd : Z -> Z) (h : head) (round : view),
  (1 <= c_n c < 2^32)%Z -> head_ok (c_n c) h -> (forall s, 0 <= rnd s)%Z ->
  exists l, carousel c cl rnd h round = Ok l /\ (1 <= Z.of_N l <= c_n c)%Z.
Proof. exact carousel_valid. Qed.
Print Assumptions C16_carousel_valid.

(* without that premise the statement is false: the carousel trusts the committed head's certificate.  A view-1
   block whose certificate names genesis (view 0) with a made-up signature listing replica 77 was accepted by
   VerifyQuorumCert (genesis shortcut; repaired in cert.Authority by fixes/C16-genesis-qc-signature.patch, which is
   what discharges the premise), and once committed Carousel.GetLeader(4) names 77 in a 4-replica cluster *)
Theorem C16_carousel_valid_any_head_refuted :
  exists c cl rnd h round l, (1 <= c_n c < 2^32)%Z /\ (forall s, 0 <= rnd s)%Z /\ h_qc h = Some [77%N] /\
    carousel c cl rnd h round = Ok l /\ ~ (1 <= Z.of_N l <= c_n c)%Z.
Proof. exact carousel_unknown_signer. Qed.
Print Assumptions C16_carousel_valid_any_head_refuted.

(* the carousel's answers are a function of (n, shared seed, math/rand stream, sequence of (committed
   head, queried view)); the replica's identity and the order in which a certificate lists its
   signers do not matter *)
Theorem C16_carousel_function : forall (c1 c2 : config) (cl : Z) (rnd : Z -> Z) (qs1 qs2 : list (head * view)),
  c_n c1 = c_n c2 -> c_seed c1 = c_seed c2 ->
  Forall2 (fun q1 q2 => head_equiv (fst q1) (fst q2) /\ snd q1 = snd q2) qs1 qs2 ->
  carousel_run c1 cl rnd qs1 = carousel_run c2 cl rnd qs2.
Proof. exact carousel_run_function. Qed.
Print Assumptions C16_carousel_function.

(* the reputation scheme's answers and state are a function of (n, shared seed, float / weighted-choice
   primitives, initial state, sequence of (committed head, queried view)) *)
Theorem C16_reputation_function : forall (R : Type) (rzero : R) (rep_inc : nat -> Z -> R) (radd : R -> R -> R)
    (weight_of : R -> N) (pick : list (rid * N) -> Z -> option rid)
    (c1 c2 : config) (cl : Z) (st : rep_state) (qs : list (head * view)),
  c_n c1 = c_n c2 -> c_seed c1 = c_seed c2 ->
  reputation_run rzero rep_inc radd weight_of pick c1 cl st qs
  = reputation_run rzero rep_inc radd weight_of pick c2 cl st qs.
Proof. exact @reputation_run_function. Qed.
Print Assumptions C16_reputation_function.

(* reputations are credited at most once per committed head *)
Theorem C16_reputation_once_per_head : forall (R : Type) (rzero : R) (rep_inc : nat -> Z -> R) (radd : R -> R -> R)
    (weight_of : R -> N) (pick : list (rid * N) -> Z -> option rid)
    (c : config) (cl : Z) (st : rep_state) (h : head) (v v' : view),
  let st1 := snd (reputation rzero rep_inc radd weight_of pick c cl st h v) in
  st1 <> st -> snd (reputation rzero rep_inc radd weight_of pick c cl st1 h v') = st1.
Proof. exact @reputation_once_per_head. Qed.
Print Assumptions C16_reputation_once_per_head.

(* the credits do not depend on which (not old) views are asked: the state after a question is determined
   by the state before and the committed head *)
Theorem C16_reputation_state_view_independent : forall (R : Type) (rzero : R) (rep_inc : nat -> Z -> R) (radd : R -> R -> R)
    (weight_of : R -> N) (pick : list (rid * N) -> Z -> option rid)
    (c : config) (cl : Z) (st : rep_state) (h : head) (v1 v2 : view),
  N.ltb (u64_sub (u64 v1) (u64_of_int cl)) (h_view h) = false ->
  N.ltb (u64_sub (u64 v2) (u64_of_int cl)) (h_view h) = false ->
  snd (reputation rzero rep_inc radd weight_of pick c cl st h v1)
  = snd (reputation rzero rep_inc radd weight_of pick c cl st h v2).
Proof. exact @reputation_state_view_independent. Qed.
Print Assumptions C16_reputation_state_view_independent.

(* with the weight list sorted by replica id (repaired comparator, fixes/C16-reputation-sort.patch) the
   reputation scheme's answers do not depend on the order in which the certificates list their signers:
   two replicas whose states agree entry-wise, fed heads that differ only in that order, answer alike *)
Theorem C16_reputation_order_independent : forall (R : Type) (rzero : R) (rep_inc : nat -> Z -> R) (radd : R -> R -> R)
    (weight_of : R -> N) (pick : list (rid * N) -> Z -> option rid)
    (c1 c2 : config) (cl : Z) (qs1 qs2 : list (head * view)),
  c_n c1 = c_n c2 -> c_seed c1 = c_seed c2 ->
  Forall2 (fun q1 q2 => head_equiv (fst q1) (fst q2) /\ voters_nodup (fst q1) /\ snd q1 = snd q2) qs1 qs2 ->
  forall st1 st2 : rep_state, st_equiv rzero st1 st2 ->
  fst (reputation_run rzero rep_inc radd weight_of pick c1 cl st1 qs1)
  = fst (reputation_run rzero rep_inc radd weight_of pick c2 cl st2 qs2).
Proof. exact @reputation_run_order_independent. Qed.
Print Assumptions C16_reputation_order_independent.

(* ---- non-vacuity --------------------------------------------------------------------- *)
Example C16_rr_values :
  map (fun v => choose_round_robin v 4%Z) [0; 1; 2; 3; 4; 18446744073709551615]%N
  = [Ok 1; Ok 2; Ok 3; Ok 4; Ok 1; Ok 4]%N.
Proof. vm_compute. reflexivity. Qed.

(* the guard of C16_rr_window is needed: across the wrap-around of uint64 replica 1 leads twice in
   three consecutive views of a 3-replica cluster *)
Example C16_rr_window_guard_needed :
  map (fun v => choose_round_robin (u64 v) 3%Z) [18446744073709551615; 18446744073709551616; 18446744073709551617]%N
  = [Ok 1; Ok 1; Ok 2]%N.
Proof. vm_compute. reflexivity. Qed.

(* n = 0 divides by zero; a head signed only by its own proposer leaves no candidate: the code before the
   repair panics, the repaired carousel answers round-robin (view 4 mod 4 + 1); same for a signature
   without participants *)
Example C16_panics : choose_round_robin 5%N 0%Z = Panic
  /\ carousel_unfixed (Build_config 1%N 4%Z 0%Z None) 1%Z (fun _ => 7%Z) (Build_head 3%N (Some [2%N]) [2%N]) 4%N = Panic
  /\ carousel (Build_config 1%N 4%Z 0%Z None) 1%Z (fun _ => 7%Z) (Build_head 3%N (Some [2%N]) [2%N]) 4%N = Ok 1%N
  /\ carousel (Build_config 1%N 4%Z 0%Z None) 1%Z (fun _ => 7%Z) (Build_head 1%N (Some []) [2%N]) 2%N = Ok 3%N.
Proof. vm_compute. repeat split; reflexivity. Qed.

(* an active carousel: n = 7 (f = 2), head at view 9 signed by 5 replicas, last two proposers 3 and 5;
   candidates are [1;4;6]; the draw 8 selects index 2 *)
Definition ex_head := Build_head 9%N (Some [6; 3; 1; 5; 4]%N) [3; 5; 1; 2]%N.
Example C16_carousel_active_example :
  carousel_active 1%Z ex_head 10%N = true
  /\ carousel (Build_config 2%N 7%Z 0%Z None) 1%Z (fun _ => 8%Z) ex_head 10%N = Ok 6%N
  /\ carousel (Build_config 5%N 7%Z 0%Z None) 1%Z (fun _ => 8%Z) (Build_head 9%N (Some [1; 3; 4; 5; 6]%N) [3; 5; 1; 2]%N) 10%N = Ok 6%N
  /\ head_ok 7%Z ex_head.
Proof.
  vm_compute. repeat split; try reflexivity; try discriminate.
  repeat constructor; discriminate.
Qed.

(* reputation with integer stand-ins for the float primitives: credit once, then stale *)
Example C16_reputation_example :
  let rep := reputation 0%Z (fun votes n => 1%Z) Z.add (fun r => Z.to_N (10 * r)) (fun ws _ => option_map fst (hd_error ws)) in
  let c := Build_config 1%N 4%Z 0%Z None in
  let h := Build_head 5%N (Some [3; 1; 2]%N) [1%N] in
  rep c 1%Z (0%N, []) h 6%N = (Ok 1%N, (5%N, [(3%N, 1%Z); (1%N, 1%Z); (2%N, 1%Z)]))
  /\ snd (rep c 1%Z (snd (rep c 1%Z (0%N, []) h 6%N)) h 6%N) = snd (rep c 1%Z (0%N, []) h 6%N)
  /\ fst (rep c 1%Z (0%N, []) h 5%N) = Ok 0%N.
Proof. vm_compute. repeat split; reflexivity. Qed.

(* signer order is irrelevant (weights 2,2,1 for replicas 2,3,4; the chooser stand-in takes the second entry) *)
Example C16_reputation_order_example :
  let rep := reputation 0%Z (fun votes n => 1%Z) Z.add (fun r => Z.to_N (10 * r)) (fun ws _ => option_map fst (hd_error (tl ws))) in
  let c := Build_config 1%N 4%Z 0%Z None in
  fst (rep c 1%Z (0%N, []) (Build_head 5%N (Some [2; 3; 4]%N) [1%N]) 6%N) = Ok 3%N
  /\ fst (rep c 1%Z (0%N, []) (Build_head 5%N (Some [4; 3; 2]%N) [1%N]) 6%N) = Ok 3%N.
Proof. vm_compute. split; reflexivity. Qed.

(* a limit of what C16 claims for the reputation scheme: 0 ("no answer") is one of its answers -- for old
   views and when the weighted chooser refuses because every weight uint(reputation*10) is 0 (in Go: fresh
   reputations and a certificate with a bare quorum for n = 3, 6, 7, 9, 10, ...).  All replicas agree on it;
   the property text claims a configured id only for the stateless schemes and the carousel. *)
Example C16_reputation_answers_zero :
  let rep := reputation 0%Z (fun votes n => 0%Z) Z.add (fun r => Z.to_N (10 * r)) (fun ws _ => None) in
  fst (rep (Build_config 1%N 7%Z 0%Z None) 1%Z (0%N, []) (Build_head 2%N (Some [1; 2; 3; 4; 5]%N) [2%N; 1%N]) 3%N) = Ok 0%N.
Proof. vm_compute. reflexivity. Qed.

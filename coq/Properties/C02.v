(* C02 — accepted certificates carry a quorum of distinct valid signatures.
   Statements about the model of security/cert/auth.go + security/crypto/* (Cert/CertModel.v,
   Crypto/SchemeModel.v over Crypto/Symbolic.v) WITH the three repairs proposed in
   fixes/C02-{distinct-signers,qc-view,highqc-sort}.patch.  For every membership, every block store,
   every certificate value (honest or adversarial), all three schemes.

   [quorum_signed c s m] := exists S, NoDup S /\ qsize c <= |S| /\ S ⊆ replicas /\
                            forall i ∈ S, the signature object s contains a genuine signature of i over m. *)
From HS Require Import Base.Prelude Crypto.Symbolic Crypto.SchemeModel Crypto.SchemeProofs
  Cert.CertModel Cert.CertProofs Cert.CertPopModel Cert.CertPopProofs.

(* every participant that Verify counted is a distinct configured replica that really signed m *)
Theorem C02_scheme_verify_sound : forall (members : list rid) (sch : scheme) (s : qsig) (m : msg),
  scheme_verify members sch s m = true ->
  NoDup (participants s) /\ forall i, In i (participants s) -> In i members /\ genuine s i m.
Proof. exact scheme_verify_sound. Qed.
Print Assumptions C02_scheme_verify_sound.

(* QC: accepted => genesis QC (genesis hash, view 0 and NO signature: nobody signs genesis, so an
   accepted genesis certificate names no signers) or a quorum of distinct replicas signed exactly the stored
   block whose view is the view the QC claims *)
Theorem C02_qc_sound : forall (c : cfg) (st : store) (q : qc),
  verify_qc c st q = Ok tt ->
  (qc_hash q = c_genesis c /\ qc_view q = 0%N /\ qc_sig q = None) \/
  exists s b, qc_sig q = Some s /\ st (qc_hash q) = Some b /\ bi_view b = qc_view q /\
    exists S : list rid, NoDup S /\ (qsize c <= length S)%nat /\ incl S (c_replicas c) /\
                         forall i, In i S -> genuine s i (MBlock (bi_hash b)).
Proof. exact qc_sound. Qed.
Print Assumptions C02_qc_sound.

(* TC: accepted => view 0 or a quorum of distinct replicas signed exactly the timed-out view *)
Theorem C02_tc_sound : forall (c : cfg) (t : tc),
  verify_tc c t = Ok tt ->
  tc_view t = 0%N \/
  exists s, tc_sig t = Some s /\
    exists S : list rid, NoDup S /\ (qsize c <= length S)%nat /\ incl S (c_replicas c) /\
                         forall i, In i S -> genuine s i (MView (tc_view t)).
Proof. exact tc_sound. Qed.
Print Assumptions C02_tc_sound.

(* AggQC: accepted with high QC h => a quorum S of distinct replicas each signed ITS OWN timeout
   message (its id, the AggQC's view, the QC listed for it); every listed QC is attested by a member
   of S; h is one of the listed QCs, verifies ([qc_valid q = true] iff [verify_qc q = Ok tt], so
   C02_qc_sound applies to it), and no listed QC that verifies has a higher view.
   Premise: the genesis hash is not the all-zero hash (the Go code prepends zero-value QCs). *)
Theorem C02_aggqc_sound : forall (c : cfg) (st : store) (a : aggqc) (h : qc),
  c_genesis c <> zero_hash ->
  verify_aggqc c st a = Ok h ->
  exists s S, aq_sig a = Some s /\ NoDup S /\ (qsize c <= length S)%nat /\ incl S (c_replicas c) /\
    (forall i, In i S -> exists q, lookupN i (aq_qcs a) = Some q /\
                                   genuine s i (MTimeout i (aq_view a) (Some (qc_digest q)))) /\
    (forall i, In i (map fst (aq_qcs a)) -> In i S) /\
    (In h (map snd (map_of (aq_qcs a))) /\ qc_valid c st h = true /\
     forall q, In q (map snd (map_of (aq_qcs a))) -> qc_valid c st q = true -> (qc_view q <= qc_view h)%N).
Proof. exact aggqc_sound. Qed.
Print Assumptions C02_aggqc_sound.

(* findHighestValidQC on any list *)
Theorem C02_highest_valid : forall (c : cfg) (st : store) (l : list qc) (h : qc),
  find_highest_valid_qc c st l = Ok h ->
  In h l /\ qc_valid c st h = true /\
  forall q, In q l -> qc_valid c st q = true -> (qc_view q <= qc_view h)%N.
Proof. exact find_highest_sound. Qed.
Print Assumptions C02_highest_valid.

(* VerifyAnyQC: an accepted proposal's block QC verifies and, with aggregate QCs enabled and
   present, equals the high QC of the (accepted) AggQC — for every admissible choice [pick] *)
Theorem C02_any_qc_sound : forall (c : cfg) (st : store) (bq : qc) (ag : option aggqc) (pick : result qc -> result qc),
  verify_any_qc_with c st bq ag pick = Ok tt ->
  verify_qc c st bq = Ok tt /\
  (c_aggqc c = true -> forall a, ag = Some a ->
     exists h, pick (verify_aggqc c st a) = Ok h /\ qc_view bq = qc_view h /\ qc_hash bq = qc_hash h).
Proof. exact any_qc_sound. Qed.
Print Assumptions C02_any_qc_sound.

(* completeness, clusters of two or more replicas: what Create* assembles from the signatures of a
   quorum of distinct members verifies at every replica with the same membership *)
Theorem C02_qc_complete : forall (c : cfg) (b : blockinfo) (signers : list rid) (d : qcdigest),
  (2 <= length (c_replicas c))%nat -> bi_hash b <> c_genesis c ->
  NoDup signers -> incl signers (c_replicas c) -> (qsize c <= length signers)%nat ->
  exists q, create_qc c b (map (fun i => sign (c_scheme c) i (MBlock (bi_hash b))) signers) d = Ok q /\
    forall c' st, same_membership c c' -> st (bi_hash b) = Some b -> verify_qc c' st q = Ok tt.
Proof. exact qc_complete. Qed.
Print Assumptions C02_qc_complete.

Theorem C02_tc_complete : forall (c : cfg) (v : view) (signers : list rid),
  (2 <= length (c_replicas c))%nat -> v <> 0%N ->
  NoDup signers -> incl signers (c_replicas c) -> (qsize c <= length signers)%nat ->
  exists t, create_tc c v (map (fun i => sign (c_scheme c) i (MView v)) signers) = Ok t /\
    forall c', same_membership c c' -> verify_tc c' t = Ok tt.
Proof. exact tc_complete. Qed.
Print Assumptions C02_tc_complete.

Theorem C02_aggqc_complete : forall (c : cfg) (v : view) (ts : list (rid * qc)),
  (2 <= length (c_replicas c))%nat ->
  NoDup (map fst ts) -> incl (map fst ts) (c_replicas c) -> (qsize c <= length ts)%nat ->
  exists a, create_aggqc c v (map (honest_timeout (c_scheme c) v) ts) = Ok a /\
    forall c' st, same_membership c c' ->
      (exists p, In p ts /\ qc_valid c' st (snd p) = true) ->
      exists h, verify_aggqc c' st a = Ok h.
Proof. exact aggqc_complete. Qed.
Print Assumptions C02_aggqc_complete.

(* ---- proof of possession (BLS) and Equals at its real granularity: CertPopModel.v ----
   [usable c x]: the replicas for which the verifier x obtains a key — all of them for ECDSA/EdDSA,
   for BLS those that are the verifier itself or whose registered proof of possession verifies.  A
   replica with a missing or invalid proof contributes nothing, whatever was verified before. *)
Theorem C02_usable_keys : forall (c : cfg) (x : vctx),
  incl (usable c x) (c_replicas c) /\
  (c_scheme c = Bls12 -> forall i, In i (usable c x) -> i = v_self x \/ ~ In i (v_badpop x)).
Proof. intros c x. split; [apply usable_incl | intros H i; now apply usable_bls_pop]. Qed.
Print Assumptions C02_usable_keys.

Theorem C02_qc_sound_pop : forall (c : cfg) (x : vctx) (st : store) (q : qc),
  verify_qc_p c x st q = Ok tt ->
  (qc_hash q = c_genesis c /\ qc_view q = 0%N /\ qc_sig q = None) \/
  exists s b, qc_sig q = Some s /\ st (qc_hash q) = Some b /\ bi_view b = qc_view q /\
    exists S : list rid, NoDup S /\ (qsize c <= length S)%nat /\ incl S (usable c x) /\
                         forall i, In i S -> genuine s i (MBlock (bi_hash b)).
Proof. exact qc_sound_p. Qed.
Print Assumptions C02_qc_sound_pop.

Theorem C02_tc_sound_pop : forall (c : cfg) (x : vctx) (t : tc),
  verify_tc_p c x t = Ok tt ->
  tc_view t = 0%N \/
  exists s, tc_sig t = Some s /\
    exists S : list rid, NoDup S /\ (qsize c <= length S)%nat /\ incl S (usable c x) /\
                         forall i, In i S -> genuine s i (MView (tc_view t)).
Proof. exact tc_sound_p. Qed.
Print Assumptions C02_tc_sound_pop.

Theorem C02_aggqc_sound_pop : forall (c : cfg) (x : vctx) (st : store) (a : aggqc) (h : qc),
  c_genesis c <> zero_hash ->
  verify_aggqc_p c x st a = Ok h ->
  exists s S, aq_sig a = Some s /\ NoDup S /\ (qsize c <= length S)%nat /\ incl S (usable c x) /\
    (forall i, In i S -> exists q, lookupN i (aq_qcs a) = Some q /\
                                   genuine s i (MTimeout i (aq_view a) (Some (qc_digest q)))) /\
    (forall i, In i (map fst (aq_qcs a)) -> In i S) /\
    (In h (map snd (map_of (aq_qcs a))) /\ qc_valid_p c x st h = true /\
     forall q, In q (map snd (map_of (aq_qcs a))) -> qc_valid_p c x st q = true -> (qc_view q <= qc_view h)%N).
Proof. exact aggqc_sound_p. Qed.
Print Assumptions C02_aggqc_sound_pop.

(* VerifyAnyQC: the block's QC itself verifies; agreeing with the aggregate's high QC under
   view and block is never sufficient *)
Theorem C02_any_qc_sound_pop : forall (c : cfg) (x : vctx) (st : store)
    (bq : qc) (ag : option aggqc) (pick : result qc -> result qc),
  verify_any_qc_p c x st bq ag pick = Ok tt ->
  verify_qc_p c x st bq = Ok tt /\
  (c_aggqc c = true -> forall a, ag = Some a ->
     exists h, pick (verify_aggqc_p c x st a) = Ok h /\ qc_view bq = qc_view h /\ qc_hash bq = qc_hash h).
Proof. exact any_qc_sound_p. Qed.
Print Assumptions C02_any_qc_sound_pop.

(* VerifyAnyQC is deterministic and complete (repair fixes/C02-anyqc-deterministic-highqc.patch): which of
   several equal-view valid QCs for one block VerifyAggregateQC returned does not matter, and a proposal
   whose block QC verifies on its own and certifies the high QC's block and view is accepted *)
Theorem C02_any_qc_pick_irrelevant : forall (c : cfg) (x : vctx) (st : store) (bq : qc) (ag : option aggqc) (h1 h2 : qc),
  qc_view h1 = qc_view h2 -> qc_hash h1 = qc_hash h2 ->
  verify_any_qc_p c x st bq ag (fun _ => Ok h1) = verify_any_qc_p c x st bq ag (fun _ => Ok h2).
Proof. exact any_qc_pick_irrelevant. Qed.
Print Assumptions C02_any_qc_pick_irrelevant.

Theorem C02_any_qc_complete : forall (c : cfg) (x : vctx) (st : store) (bq : qc) (a : aggqc) (h : qc)
    (pick : result qc -> result qc),
  aq_sig a <> None ->
  pick (verify_aggqc_p c x st a) = Ok h ->
  qc_view bq = qc_view h -> qc_hash bq = qc_hash h ->
  verify_qc_p c x st bq = Ok tt ->
  verify_any_qc_p c x st bq (Some a) pick = Ok tt.
Proof. exact any_qc_complete_p. Qed.
Print Assumptions C02_any_qc_complete.

(* with every registered proof valid these are the functions of CertModel.v (to which the
   completeness theorems above apply) *)
Theorem C02_pop_plain : forall (c : cfg) (x : vctx) (st : store), v_badpop x = [] ->
  (forall q, verify_qc_p c x st q = verify_qc c st q) /\
  (forall t, verify_tc_p c x t = verify_tc c t) /\
  (forall a, verify_aggqc_p c x st a = verify_aggqc c st a).
Proof.
  intros c x st H. split; [|split]; intros; [now apply verify_qc_p_plain | now apply verify_tc_p_plain | now apply verify_aggqc_p_plain].
Qed.
Print Assumptions C02_pop_plain.

(* ---- non-vacuity: concrete values (n = 4, q = 3; genesis hash 1, block 2 of view 1, block 3 of view 2) ---- *)
Local Open Scope N_scope.
Definition ex_st : store := fun h =>
  match h with 1%N => Some (mkBI 1 0) | 2%N => Some (mkBI 2 1) | 3%N => Some (mkBI 3 2)
             | 6%N => Some (mkBI 6 9223372036854775813) | _ => None end.
Definition ex_cfg (sch : scheme) : cfg := mkCfg sch [1;2;3;4]%N 1%N true.
Definition ex_sg (i : rid) (m : msg) : sig1 := mkSig i (Some (i, m)).
Definition ex_multi (ids : list rid) (m : msg) : qsig := QMulti KEcdsa (map (fun i => ex_sg i m) ids).

Example C02_qsize_4 : qsize (ex_cfg Ecdsa) = 3%nat.
Proof. vm_compute. reflexivity. Qed.

(* an honest QC is accepted, for the list schemes and for BLS *)
Example C02_ex_honest :
  verify_qc (ex_cfg Ecdsa) ex_st (mkQC (Some (ex_multi [1;2;3]%N (MBlock 2))) 1 2 7) = Ok tt /\
  verify_qc (ex_cfg Bls12) ex_st (mkQC (Some (QBls [2;3;4]%N (Some [(4, MBlock 2); (2, MBlock 2); (3, MBlock 2)]%N))) 1 2 7) = Ok tt.
Proof. vm_compute. split; reflexivity. Qed.

(* the replays of the three defects are rejected by the repaired model *)
Example C02_ex_repeated_signer :
  verify_qc (ex_cfg Ecdsa) ex_st (mkQC (Some (ex_multi [1;1;1]%N (MBlock 2))) 1 2 7) = Reject /\
  verify_tc (ex_cfg Eddsa) (mkTC (Some (QMulti KEddsa [ex_sg 1 (MView 4); ex_sg 1 (MView 4); ex_sg 1 (MView 4)]%N)) 4) = Reject.
Proof. vm_compute. split; reflexivity. Qed.

Example C02_ex_relabelled_view :
  verify_qc (ex_cfg Ecdsa) ex_st (mkQC (Some (ex_multi [1;2;3]%N (MBlock 2))) 2 2 7) = Reject /\
  verify_qc (ex_cfg Ecdsa) ex_st (mkQC None 7 1 8) = Reject /\
  verify_qc (ex_cfg Ecdsa) ex_st (mkQC None 0 1 9) = Ok tt.
Proof. vm_compute. repeat split; reflexivity. Qed.

(* an AggQC whose signers report a QC of view 2^63+5 and one of view 2: the former is returned *)
Example C02_ex_extreme_view :
  let qh := mkQC (Some (ex_multi [1;2;3]%N (MBlock 6))) 9223372036854775813 6 23 in
  let q2 := mkQC (Some (ex_multi [1;2;3]%N (MBlock 3))) 2 3 17 in
  let a := mkAgg [(1, qh); (2, q2); (3, q2)]%N
             (Some (QMulti KEcdsa [ex_sg 1 (MTimeout 1 6 (Some 23)); ex_sg 2 (MTimeout 2 6 (Some 17)); ex_sg 3 (MTimeout 3 6 (Some 17))]%N)) 6 in
  verify_aggqc (ex_cfg Ecdsa) ex_st a = Ok qh.
Proof. vm_compute. reflexivity. Qed.

(* BLS: a bitfield naming other replicas than the contributors is rejected; a doubled contribution too *)
Example C02_ex_bls :
  verify_qc (ex_cfg Bls12) ex_st (mkQC (Some (QBls [1;2;3]%N (Some [(1, MBlock 2); (2, MBlock 2); (4, MBlock 2)]%N))) 1 2 7) = Reject /\
  verify_qc (ex_cfg Bls12) ex_st (mkQC (Some (QBls [1;2;3]%N (Some [(1, MBlock 2); (1, MBlock 2); (2, MBlock 2); (3, MBlock 2)]%N))) 1 2 7) = Reject.
Proof. vm_compute. split; reflexivity. Qed.

(* BLS: replica 3's registered proof of possession is bad: at verifier 1 a certificate that needs 3 is
   rejected, one by {1,2,4} is accepted; replica 3 itself does not check its own proof *)
Example C02_ex_pop :
  let q124 := mkQC (Some (QBls [1;2;4] (Some [(1, MBlock 2); (2, MBlock 2); (4, MBlock 2)]))) 1 2 7 in
  let q123 := mkQC (Some (QBls [1;2;3] (Some [(1, MBlock 2); (2, MBlock 2); (3, MBlock 2)]))) 1 2 8 in
  verify_qc_p (ex_cfg Bls12) (mkV 1 [3]) ex_st q124 = Ok tt /\
  verify_qc_p (ex_cfg Bls12) (mkV 1 [3]) ex_st q123 = Reject /\
  verify_qc_p (ex_cfg Bls12) (mkV 3 [3]) ex_st q123 = Ok tt /\
  verify_qc_p (ex_cfg Ecdsa) (mkV 1 [3]) ex_st (mkQC (Some (ex_multi [1;2;3] (MBlock 2))) 1 2 9) = Ok tt.
Proof. vm_compute. repeat split; reflexivity. Qed.

(* block QCs next to a genuine aggregate whose signers attest two different valid QCs for block 2 (signer
   sets {1,2,3} and {2,3,4}): either of them is accepted as block QC whichever the aggregate's high QC is;
   a relabelled twin (same bytes, other claimed signers) certifies the same block and view but is rejected
   because it does not verify on its own *)
Example C02_ex_block_qc_next_to_aggregate :
  let qa := mkQC (Some (ex_multi [1;2;3] (MBlock 2))) 1 2 7 in
  let qb := mkQC (Some (ex_multi [2;3;4] (MBlock 2))) 1 2 8 in
  let twin := mkQC (Some (QMulti KEcdsa [mkSig 2 (Some (1, MBlock 2)); mkSig 3 (Some (2, MBlock 2)); mkSig 1 (Some (3, MBlock 2))])) 1 2 9 in
  let a := mkAgg [(1, qa); (2, qb); (3, qa)]
             (Some (QMulti KEcdsa [ex_sg 1 (MTimeout 1 6 (Some 7)); ex_sg 2 (MTimeout 2 6 (Some 8)); ex_sg 3 (MTimeout 3 6 (Some 7))])) 6 in
  let any := fun bq h => verify_any_qc_p (ex_cfg Ecdsa) (mkV 1 []) ex_st bq (Some a) (fun _ => Ok h) in
  any qa qa = Ok tt /\ any qa qb = Ok tt /\ any qb qa = Ok tt /\ any qb qb = Ok tt /\
  any twin qa = Reject /\ any twin qb = Reject /\
  verify_any_qc_p (ex_cfg Ecdsa) (mkV 1 []) ex_st qb (Some a) (fun r => r) = Ok tt.
Proof. vm_compute. repeat split; reflexivity. Qed.

(* C08 — timeouts form a certificate exactly when a quorum timed out in that view.
   Only statements closed by [exact] and their assumptions.

   Model: Collect.TimeoutModel (timeoutCollector.add / deleteOldViews, OnRemoteTimeout with both
   timeout rules, on the certificate model Cert.CertModel and the symbolic signatures of
   Crypto.Symbolic), REPAIRED by fixes/C08-collector-per-view.patch, C08-timeout-receipt.patch and
   C08-aggqc-view.patch.  A run is any list of inputs (timeout message, outcome of the first
   advance on the sender's sync info): any views, duplicates, garbage / foreign / absent
   signatures, any claimed ids, from any starting view.  [tally c v hist] is the property's
   reference counter: the correctly signed ([receipt_ok]) timeouts for view v in the received
   sequence [hist], from distinct senders, not consumed by an earlier certificate for v. *)
From HS Require Import Base.Prelude Crypto.Symbolic Crypto.SchemeModel Quorum.QuorumModel Cert.CertModel
  Collect.TimeoutModel Collect.TimeoutProofs Collect.TimeoutAggProofs Collect.TimeoutBlsProofs.
Close Scope Z_scope.

(* quorum_iff: for a message x of a view v the replica has not left, certificate creation is
   started at this call iff x is correctly signed, its sender is not yet in v's tally, and with
   it the tally reaches the quorum; the list handed over is exactly that tally plus x. *)
Theorem C08_quorum_iff : forall c st c0 (xs : list input) (x : input) l,
  let s := run_state c st (mkS c0 []) xs in
  let hist := map fst xs in
  let v := t_view (fst x) in
  (s_view s <= v)%N ->
  (handed (snd (step c st s x)) = Some l <->
   receipt_ok c (fst x) = true /\ has_id (t_id (fst x)) (tally c v hist) = false /\
   qsize c <= S (length (tally c v hist)) /\ l = tally c v hist ++ [fst x]).
Proof. exact quorum_iff. Qed.
Print Assumptions C08_quorum_iff.

(* what a tally is: correctly signed messages of view v taken from the history, distinct
   senders, fewer than a quorum (n >= 1) *)
Theorem C08_tally_sound : forall c v hist,
  Forall (fun y => receipt_ok c y = true /\ t_view y = v /\ In y hist) (tally c v hist) /\
  NoDup (map t_id (tally c v hist)) /\
  (c_replicas c <> [] -> length (tally c v hist) < qsize c).
Proof.
  intros c v hist. destruct (tally_ok_tally c v hist) as [A [B C]].
  split; [exact A|]. split; [exact B|]. intros H. exact (C (qsize_pos c H)).
Qed.
Print Assumptions C08_tally_sound.

(* built_from_v_only: the list handed to certificate creation consists of received, correctly
   signed messages of view v from distinct senders, exactly a quorum of them *)
Theorem C08_built_from_v_only : forall c st c0 (xs : list input) (x : input) l,
  let s := run_state c st (mkS c0 []) xs in
  let hist := map fst xs in
  let v := t_view (fst x) in
  (s_view s <= v)%N ->
  handed (snd (step c st s x)) = Some l ->
  Forall (fun t => t_view t = v /\ receipt_ok c t = true /\ In t (hist ++ [fst x])) l /\
  NoDup (map t_id l) /\ (1 <= qsize c -> length l = qsize c).
Proof. exact built_from_v_only. Qed.
Print Assumptions C08_built_from_v_only.

(* views_isolated: the tally of v is a function of the messages for v alone ... *)
Theorem C08_tally_ignores_other_views : forall c v hist,
  tally c v hist = tally c v (filter (in_view v) hist).
Proof. exact tally_filter. Qed.
Print Assumptions C08_tally_ignores_other_views.

(* ... and so is the implementation: two runs (any starting views, any other traffic) that
   received the same messages for v and have not left v hold the same entries for v and react
   identically to the next message for v *)
Theorem C08_views_isolated : forall c st c1 c2 (xs1 xs2 : list input) v,
  filter (in_view v) (map fst xs1) = filter (in_view v) (map fst xs2) ->
  let s1 := run_state c st (mkS c1 []) xs1 in
  let s2 := run_state c st (mkS c2 []) xs2 in
  (s_view s1 <= v)%N -> (s_view s2 <= v)%N ->
  filter (in_view v) (s_bag s1) = filter (in_view v) (s_bag s2) /\
  forall x : input, t_view (fst x) = v ->
    handed (snd (step c st s1 x)) = handed (snd (step c st s2 x)).
Proof. exact views_isolated. Qed.
Print Assumptions C08_views_isolated.

(* tc_verifies (ECDSA, EdDSA and BLS12): the TC built from >= max(2, q) receipt-checked timeouts
   for v from distinct senders verifies at every replica with the same membership and scheme.
   n = 1 (a single signature cannot be combined) is excluded by 2 <= length l; for n >= 2 the
   quorum is >= 2 (C08_quorum_bounds). *)
Theorem C08_tc_verifies : forall c c' v l,
  c_scheme c' = c_scheme c -> c_replicas c' = c_replicas c ->
  Forall (fun t => view_sig_ok c t = true /\ t_view t = v) l ->
  NoDup (map t_id l) -> 2 <= length l -> qsize c <= length l ->
  exists t, create_tc_of c v l = Ok t /\ tc_view t = v /\ verify_tc c' t = Ok tt.
Proof. exact tc_verifies_all. Qed.
Print Assumptions C08_tc_verifies.

(* aggqc_verifies (all three schemes): the AggQC built from such a list is labelled v, verifies at
   every replica with the same membership at which one of the reported QCs is valid, and the
   high QC it yields is a valid QC reported by one of the quorum's messages *)
Theorem C08_aggqc_verifies : forall c c' st v l,
  c_scheme c' = c_scheme c -> c_replicas c' = c_replicas c -> c_genesis c' <> zero_hash ->
  Forall (fun t => msg_sig_ok c t = true /\ t_view t = v) l ->
  NoDup (map t_id l) -> 2 <= length l -> qsize c <= length l ->
  (exists t, In t l /\ qc_valid c' st (qc_of t) = true) ->
  exists a h, create_aggqc c v (map to_timeout l) = Ok a /\ aq_view a = v /\
    verify_aggqc c' st a = Ok h /\ qc_valid c' st h = true /\
    exists t, In t l /\ h = qc_of t.
Proof. exact aggqc_verifies_all. Qed.
Print Assumptions C08_aggqc_verifies.

(* moves_on, both rules: a replica in view v for which the sync info built at this call
   verifies ends the call in a view >= v+1 *)
Theorem C08_moves_on : forall c st s t a1 l si w,
  snd (step c st s (t, a1)) = OFired l si ->
  verify_sync_info c st si = Ok w ->
  t_view t = s_view s ->
  (N.succ (s_view s) <= s_view (fst (step c st s (t, a1))))%N.
Proof. exact fired_view. Qed.
Print Assumptions C08_moves_on.

(* end to end, simple rule (all schemes, n >= 2): whenever the collector fires in a reachable
   state for a view not yet left, a TC for exactly that view results, it verifies at every
   replica with the same membership, and a replica in that view moves on *)
Theorem C08_fired_simple : forall c st c0 (xs : list input) t a1 l,
  let s := run_state c st (mkS c0 []) xs in
  (s_view s <= t_view t)%N ->
  c_aggqc c = false -> 2 <= length (c_replicas c) ->
  handed (snd (step c st s (t, a1))) = Some l ->
  exists si, snd (step c st s (t, a1)) = OFired l si /\ si_agg si = None /\
    tc_view (si_tc si) = t_view t /\
    (forall c', c_scheme c' = c_scheme c -> c_replicas c' = c_replicas c ->
                verify_tc c' (si_tc si) = Ok tt) /\
    (t_view t = s_view s -> N.succ (s_view s) <= s_view (fst (step c st s (t, a1))))%N.
Proof.
  intros c st c0 xs t a1 l s Hv Ag N2 H.
  exact (fired_simple c st s (map fst xs) t a1 l (Inv_run c st c0 xs) Hv (tc_ok_all c) Ag (qsize_two c N2) H).
Qed.
Print Assumptions C08_fired_simple.

(* end to end, aggregate rule (all schemes, n >= 2): TC and AggQC are both labelled with the
   messages' view and verify wherever one reported QC is valid; a replica in that view moves on *)
Theorem C08_fired_aggregate : forall c st c0 (xs : list input) t a1 l,
  let s := run_state c st (mkS c0 []) xs in
  (s_view s <= t_view t)%N ->
  c_aggqc c = true -> 2 <= length (c_replicas c) ->
  handed (snd (step c st s (t, a1))) = Some l ->
  exists si a, snd (step c st s (t, a1)) = OFired l si /\ si_agg si = Some a /\
    tc_view (si_tc si) = t_view t /\ aq_view a = t_view t /\
    (forall c', c_scheme c' = c_scheme c -> c_replicas c' = c_replicas c ->
                verify_tc c' (si_tc si) = Ok tt) /\
    (forall c' st', c_scheme c' = c_scheme c -> c_replicas c' = c_replicas c ->
       c_genesis c' <> zero_hash ->
       (exists y, In y l /\ qc_valid c' st' (qc_of y) = true) ->
       exists h, verify_aggqc c' st' a = Ok h /\ qc_valid c' st' h = true /\
                 exists y, In y l /\ h = qc_of y) /\
    (c_genesis c <> zero_hash ->
     (exists y, In y l /\ qc_valid c st (qc_of y) = true) ->
     t_view t = s_view s -> N.succ (s_view s) <= s_view (fst (step c st s (t, a1))))%N.
Proof.
  intros c st c0 xs t a1 l s Hv Ag N2 H.
  exact (fired_aggregate c st s (map fst xs) t a1 l (Inv_run c st c0 xs) Hv (tc_ok_all c) (agg_ok_all c) Ag (qsize_two c N2) H).
Qed.
Print Assumptions C08_fired_aggregate.

(* The collector itself, for ANY bag and ANY threshold q given at the call (the Go code reads
   config.QuorumSize() at every add, so q may differ from call to call when the membership
   grows): an add only looks at and only changes the entries of the new message's view — it
   behaves as [view_add] on them — and leaves the entries of every other view untouched. *)
Theorem C08_add_same_view : forall q bag t,
  let T := filter (in_view (t_view t)) bag in
  filter (in_view (t_view t)) (fst (coll_add q bag t)) = fst (view_add q T t) /\
  snd (coll_add q bag t) = snd (view_add q T t).
Proof. exact coll_add_same. Qed.
Print Assumptions C08_add_same_view.

Theorem C08_add_other_views : forall q bag t v,
  v <> t_view t -> filter (in_view v) (fst (coll_add q bag t)) = filter (in_view v) bag.
Proof. exact coll_add_other. Qed.
Print Assumptions C08_add_other_views.

Theorem C08_quorum_bounds : forall c,
  (c_replicas c <> [] -> 1 <= qsize c) /\ (2 <= length (c_replicas c) -> 2 <= qsize c).
Proof. intros c. split; [exact (qsize_pos c)|exact (qsize_two c)]. Qed.
Print Assumptions C08_quorum_bounds.

(* The collector of the tree as it is (whole bag compared with the quorum, whole bag returned)
   does not have the property: one far-future timeout makes two view-5 timeouts "a quorum" for
   n = 4, and the list handed to certificate creation contains the foreign view. *)
Theorem C08_whole_bag_refuted : exists q bag t l,
  q = 3 /\ snd (coll_add_whole q bag t) = Some l /\ length (filter (in_view (t_view t)) l) < q /\
  exists y, In y l /\ t_view y <> t_view t.
Proof.
  exists 3, [mkT 4%N 900%N None None None; mkT 1%N 5%N None None None], (mkT 2%N 5%N None None None).
  eexists. split; [reflexivity|]. split; [vm_compute; reflexivity|]. split; [vm_compute; lia|].
  exists (mkT 4%N 900%N None None None). split; [simpl; auto|]. simpl. discriminate.
Qed.
Print Assumptions C08_whole_bag_refuted.

(* ---- non-vacuity: a concrete hostile run (n = 4, ECDSA, receiver in view 5) ---- *)
Open Scope N_scope.
Definition ex_cfg (agg : bool) : cfg := mkCfg Ecdsa [1; 2; 3; 4] 1 agg.
Definition ex_store : store := fun _ => None.
Definition ex_sig (lab who : N) (m : msg) : option qsig := Some (QMulti KEcdsa [mkSig lab (Some (who, m))]).
Definition ex_qc : qc := mkQC None 0 1 1.
Definition ex_honest (i v : N) : tmsg :=
  mkT i v (ex_sig i i (MView v)) (ex_sig i i (MTimeout i v (Some 1))) (Some ex_qc).
Definition ex_hist : list input :=
  [ (mkT 4 900 (ex_sig 4 4 (MView 900)) (ex_sig 4 4 (MTimeout 4 900 (Some 1))) (Some ex_qc), Ok 0);   (* far future *)
    (mkT 4 5 (ex_sig 1 1 (MView 5)) None (Some ex_qc), Ok 0);        (* replica 1's signature under id 4 *)
    (ex_honest 1 5, Ok 0); (ex_honest 2 6, Ok 0); (ex_honest 2 5, Ok 0); (ex_honest 1 5, Ok 0) ].

Example C08_example_simple :
  let s := run_state (ex_cfg false) ex_store (mkS 5 []) ex_hist in
  s_view s = 5 /\
  map t_id (tally (ex_cfg false) 5 (map fst ex_hist)) = [1; 2] /\
  exists si, step (ex_cfg false) ex_store s (ex_honest 3 5, Ok 0) =
    (mkS 6 [fst (nth 0 ex_hist (ex_honest 0 0, Ok 0)); ex_honest 2 6],
     OFired [ex_honest 1 5; ex_honest 2 5; ex_honest 3 5] si) /\
    verify_tc (ex_cfg false) (si_tc si) = Ok tt.
Proof. vm_compute. repeat split. eexists. split; reflexivity. Qed.

Example C08_example_aggregate :
  let s := run_state (ex_cfg true) ex_store (mkS 3 []) ex_hist in      (* receiver behind *)
  s_view s = 3 /\
  exists si a h, snd (step (ex_cfg true) ex_store s (ex_honest 3 5, Ok 0)) =
     OFired [ex_honest 1 5; ex_honest 2 5; ex_honest 3 5] si /\
    si_agg si = Some a /\ aq_view a = 5 /\
    verify_aggqc (ex_cfg true) ex_store a = Ok h /\ qc_view h = 0 /\
    s_view (fst (step (ex_cfg true) ex_store s (ex_honest 3 5, Ok 0))) = 4.
Proof. vm_compute. split; [reflexivity|]. do 3 eexists. repeat split. Qed.

(* the same with BLS12 aggregates (aggregate rule, receiver in view 5) *)
Definition bx_cfg : cfg := mkCfg Bls12 [2; 3; 9; 12] 1 true.
Definition bx_sig (lab who : N) (m : msg) : option qsig := Some (QBls [lab] (Some [(who, m)])).
Definition bx_honest (i v : N) : tmsg :=
  mkT i v (bx_sig i i (MView v)) (bx_sig i i (MTimeout i v (Some 1))) (Some ex_qc).
Example C08_example_bls :
  let hist := [ (mkT 12 5 (bx_sig 12 2 (MView 5)) (bx_sig 12 12 (MTimeout 12 5 (Some 1))) (Some ex_qc), Ok 0);  (* relabelled *)
                (bx_honest 9 5, Ok 0); (bx_honest 3 6, Ok 0); (bx_honest 2 5, Ok 0) ] in
  let s := run_state bx_cfg ex_store (mkS 5 []) hist in
  exists si a h, step bx_cfg ex_store s (bx_honest 3 5, Ok 0) =
     (mkS 6 [bx_honest 3 6], OFired [bx_honest 9 5; bx_honest 2 5; bx_honest 3 5] si) /\
    verify_tc bx_cfg (si_tc si) = Ok tt /\ si_agg si = Some a /\
    verify_aggqc bx_cfg ex_store a = Ok h.
Proof. vm_compute. do 3 eexists. repeat split. Qed.

(* C09 — votes form a QC exactly when a quorum voted for that block.
   Only statements closed by [exact], their assumptions, and non-vacuity examples.

   All-to-one collector (VotingMachine): model Collect/VoteModel.v of the REPAIRED verifyCert
   (fixes/C09-single-signer-votes.patch, [c_patched c = true]).  Tree node (Kauri): Collect/KauriModel.v.
   Standing assumptions visible as premises: symbolic signatures (Dolev-Yao, DESIGN 3.2); SHA-256
   injective on blocks ([cons]); each verifyCert body is one atomic section (sync.Mutex), so with
   asynchronous verification the critical sections happen in some rearrangement of the arrival
   sequence, which "for all stimulus sequences" / [C09_order_irrelevant] cover; n >= 2
   ([2 <= qsize c]: Combine refuses fewer than two signatures). *)
From Coq Require Import Permutation.
From HS Require Import Base.Prelude Quorum.QuorumModel Collect.VoteModel Collect.VoteProofs
  Collect.VoteQuorumProofs Collect.VoteAvailProofs Collect.KauriModel Collect.KauriProofs.
Close Scope Z_scope.

(* ---- all-to-one collector ---- *)

(* every certificate the collector emits, for whatever stimuli, verifies against the blocks it holds *)
Theorem C09_emitted_verifies : forall c, c_patched c = true ->
  forall store high es st' outs, run c (init store high) es = (st', outs) ->
  forall o q, In o outs -> In q o -> qc_verifies c (st_store st') q = true.
Proof. exact emitted_verifies. Qed.
Print Assumptions C09_emitted_verifies.

(* ... and "verifies" means: a quorum of distinct members, each with a genuine signature over that block,
   and the certificate's view is the block's view *)
Theorem C09_verifies_means : forall c s q, qc_verifies c s q = true ->
  qsize c <= length (q_sigs q) /\ NoDup (map s_lab (q_sigs q)) /\
  (forall sg, In sg (q_sigs q) -> In (s_lab sg) (c_members c) /\ s_real sg = Some (s_lab sg, q_hash q)) /\
  exists x, In x s /\ b_hash x = q_hash q /\ b_view x = q_view q.
Proof. exact qc_verifies_spec. Qed.
Print Assumptions C09_verifies_means.

(* For a block b newer than the high QC, and ANY sequence of votes (valid, duplicate, forged,
   multi-signer, for other blocks, from non-members), proposals and lower high-QC moves, before or
   after b itself: a certificate for b has been emitted by the end of the sequence iff b is known
   and valid single-signer votes for b from a quorum of distinct members are among the stimuli.
   ([props_ok]: while b is unknown the first proposal handled is b's own — a foreign proposal in
   between sends the delayed votes through the network fetch; that case is [C09_qc_iff_quorum_fetch]
   below, for a block that can be fetched.  When it cannot, the delayed votes are dropped.) *)
Theorem C09_qc_iff_quorum : forall c, c_patched c = true -> forall b, 2 <= qsize c ->
  Forall (cons b) (c_remote c) ->
  forall store high es st' outs,
  Forall (cons b) store -> (high < b_view b)%N -> Forall (ev_ok b) es -> props_ok b (In b store) es ->
  run c (init store high) es = (st', outs) ->
  (emitted_for b outs <-> ((In b store \/ In (EPropose b) es) /\ quorum_arrived c b es)).
Proof. exact qc_iff_quorum. Qed.
Print Assumptions C09_qc_iff_quorum.

(* The fetch path, without the restriction on proposals: when other replicas can provide b
   ([local_get (c_remote c) (b_hash b) = Some b]: sender.RequestBlock succeeds, which is the case as soon as one
   correct replica voted for b), EVERY sequence of stimuli is covered. [becomes_known]: b becomes known by its own
   proposal or by the first proposal handled while a vote naming b (valid or not) waits — CollectVote retries the
   delayed votes through blockchain.Get. *)
Theorem C09_qc_iff_quorum_fetch : forall c, c_patched c = true -> forall b, 2 <= qsize c ->
  Forall (cons b) (c_remote c) -> local_get (c_remote c) (b_hash b) = Some b ->
  forall store high es st' outs,
  Forall (cons b) store -> (high < b_view b)%N -> Forall (ev_ok b) es ->
  run c (init store high) es = (st', outs) ->
  (emitted_for b outs <->
   (becomes_known b (match local_get store (b_hash b) with Some _ => true | None => false end) false es = true
    /\ quorum_arrived c b es)).
Proof. exact qc_iff_quorum_fetch. Qed.
Print Assumptions C09_qc_iff_quorum_fetch.

(* Block availability over time ([run_av]: every stimulus comes with what the other replicas can deliver on a fetch
   at that moment — fetchable from the start, never, only from some point on, not any more later).  For EVERY
   sequence: a certificate for b exists exactly when, by the account [settle] gives of the stimuli alone, b has
   become known and a quorum of distinct valid votes has been counted.  [settle]: a vote counts at once when b is
   known; otherwise it waits for the next proposal and counts if that proposal is b's own or b can be fetched at
   that moment; if it cannot, what waited is dropped — and votes arriving after b became fetchable count again. *)
Theorem C09_qc_iff_quorum_av : forall c, c_patched c = true -> forall b, 2 <= qsize c ->
  forall store high es st' outs,
  Forall (cons b) store -> (high < b_view b)%N -> Forall (av_ok b) es ->
  run_av c (init store high) es = (st', outs) ->
  let kn0 := match local_get store (b_hash b) with Some _ => true | None => false end in
  (emitted_for b outs <-> (fst (settle c b kn0 false [] es) = true /\ Qr c (snd (settle c b kn0 false [] es)))).
Proof. exact qc_iff_quorum_av. Qed.
Print Assumptions C09_qc_iff_quorum_av.

Theorem C09_emitted_verifies_av : forall c, c_patched c = true ->
  forall store high es st' outs, run_av c (init store high) es = (st', outs) ->
  forall o q, In o outs -> In q o -> qc_verifies c (st_store st') q = true.
Proof. exact emitted_verifies_av. Qed.
Print Assumptions C09_emitted_verifies_av.

(* the same per stimulus: the certificate first appears exactly at the first stimulus that completes
   the condition, and not before *)
Theorem C09_qc_first_step : forall c, c_patched c = true -> forall b, 2 <= qsize c ->
  Forall (cons b) (c_remote c) ->
  forall store high es e st' outs o,
  Forall (cons b) store -> (high < b_view b)%N -> Forall (ev_ok b) (es ++ [e]) ->
  props_ok b (In b store) (es ++ [e]) ->
  run c (init store high) (es ++ [e]) = (st', outs ++ [o]) -> length outs = length es ->
  let cond l := (In b store \/ In (EPropose b) l) /\ quorum_arrived c b l in
  ((has_qc b o /\ ~ emitted_for b outs) <-> (cond (es ++ [e]) /\ ~ cond es)).
Proof. exact qc_first_step. Qed.
Print Assumptions C09_qc_first_step.

(* hostile votes are inert: putting further votes of any kind anywhere into a sequence never removes
   the certificate; applied to every prefix: never delays it either *)
Theorem C09_hostile_votes_inert : forall c, c_patched c = true -> forall b, 2 <= qsize c ->
  Forall (cons b) (c_remote c) ->
  forall store high es es' st1 o1 st2 o2,
  Forall (cons b) store -> (high < b_view b)%N -> Forall (ev_ok b) es -> props_ok b (In b store) es ->
  inserted es es' ->
  run c (init store high) es = (st1, o1) -> run c (init store high) es' = (st2, o2) ->
  emitted_for b o1 -> emitted_for b o2.
Proof. exact hostile_votes_inert. Qed.
Print Assumptions C09_hostile_votes_inert.

(* any arrival order / any completion order of the verification goroutines *)
Theorem C09_order_irrelevant : forall c, c_patched c = true -> forall b, 2 <= qsize c ->
  Forall (cons b) (c_remote c) ->
  forall store high es es' st1 o1 st2 o2,
  Forall (cons b) store -> (high < b_view b)%N -> Forall (ev_ok b) es ->
  props_ok b (In b store) es -> props_ok b (In b store) es' -> Permutation es es' ->
  run c (init store high) es = (st1, o1) -> run c (init store high) es' = (st2, o2) ->
  (emitted_for b o1 <-> emitted_for b o2).
Proof. exact order_irrelevant. Qed.
Print Assumptions C09_order_irrelevant.

(* the collector's ViewStates also holds the highest timeout certificate; a move of the high TC (any view: the
   block's, later, earlier; at any position) is a stimulus that changes nothing — only the high QC bounds which
   votes still count.  The theorems above quantify over sequences containing such stimuli ([ev_ok] puts no
   condition on them); removing them all leaves the final state and every other stimulus' certificates. *)
Theorem C09_high_tc_irrelevant : forall c es st,
  run c st (no_tc es) = (fst (run c st es), drop_tc_outs es (snd (run c st es))) /\
  Forall2 (fun e o => is_tc e = true -> o = []) es (snd (run c st es)).
Proof. exact high_tc_irrelevant. Qed.
Print Assumptions C09_high_tc_irrelevant.

(* ---- Kauri tree node ---- *)

(* along every run (contributions of any kind in any order, timers, new rounds) the aggregate held,
   every partial aggregate handed to the parent and every certificate put on the event loop verify
   for the node's current block; premise: the replica's own vote is genuine *)
Theorem C09_kauri_emitted_verify : forall c es st, kinv c st -> Forall (kev_ok c) es ->
  Forall (fun p => kinv c (fst p) /\ Forall (out_ok c (ks_hash (fst p))) (snd p)) (ktrace c st es).
Proof. exact kauri_emitted_verify. Qed.
Print Assumptions C09_kauri_emitted_verify.

(* a certificate is emitted exactly by an accepted contribution (current view, block available,
   verifying, not overlapping the aggregate) that brings the aggregate to a quorum; it is the
   contribution joined with the aggregate *)
Theorem C09_kauri_qc_iff_quorum : forall c st id v sg q, kinv c st ->
  (emits_qc (snd (kstep c st (KContrib id v sg))) q <->
   exists l a, accepted c st v sg l a /\ kqsize c <= length l + length a /\
               q = mkQC (ks_hash st) (ks_view st) (l ++ a)).
Proof. exact kauri_qc_iff_quorum. Qed.
Print Assumptions C09_kauri_qc_iff_quorum.

Theorem C09_kauri_no_qc_otherwise : forall c st e q, (forall id v sg, e <> KContrib id v sg) ->
  ~ emits_qc (snd (kstep c st e)) q.
Proof. exact kauri_no_qc_otherwise. Qed.
Print Assumptions C09_kauri_no_qc_otherwise.

(* ([kverify_c]: with BLS12 the empty aggregate — no participants, identity point — also verifies; it carries nothing) *)
Theorem C09_kauri_verifies_means : forall c h l, kverify_c c h l = true ->
  NoDup (map s_lab l) /\ forall s, In s l -> In (s_lab s) (kc_members c) /\ s_real s = Some (s_lab s, h).
Proof. exact kverify_genuine. Qed.
Print Assumptions C09_kauri_verifies_means.

(* ---- non-vacuity ---- *)
Definition ex_G (i h : N) : ssig := mkS i (Some (i, h)).
Definition ex_cfg (p : bool) : cfg := mkCfg [1;2;3;4]%N [] p.
Definition ex_b : binfo := mkB 2%N 5%N.
(* votes of 1 and 2, a multi-signature {4,1}, then 4 and 3; block 2 (view 5) known, high QC at view 3 *)
Definition ex_es : list event :=
  [EHigh (mkB 7 3); EVote (mkVote 2 [ex_G 1 2]); EVote (mkVote 2 [ex_G 2 2]);
   EVote (mkVote 2 [ex_G 4 2; ex_G 1 2]); EVote (mkVote 2 [ex_G 4 2]); EVote (mkVote 2 [ex_G 3 2])]%N.

(* the hypotheses of C09_qc_iff_quorum hold for this sequence and the certificate appears with the vote of 4 *)
Example C09_nonvacuous :
  snd (run (ex_cfg true) (init [mkB 1 0; ex_b]%N 0%N) ex_es)
  = [[]; []; []; []; [mkQC 2 5 [ex_G 1 2; ex_G 2 2; ex_G 4 2]]; []]%N /\
  2 <= qsize (ex_cfg true) /\ Forall (ev_ok ex_b) ex_es /\ props_ok ex_b (In ex_b [mkB 1 0; ex_b]%N) ex_es /\
  quorum_arrived (ex_cfg true) ex_b ex_es.
Proof.
  split; [vm_compute; reflexivity|]. split; [vm_compute; lia|]. split.
  - repeat constructor; try (intros E; vm_compute in E; discriminate).
  - split; [exact I|]. exists [1;2;4]%N. split; [repeat constructor; cbn; intuition discriminate|].
    split; [vm_compute; lia|]. intros i [E|[E|[E|[]]]]; subst i.
    + exists (mkVote 2 [ex_G 1 2])%N. split; [cbn; tauto|]. repeat split; cbn; tauto.
    + exists (mkVote 2 [ex_G 2 2])%N. split; [cbn; tauto|]. repeat split; cbn; tauto.
    + exists (mkVote 2 [ex_G 4 2])%N. split; [cbn; tauto|]. repeat split; cbn; tauto.
Qed.

(* the collector as it is in the tree without the patch: the same sequence never yields a certificate
   (the multi-signature is filed under signer 4, Combine then reports overlapping signatures) *)
Example C09_unpatched_wedged :
  concat (snd (run (ex_cfg false) (init [mkB 1 0; ex_b]%N 0%N) ex_es)) = [] /\
  map (fun p => (fst p, map v_signer (snd p))) (st_verified (fst (run (ex_cfg false) (init [mkB 1 0; ex_b]%N 0%N) ex_es)))
  = [(2, [1; 2; 4; 3])]%N.
Proof. split; vm_compute; reflexivity. Qed.

(* the fetch path: three votes wait for the unknown block 2, a foreign proposal (block 9) is handled, the votes
   are retried through the fetch and the certificate appears at that stimulus *)
Example C09_fetch_nonvacuous :
  let c := mkCfg [1;2;3;4]%N [ex_b] true in
  let es := [EVote (mkVote 2 [ex_G 1 2]); EVote (mkVote 2 [ex_G 2 2]); EVote (mkVote 2 [ex_G 3 2]); EPropose (mkB 9 4)]%N in
  snd (run c (init [mkB 1 0]%N 0%N) es) = [[]; []; []; [mkQC 2 5 [ex_G 1 2; ex_G 2 2; ex_G 3 2]]]%N /\
  becomes_known ex_b false false es = true /\ local_get (c_remote c) (b_hash ex_b) = Some ex_b.
Proof. repeat split; vm_compute; reflexivity. Qed.

(* availability over time: an early vote waits for block 2, a foreign proposal releases it while nobody can deliver
   the block (the vote is dropped), the block becomes fetchable, three more votes wait and a second foreign proposal
   releases them through the fetch: the certificate appears there, from those three votes *)
Example C09_avail_nonvacuous :
  let c := mkCfg [1;2;3;4]%N [] true in
  let es := [([], EVote (mkVote 2 [ex_G 1 2])); ([], EPropose (mkB 9 4));
             ([ex_b], EVote (mkVote 2 [ex_G 2 2])); ([ex_b], EVote (mkVote 2 [ex_G 3 2])); ([ex_b], EVote (mkVote 2 [ex_G 4 2]));
             ([ex_b], EPropose (mkB 8 6))]%N in
  snd (run_av c (init [mkB 1 0]%N 0%N) es) = [[]; []; []; []; []; [mkQC 2 5 [ex_G 2 2; ex_G 3 2; ex_G 4 2]]]%N /\
  settle c ex_b false false [] es = (true, [2;3;4]%N).
Proof. split; vm_compute; reflexivity. Qed.

(* Kauri: node 1 (root of n = 4, own vote) merges {2} then {3,4}: the second one completes the quorum *)
Example C09_kauri_nonvacuous :
  let c := mkKC [1;2;3;4]%N [2;3;4]%N false [9]%N false in
  snd (krun c kinit [KBegin 9 5 [ex_G 1 9]; KContrib 2 5 (Some [ex_G 2 9]); KContrib 2 5 (Some [ex_G 2 9]);
                     KContrib 3 5 (Some [ex_G 3 9; ex_G 4 9])]%N)
  = [[]; []; []; [OQC (mkQC 9 5 [ex_G 3 9; ex_G 4 9; ex_G 2 9; ex_G 1 9])]]%N.
Proof. vm_compute. reflexivity. Qed.

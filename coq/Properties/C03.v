(* C03 — an honest replica votes once per view, only for well-formed leader proposals.
   Statements about VoterModel (the repaired Voter.Verify, fixes/C03-voter-parent-qc.patch) for
   every leader function, replica id, certificate mode, starting state and every sequence of
   handler invocations with arbitrary (Byzantine-crafted) proposals and arbitrary verdicts of the
   components outside the slice.  Only [exact] and Print Assumptions. *)
From Coq Require Import Sorted.
From HS Require Import Base.Prelude Voter.VoterModel Voter.VoterProofs.
Open Scope N_scope.

(* Every signed vote is for a proposal that was put before the replica, came from the leader of
   the block's view, carries a certificate that verifies, satisfies the ruleset's vote rule, has
   the certified block as parent and a view above the certified block's view. *)
Theorem C03_vote_wellformed :
  forall (leader : view -> rid) (self : rid) (agg : bool) st es st' out p,
    run leader self agg st es = (st', out) -> In (SignVote p) out ->
    (p_sender p = leader (p_view p) /\ p_qc_ok p = true /\ p_agg_ok p = true /\ p_rule p = true /\
     p_parent p = p_qc_hash p /\ exists bv, p_qc_block_view p = Some bv /\ bv < p_view p)
    /\ offered leader self es p.
Proof. exact vote_wellformed. Qed.
Print Assumptions C03_vote_wellformed.

(* Vote views strictly increase along the run (hence no view is voted in twice) and all lie above
   the view last voted in before the run. *)
Theorem C03_votes_increasing :
  forall (leader : view -> rid) (self : rid) (agg : bool) st es st' out,
    run leader self agg st es = (st', out) ->
    StronglySorted N.lt (vote_views out) /\ NoDup (vote_views out) /\
    Forall (fun v => last_voted st < v) (vote_views out).
Proof. exact votes_increasing. Qed.
Print Assumptions C03_votes_increasing.

(* At most one block per view: of two votes signed in one run the later is for a higher view. *)
Theorem C03_one_vote_per_view :
  forall (leader : view -> rid) (self : rid) (agg : bool) st es st' out l1 p l2 q l3,
    run leader self agg st es = (st', out) -> out = l1 ++ SignVote p :: l2 ++ SignVote q :: l3 ->
    p_view p < p_view q.
Proof. exact one_vote_per_view. Qed.
Print Assumptions C03_one_vote_per_view.

(* After anything was signed for a view (a timeout of that view, its aggregate-rule message, or a
   vote), every later vote is for a strictly higher view: no vote in a view already timed out,
   nor in an earlier one. *)
Theorem C03_no_vote_after_timeout :
  forall (leader : view -> rid) (self : rid) (agg : bool) st es st' out l1 x l2 p,
    run leader self agg st es = (st', out) -> out = l1 ++ x :: l2 -> In (SignVote p) l2 ->
    sig_view x < p_view p.
Proof. exact no_vote_after_timeout. Qed.
Print Assumptions C03_no_vote_after_timeout.

(* Invariant: lastVotedView never decreases and dominates every view voted or timed out in. *)
Theorem C03_last_voted_dominates :
  forall (leader : view -> rid) (self : rid) (agg : bool) st es st' out,
    run leader self agg st es = (st', out) ->
    last_voted st <= last_voted st' /\ forall s, In s out -> sig_view s <= last_voted st'.
Proof. exact last_voted_dominates. Qed.
Print Assumptions C03_last_voted_dominates.

(* Whether a signed vote could be handed to the network (Aggregate / Disseminate returning an
   error or not) changes neither what is signed nor the state: a failed send never reopens a view. *)
Theorem C03_send_result_irrelevant :
  forall (leader : view -> rid) (self : rid) (agg : bool) es st b,
    run leader self agg st (map (set_sent b) es) = run leader self agg st es.
Proof. exact run_sent_irrelevant. Qed.
Print Assumptions C03_send_result_irrelevant.

(* The same four statements when the leader rotation changes during the run (membership growing
   after the replica was created, rotations depending on state): each handler invocation is paired
   with the rotation as it answers at that moment. *)
Theorem C03_vote_wellformed_var :
  forall (self : rid) (agg : bool) st (l : list ((view -> rid) * event)) st' out p,
    run_var self agg st l = (st', out) -> In (SignVote p) out ->
    exists ld e, In (ld, e) l /\
      (p_sender p = ld (p_view p) /\ p_qc_ok p = true /\ p_agg_ok p = true /\ p_rule p = true /\
       p_parent p = p_qc_hash p /\ exists bv, p_qc_block_view p = Some bv /\ bv < p_view p) /\
      (ext_of e = Some p \/
       exists o, own_of e = Some o /\ p = mk_own self (p_view p) o /\ ld (p_view p) = self).
Proof. exact vote_wellformed_var. Qed.
Print Assumptions C03_vote_wellformed_var.

Theorem C03_votes_increasing_var :
  forall (self : rid) (agg : bool) st (l : list ((view -> rid) * event)) st' out,
    run_var self agg st l = (st', out) ->
    StronglySorted N.lt (vote_views out) /\ NoDup (vote_views out) /\
    Forall (fun v => last_voted st < v) (vote_views out).
Proof. exact votes_increasing_var. Qed.
Print Assumptions C03_votes_increasing_var.

Theorem C03_no_vote_after_timeout_var :
  forall (self : rid) (agg : bool) st (l : list ((view -> rid) * event)) st' out l1 x l2 p,
    run_var self agg st l = (st', out) -> out = l1 ++ x :: l2 -> In (SignVote p) l2 ->
    sig_view x < p_view p.
Proof. exact no_vote_after_signing_var. Qed.
Print Assumptions C03_no_vote_after_timeout_var.

Theorem C03_last_voted_dominates_var :
  forall (self : rid) (agg : bool) st (l : list ((view -> rid) * event)) st' out,
    run_var self agg st l = (st', out) ->
    last_voted st <= last_voted st' /\ forall s, In s out -> sig_view s <= last_voted st'.
Proof. exact last_voted_dominates_var. Qed.
Print Assumptions C03_last_voted_dominates_var.

(* The tree without the repair does not satisfy the first statement. *)
Theorem C03_unpatched_verify_refuted :
  exists es st' out p,
    run_unpatched rr4 1 false init_state es = (st', out) /\ In (SignVote p) out /\
    p_parent p <> p_qc_hash p.
Proof. exact unpatched_refuted. Qed.
Print Assumptions C03_unpatched_verify_refuted.

Theorem C03_unpatched_verify_refuted_view :
  exists es st' out p bv,
    run_unpatched rr4 1 false (mkS 0 7 None) es = (st', out) /\ In (SignVote p) out /\
    p_qc_block_view p = Some bv /\ p_view p <= bv.
Proof. exact unpatched_refuted_view. Qed.
Print Assumptions C03_unpatched_verify_refuted_view.

(* Non-vacuity: replica 1 of 4 (round-robin: it leads view 4).  It votes for the leader's block of
   view 1, is moved to view 2 by a TC, signs the timeout of view 2, refuses the block of view 2
   that arrives afterwards, votes in view 3, refuses an equivocating second block for view 3, and
   on a QC for view 3 becomes leader of view 4 and votes for its own proposal. *)
Definition ex_good1 : proposal := mkP 2 11 1 0 0 0 true true (Some 0) true.
Definition ex_late2 : proposal := mkP 3 12 2 11 11 1 true true (Some 1) true.
Definition ex_good3 : proposal := mkP 4 13 3 11 11 1 true true (Some 1) true.
Definition ex_equiv3 : proposal := mkP 4 14 3 11 11 1 true true (Some 1) true.
Definition ex_own4 : ownprop := mkO 15 13 13 3 true true (Some 3) true.
Definition ex_events : list event :=
  [ EvProposal ex_good1 None false;       (* vote view 1; the vote cannot be sent *)
    EvNewView true 1 None true;          (* TC for view 1: enter view 2 *)
    EvTimeout 2 true 0 None true;        (* local timeout in view 2: sign timeout 2 *)
    EvProposal ex_late2 None true;       (* leader's block for view 2 arrives late: refused *)
    EvNewView true 2 None true;          (* TC for view 2: enter view 3 *)
    EvProposal ex_good3 None true;       (* vote view 3 *)
    EvProposal ex_equiv3 None true;      (* equivocating second block for view 3: refused *)
    EvNewView true 3 (Some ex_own4) false ].  (* QC for view 3: enter view 4 as leader, vote own block *)
Example C03_run_nonvacuous :
  run rr4 1 false init_state ex_events
  = (mkS 4 4 None,
     [SignVote ex_good1; SignTimeout 2; SignVote ex_good3; SignVote (mk_own 1 4 ex_own4)]).
Proof. vm_compute. reflexivity. Qed.

(* the repaired Verify refuses both defect witnesses *)
Example C03_repaired_refuses :
  snd (run rr4 1 false init_state [EvProposal bad_parent None true]) = [] /\
  snd (run rr4 1 false (mkS 0 7 None) [EvProposal bad_view None true]) = [].
Proof. vm_compute. split; reflexivity. Qed.

(* the vote for view 1 could not be sent; the leader then equivocates with a second block for
   view 1 and retransmits the first: nothing more is signed *)
Definition ex_equiv1 : proposal := mkP 2 12 1 0 0 0 true true (Some 0) true.
Example C03_failed_send_keeps_view_closed :
  run rr4 1 false init_state
      [EvProposal ex_good1 None false; EvProposal ex_equiv1 None true; EvProposal ex_good1 None true]
  = (mkS 1 1 None, [SignVote ex_good1]).
Proof. vm_compute. reflexivity. Qed.

(* C07 — views and certified state only move forward, and only on evidence.
   Only statements closed by [exact] and their assumptions, plus non-vacuity examples.

   The theorems are about the executable model coq/Pacemaker/PacemakerModel.v of advanceView,
   VerifySyncInfo (both timeout rules), UpdateHighQC, UpdateHighTC, NextView and the committer's
   UpdateCommittedBlock walk.  A replica's history is ANY list of actions: sync infos with any
   combination of present parts, any stated views (forged, relabelled, stale, replayed) and any
   verification verdicts; commit decisions over any ancestor chain.

   "verdict true => a quorum of distinct replicas really signed" is C02's soundness theorem for
   verify_qc / verify_tc / verify_aggqc and is not redone here; the correspondence harness checks it
   on the implementation from the ground truth of real signatures at every view change.
   [action_wf] (used by the high-QC clause only) is the one fact about a TRUE QC verdict the pacemaker
   relies on: the stated view is the certified block's view (C02, fixes/C02-qc-view.patch). *)
From HS Require Import Base.Prelude Pacemaker.PacemakerModel Pacemaker.PacemakerProofs.
From HS Require Cert.CertModel.
From HS Require Import Pacemaker.PacemakerCertLink.
Open Scope N_scope.

(* --- nothing ever decreases ------------------------------------------------------------------ *)

(* across any history: view, high-QC view, high-TC view, committed view *)
Theorem C07_monotone : forall r l st st' evs,
  Forall action_wf l -> run r st l = (st', evs) ->
  st_view st <= st_view st' /\ st_hq_view st <= st_hq_view st' /\
  st_htc st <= st_htc st' /\ st_cview st <= st_cview st'.
Proof. exact run_monotone. Qed.
Print Assumptions C07_monotone.

(* view, high-TC view and committed view: whatever the certificates and verdicts are *)
Theorem C07_monotone_unconditional : forall r l st st' evs,
  run r st l = (st', evs) ->
  st_view st <= st_view st' /\ st_htc st <= st_htc st' /\ st_cview st <= st_cview st'.
Proof. exact run_monotone_unconditional. Qed.
Print Assumptions C07_monotone_unconditional.

(* the premise of C07_monotone is needed: if a QC can verify under a stated view that is not its block's
   view (the tree before fixes/C02-qc-view.patch), the high QC's view can go down *)
Theorem C07_highqc_view_decreases_without_label_check_refuted :
  exists r st a st' evs, step r st a = (st', evs) /\ st_hq_view st' < st_hq_view st.
Proof. exact hq_view_can_decrease_without_consistency. Qed.
Print Assumptions C07_highqc_view_decreases_without_label_check_refuted.

(* the premise [action_wf] is what C02's model of the repaired VerifyQuorumCert guarantees: a QC that
   [CertModel.verify_qc] accepts (for any configuration and any block store that holds the genesis block
   with view 0) states the view of its block *)
Theorem C07_verified_qc_states_block_view : forall (c : CertModel.cfg) (st : CertModel.store),
  (exists b, st (CertModel.c_genesis c) = Some b /\ CertModel.bi_view b = 0) ->
  forall q, q_ok (pm_qc c st q) = true -> qc_consistent (pm_qc c st q).
Proof. exact verified_qc_consistent. Qed.
Print Assumptions C07_verified_qc_states_block_view.

(* --- the view moves by one, and only on evidence ---------------------------------------------- *)

(* if an action moves the view from v, it moves it to v+1, the action is an advanceView call, and its
   sync info contains a certificate the rule looks at, with stated view >= v and verdict true *)
Theorem C07_advance_needs_evidence : forall r st a st' evs,
  1 <= st_view st -> step r st a = (st', evs) -> st_view st' <> st_view st ->
  exists si, a = AAdvance si /\ st_view st' = st_view st + 1 /\ evidence r si (st_view st) = true.
Proof. exact advance_needs_evidence. Qed.
Print Assumptions C07_advance_needs_evidence.

(* history form: every view w the replica has left was left on a verified certificate for a view >= w *)
Theorem C07_every_view_left_on_evidence : forall r l st st' evs,
  1 <= st_view st -> run r st l = (st', evs) ->
  forall w, st_view st <= w -> w < st_view st' ->
  exists si, In (AAdvance si) l /\ evidence r si w = true.
Proof. exact run_needs_evidence. Qed.
Print Assumptions C07_every_view_left_on_evidence.

(* --- stale, invalid, forged, replayed ---------------------------------------------------------- *)

(* a sync info in which nothing verifies leaves the whole pacemaker state unchanged and emits nothing *)
Theorem C07_invalid_inert : forall r st si,
  1 <= st_view st -> nothing_verifies si = true -> step r st (AAdvance si) = (st, []).
Proof. exact invalid_inert. Qed.
Print Assumptions C07_invalid_inert.

(* stale: no verified certificate for the current view or later => the view stays, no ViewChangeEvent *)
Theorem C07_stale_no_move : forall r st si st' evs,
  1 <= st_view st -> evidence r si (st_view st) = false -> step r st (AAdvance si) = (st', evs) ->
  st_view st' = st_view st /\ view_changes evs = [].
Proof. exact no_evidence_no_move. Qed.
Print Assumptions C07_stale_no_move.

(* replays and far-ahead certificates: the view never exceeds the highest verified stated view by more than 1 *)
Theorem C07_view_bounded_by_certificates : forall r l st st' evs,
  1 <= st_view st -> run r st l = (st', evs) ->
  st_view st' <= N.max (st_view st) (1 + max_list (map (cert_view_max r) l)).
Proof. exact run_view_bound. Qed.
Print Assumptions C07_view_bounded_by_certificates.

(* what UpdateHighQC installs is the offered certificate, only when its block is strictly higher *)
Theorem C07_high_qc_update : forall st q,
  let st' := fst (update_high_qc st q) in
  (st_hq_hash st' = st_hq_hash st /\ st_hq_view st' = st_hq_view st) \/
  (exists bv, q_bview q = Some bv /\ st_hq_view st < bv /\ st_hq_hash st' = q_hash q /\ st_hq_view st' = q_label q).
Proof. exact update_high_qc_spec. Qed.
Print Assumptions C07_high_qc_update.

(* --- every view change is signalled ------------------------------------------------------------ *)

Theorem C07_signals_every_change : forall r st a st' evs,
  step r st a = (st', evs) ->
  map fst (view_changes evs) = if st_view st' =? st_view st then [] else [st_view st'].
Proof. exact signals_every_change. Qed.
Print Assumptions C07_signals_every_change.

(* history form: the ViewChangeEvents announce exactly the views entered, each once, in order *)
Theorem C07_signals_history : forall r l st st' evs,
  run r st l = (st', evs) ->
  map fst (view_changes evs) = views_from (st_view st + 1) (N.to_nat (st_view st' - st_view st)).
Proof. exact run_signals. Qed.
Print Assumptions C07_signals_history.

(* --- committed block and high TC ---------------------------------------------------------------- *)

Theorem C07_commit_decision : forall r st ch st' evs,
  step r st (ACommit ch) = (st', evs) ->
  (st_cview st' = st_cview st /\ evs = []) \/
  (exists v rest, ch = v :: rest /\ st_cview st < v /\ st_cview st' = v /\ last (commits evs) 0 = v /\
                  Forall (fun x => st_cview st < x) (commits evs)).
Proof. exact commit_decision. Qed.
Print Assumptions C07_commit_decision.

(* the high TC moves only upwards and only to the view of a TC whose verdict is true (advanceView remembers the
   sync info's verified TC, also when it is too old to move the view) or of a direct UpdateHighTC call *)
Theorem C07_high_tc_moves_only_to_verified_tc : forall r st a st' evs,
  step r st a = (st', evs) -> st_htc st' <> st_htc st ->
  st_htc st < st_htc st' /\
  ((exists v, a = AHighTC v /\ st_htc st' = v) \/
   (exists si t, a = AAdvance si /\ si_tc si = Some t /\ t_ok t = true /\ st_htc st' = t_view t)).
Proof. exact high_tc_moves_only_to_verified_tc. Qed.
Print Assumptions C07_high_tc_moves_only_to_verified_tc.

(* --- non-vacuity -------------------------------------------------------------------------------- *)

(* the initial state satisfies the premise 1 <= view *)
Example C07_init_view : 1 <= st_view init_state.
Proof. exact init_view_pos. Qed.

(* a history that moves: a genuine QC for view 1 (block 2), a relabelled QC that does not verify, a TC for
   view 2, a replay of that TC (by then stale: no move), an AggQC under the simple rule (not looked at),
   a commit decision over the chain of views 2 <- 1 <- 0 *)
Example C07_history :
  run Simple init_state
    [ AAdvance (mkSI (Some (mkQC 2 1 true (Some 1))) None None);
      AAdvance (mkSI (Some (mkQC 2 7 false (Some 1))) None None);
      AAdvance (mkSI None (Some (mkTC 2 true)) None);
      AAdvance (mkSI None (Some (mkTC 2 true)) None);
      AAdvance (mkSI None None (Some (mkAgg 9 true (mkQC 2 1 true (Some 1)))));
      ACommit [2; 1; 0] ]
  = (mkSt 3 2 1 2 2, [EViewChange 2 false; EViewChange 3 true; ECommit 1; ECommit 2]).
Proof. vm_compute. reflexivity. Qed.

Example C07_history_wf :
  Forall action_wf
    [ AAdvance (mkSI (Some (mkQC 2 1 true (Some 1))) None None);
      AAdvance (mkSI None (Some (mkTC 2 true)) None);
      AHighQC (mkQC 5 4 true (Some 4)) ].
Proof.
  repeat constructor; cbn; unfold qc_consistent; cbn; intros; try discriminate;
    repeat match goal with H : Some _ = Some _ |- _ => inversion H; clear H; subst end; cbn in *;
    try congruence.
Qed.

(* the aggregate rule does not look at a plain QC (lead (b): a liveness matter, C05) but moves on an AggQC *)
Example C07_aggregate_rule :
  run Aggregate init_state
    [ AAdvance (mkSI (Some (mkQC 2 1 true (Some 1))) None None);
      AAdvance (mkSI None None (Some (mkAgg 1 true (mkQC 2 1 true (Some 1))))) ]
  = (mkSt 2 2 1 0 0, [EViewChange 2 true]).
Proof. vm_compute. reflexivity. Qed.

(* evidence / nothing_verifies are satisfiable and distinguish *)
Example C07_evidence_examples :
  evidence Simple (mkSI (Some (mkQC 2 5 true (Some 5))) None None) 5 = true /\
  evidence Simple (mkSI (Some (mkQC 2 5 true (Some 5))) None None) 6 = false /\
  evidence Aggregate (mkSI (Some (mkQC 2 5 true (Some 5))) None None) 5 = false /\
  nothing_verifies (mkSI (Some (mkQC 2 9 false None)) (Some (mkTC 9 false)) None) = true.
Proof. vm_compute. auto. Qed.

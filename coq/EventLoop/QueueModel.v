(* C14 — executable model of core/eventloop/queue.go (bounded ring buffer).
   Definitions only.  Mirrors the Go code field by field and branch by branch:
     entries []any  -> list (option A)     (None = Go nil)
     head, tail int -> Z, -1 when the ring is empty
   [push] is the REPAIRED push (fixes/C14-queue-dropped.patch: the dropped entry is read
   before head is advanced); [push_current] is the push of the unpatched tree, kept so that
   the defect can be stated and refuted in Coq. *)
From HS Require Import Base.Prelude.
Open Scope Z_scope.

Section Queue.
Context {A : Type}.

Record queue := mkQ { entries : list (option A); head : Z; tail : Z }.

Definition qcap (q : queue) : Z := Z.of_nat (length (entries q)).

(* entries[i]; the invariant keeps every index used below in range (QueueProofs.push_in_range) *)
Definition getE (l : list (option A)) (i : Z) : option A := nth (Z.to_nat i) l None.

Fixpoint upd_nat (l : list (option A)) (i : nat) (x : option A) : list (option A) :=
  match l, i with
  | [], _ => []
  | _ :: r, O => x :: r
  | y :: r, S k => y :: upd_nat r k x
  end.
Definition setE (l : list (option A)) (i : Z) (x : option A) := upd_nat l (Z.to_nat i) x.

(* newQueue: panics on capacity 0 *)
Definition new_queue (capacity : nat) : result queue :=
  match capacity with
  | O => Panic
  | _ => Ok (mkQ (repeat None capacity) (-1) (-1))
  end.

(* the body of push, parametrised by where the dropped entry is read *)
Definition push_gen (read_before_advance : bool) (q : queue) (entry : option A) : queue * option A :=
  let pos := tail q + 1 in
  let pos := if pos =? qcap q then 0 else pos in
  let '(hd1, dropped) :=
    if pos =? head q then
      let h := head q + 1 in
      let h := if h =? qcap q then 0 else h in
      (h, if read_before_advance then getE (entries q) (head q) else getE (entries q) h)
    else (head q, None) in
  let es := setE (entries q) pos entry in
  let hd2 := if hd1 =? -1 then pos else hd1 in
  (mkQ es hd2 pos, dropped).

Definition push := push_gen true.            (* repaired *)
Definition push_current := push_gen false.   (* as in the unpatched tree *)

Definition pop (q : queue) : queue * (option A * bool) :=
  if head q =? -1 then (q, (None, false))
  else
    let entry := getE (entries q) (head q) in
    if head q =? tail q then (mkQ (entries q) (-1) (-1), (entry, true))
    else
      let h := head q + 1 in
      let h := if h =? qcap q then 0 else h in
      (mkQ (entries q) h (tail q), (entry, true)).

Definition qlen (q : queue) : Z :=
  if head q =? -1 then 0
  else if head q <=? tail q then tail q - head q + 1
  else qcap q - head q + tail q + 1.

(* ---- specification side: the ring read as a FIFO list, oldest first ---- *)
Definition wrap (c i : Z) : Z := if i <? c then i else i - c.
Definition abs (q : queue) : list (option A) :=
  map (fun k => getE (entries q) (wrap (qcap q) (head q + Z.of_nat k))) (seq 0 (Z.to_nat (qlen q))).

(* reference bounded FIFO of capacity c: drops (and reports) the oldest element when full *)
Definition ref_push (c : nat) (l : list (option A)) (x : option A) : list (option A) * option A :=
  if (length l <? c)%nat then (l ++ [x], None)
  else (tl l ++ [x], hd None l).
Definition ref_pop (l : list (option A)) : list (option A) * (option A * bool) :=
  match l with
  | [] => ([], (None, false))
  | a :: r => (r, (a, true))
  end.

(* operation sequences and their observable outputs *)
Inductive qop := QPush (x : option A) | QPop | QLen.
Inductive qout := OPushed (dropped : option A) | OPopped (x : option A) (ok : bool) | OLen (n : Z).

Definition q_step (pushf : queue -> option A -> queue * option A) (q : queue) (o : qop) : queue * qout :=
  match o with
  | QPush x => let '(q', d) := pushf q x in (q', OPushed d)
  | QPop => let '(q', (x, ok)) := pop q in (q', OPopped x ok)
  | QLen => (q, OLen (qlen q))
  end.
Fixpoint q_run (pushf : queue -> option A -> queue * option A) (q : queue) (ops : list qop) : list qout :=
  match ops with
  | [] => []
  | o :: r => let '(q', out) := q_step pushf q o in out :: q_run pushf q' r
  end.

Definition ref_step (c : nat) (l : list (option A)) (o : qop) : list (option A) * qout :=
  match o with
  | QPush x => let '(l', d) := ref_push c l x in (l', OPushed d)
  | QPop => let '(l', (x, ok)) := ref_pop l in (l', OPopped x ok)
  | QLen => (l, OLen (Z.of_nat (length l)))
  end.
Fixpoint ref_run (c : nat) (l : list (option A)) (ops : list qop) : list qout :=
  match ops with
  | [] => []
  | o :: r => let '(l', out) := ref_step c l o in out :: ref_run c l' r
  end.

(* ---- the wake-up signal of the queue (readyChan) ----
   push ends with a non-blocking send on readyChan; ready() hands the channel to the consumer.
   REPAIRED (fixes/C14-ready-signal-not-lost.patch, [buffered = true]): the channel has one slot, so a
   push leaves a token behind unless one is already there, and the token stays until it is received.
   Unpatched tree ([buffered = false]): the channel is unbuffered, so with no receiver waiting at that
   very moment the send is dropped and nothing is left behind.  [SPoll] = a non-blocking receive. *)
Inductive sop := SOp (o : qop) | SPoll.
Inductive sout := SOut (o : qout) | SPolled (got : bool).
Definition s_step (buffered : bool) (s : queue * bool) (o : sop) : (queue * bool) * sout :=
  match o with
  | SOp o' =>
      let '(q', out) := q_step push (fst s) o' in
      ((q', match o' with QPush _ => buffered || snd s | _ => snd s end), SOut out)
  | SPoll => ((fst s, false), SPolled (snd s))
  end.
Fixpoint s_run (buffered : bool) (s : queue * bool) (ops : list sop) : list sout :=
  match ops with
  | [] => []
  | o :: r => let '(s', out) := s_step buffered s o in out :: s_run buffered s' r
  end.

End Queue.
Arguments sop A : clear implicits.
Arguments sout A : clear implicits.
Arguments queue A : clear implicits.
Arguments qop A : clear implicits.
Arguments qout A : clear implicits.

(* C14 — proofs about the ring buffer model: it refines a bounded FIFO list for every
   capacity >= 1 and every operation sequence (wrap-around included). *)
From Coq Require Import ZifyBool ZifyNat.
From HS Require Import Base.Prelude EventLoop.QueueModel.
Open Scope Z_scope.

Section QueueProofs.
Context {A : Type}.
Notation queue := (queue A).

Definition inv (q : queue) : Prop :=
  1 <= qcap q /\
  ((head q = -1 /\ tail q = -1) \/ (0 <= head q < qcap q /\ 0 <= tail q < qcap q)).

(* ---------- list plumbing ---------- *)
Lemma upd_nat_length : forall (l : list (option A)) i x, length (upd_nat l i x) = length l.
Proof. induction l; destruct i; simpl; intros; auto. Qed.

Lemma upd_nat_nth : forall (l : list (option A)) i j x d, (i < length l)%nat ->
  nth j (upd_nat l i x) d = if Nat.eqb j i then x else nth j l d.
Proof.
  induction l; simpl; intros i j x d H; [lia|].
  destruct i, j; simpl; auto. apply IHl. lia.
Qed.

Lemma setE_length : forall (l : list (option A)) i x, length (setE l i x) = length l.
Proof. intros. apply upd_nat_length. Qed.

Lemma getE_setE : forall (l : list (option A)) i j x,
  0 <= i < Z.of_nat (length l) -> 0 <= j ->
  getE (setE l i x) j = if j =? i then x else getE l j.
Proof.
  intros. unfold getE, setE. rewrite upd_nat_nth by lia.
  destruct (Nat.eqb_spec (Z.to_nat j) (Z.to_nat i)); destruct (Z.eqb_spec j i); auto; lia.
Qed.

Lemma abs_length : forall q : queue, length (abs q) = Z.to_nat (qlen q).
Proof. intros. unfold abs. now rewrite map_length, seq_length. Qed.

Lemma nth_map_seq : forall (f : nat -> option A) n k d, (k < n)%nat -> nth k (map f (seq 0 n)) d = f k.
Proof.
  intros. rewrite nth_indep with (d' := f O) by (rewrite map_length, seq_length; auto).
  rewrite map_nth. rewrite seq_nth by auto. reflexivity.
Qed.

Lemma abs_nth : forall (q : queue) k, (k < Z.to_nat (qlen q))%nat ->
  nth k (abs q) None = getE (entries q) (wrap (qcap q) (head q + Z.of_nat k)).
Proof. intros. unfold abs. now rewrite nth_map_seq. Qed.

Lemma abs_intro : forall (q : queue) (L : list (option A)),
  length L = Z.to_nat (qlen q) ->
  (forall k, (k < length L)%nat -> nth k L None = getE (entries q) (wrap (qcap q) (head q + Z.of_nat k))) ->
  abs q = L.
Proof.
  intros q L HL H. apply nth_ext with (d := None) (d' := None).
  - now rewrite abs_length.
  - intros k Hk. rewrite abs_length in Hk. rewrite abs_nth by auto. symmetry. apply H. lia.
Qed.

(* ---------- len ---------- *)
Lemma qlen_range : forall q : queue, inv q -> 0 <= qlen q <= qcap q.
Proof.
  intros q [Hc H]. unfold qlen.
  destruct (Z.eqb_spec (head q) (-1)); [lia|].
  destruct (Z.leb_spec (head q) (tail q)); lia.
Qed.

Theorem len_spec : forall q : queue, inv q -> qlen q = Z.of_nat (length (abs q)).
Proof. intros q Hq. rewrite abs_length. pose proof (qlen_range q Hq). lia. Qed.

Lemma qlen_zero_iff : forall q : queue, inv q -> (qlen q = 0 <-> head q = -1).
Proof.
  intros q [Hc H]. unfold qlen.
  destruct (Z.eqb_spec (head q) (-1)); [tauto|].
  destruct (Z.leb_spec (head q) (tail q)); lia.
Qed.

(* ---------- new ---------- *)
Theorem new_spec : forall c, (1 <= c)%nat ->
  exists q : queue, new_queue c = Ok q /\ inv q /\ qcap q = Z.of_nat c /\ abs q = [].
Proof.
  intros c Hc. destruct c; [lia|]. eexists. split; [reflexivity|].
  unfold inv, qcap, abs, qlen; cbn [entries head tail]. rewrite repeat_length.
  repeat split; try lia.
Qed.

(* ---------- push ---------- *)
(* every slice index used by push/pop is in range under the invariant, i.e. the Go code does
   not panic with index out of range *)
Lemma push_in_range : forall (q : queue), inv q ->
  let pos := tail q + 1 in let pos := if pos =? qcap q then 0 else pos in
  0 <= pos < qcap q /\
  (pos = head q -> 0 <= head q < qcap q /\
     let h := head q + 1 in let h := if h =? qcap q then 0 else h in 0 <= h < qcap q).
Proof.
  intros q [Hc H]. cbv zeta.
  destruct (Z.eqb_spec (tail q + 1) (qcap q)); destruct (Z.eqb_spec (head q + 1) (qcap q)); lia.
Qed.

Theorem push_spec : forall (q : queue) (x : option A), inv q ->
  let '(q', d) := push q x in
  inv q' /\ qcap q' = qcap q /\
  (qlen q < qcap q -> abs q' = abs q ++ [x] /\ d = None) /\
  (qlen q = qcap q -> abs q' = tl (abs q) ++ [x] /\ d = hd None (abs q)).
Proof.
  intros q x Hq. pose proof (qlen_range q Hq) as Hlen. destruct Hq as [Hc H].
  unfold push, push_gen.
  set (c := qcap q) in *.
  set (pos := if tail q + 1 =? c then 0 else tail q + 1).
  assert (Hpos : 0 <= pos < c) by (subst pos; destruct (Z.eqb_spec (tail q + 1) c); lia).
  assert (Hposdef : (tail q + 1 = c /\ pos = 0) \/ (tail q + 1 <> c /\ pos = tail q + 1))
    by (subst pos; destruct (Z.eqb_spec (tail q + 1) c); lia).
  clearbody pos.
  assert (Hcap' : forall h t, qcap (mkQ (setE (entries q) pos x) h t) = c)
    by (intros; unfold qcap; cbn [entries]; rewrite setE_length; reflexivity).
  assert (Hent : 0 <= pos < Z.of_nat (length (entries q))) by (unfold c, qcap in Hpos; lia).
  destruct (Z.eqb_spec pos (head q)) as [Efull | Enf].
  - (* full: drop the oldest *)
    set (h := if head q + 1 =? c then 0 else head q + 1).
    assert (Hh : 0 <= h < c) by (subst h; destruct (Z.eqb_spec (head q + 1) c); lia).
    assert (Hhdef : (head q + 1 = c /\ h = 0) \/ (head q + 1 <> c /\ h = head q + 1))
      by (subst h; destruct (Z.eqb_spec (head q + 1) c); lia).
    clearbody h.
    destruct (Z.eqb_spec h (-1)); [lia|].
    assert (Hfull : qlen q = c).
    { unfold qlen. destruct (Z.eqb_spec (head q) (-1)); [lia|].
      destruct (Z.leb_spec (head q) (tail q)); fold c; lia. }
    assert (Hlen' : qlen (mkQ (setE (entries q) pos x) h pos) = c).
    { unfold qlen; cbn [head tail]. rewrite Hcap'. destruct (Z.eqb_spec h (-1)); [lia|].
      destruct (Z.leb_spec h pos); lia. }
    split; [|split; [apply Hcap'|split; [lia|]]].
    { split; [rewrite Hcap'; lia|]. right. cbn [head tail]. rewrite Hcap'. lia. }
    intros _. split.
    + apply abs_intro.
      * rewrite app_length. destruct (abs q) eqn:Ea.
        { pose proof (abs_length q) as HL. rewrite Ea in HL. simpl in HL. lia. }
        pose proof (abs_length q) as HL. rewrite Ea in HL. simpl in *. lia.
      * intros k Hk. rewrite Hcap'. cbn [entries head].
        assert (HLq : length (abs q) = Z.to_nat c) by (rewrite abs_length; lia).
        assert (Htl : length (tl (abs q)) = (Z.to_nat c - 1)%nat) by (destruct (abs q); simpl in *; lia).
        rewrite app_length in Hk. simpl in Hk.
        assert (Hw : 0 <= wrap c (h + Z.of_nat k)) by (unfold wrap; destruct (Z.ltb_spec (h + Z.of_nat k) c); lia).
        rewrite getE_setE by auto.
        destruct (Nat.eq_dec k (Z.to_nat c - 1)) as [Ek | Ek].
        { rewrite app_nth2 by lia. replace (k - length (tl (abs q)))%nat with O by lia. simpl.
          destruct (Z.eqb_spec (wrap c (h + Z.of_nat k)) pos) as [|Hne]; auto.
          exfalso. apply Hne. unfold wrap. destruct (Z.ltb_spec (h + Z.of_nat k) c); lia. }
        rewrite app_nth1 by lia.
        destruct (Z.eqb_spec (wrap c (h + Z.of_nat k)) pos) as [He|Hne].
        { exfalso. unfold wrap in He. destruct (Z.ltb_spec (h + Z.of_nat k) c); lia. }
        assert (Hnt : nth k (tl (abs q)) None = nth (S k) (abs q) None) by (destruct (abs q); simpl; auto; destruct k; auto).
        rewrite Hnt. rewrite abs_nth by lia. fold c. f_equal.
        unfold wrap. destruct (Z.ltb_spec (h + Z.of_nat k) c); destruct (Z.ltb_spec (head q + Z.of_nat (S k)) c); lia.
    + (* the reported entry is the oldest one *)
      assert (HLq : length (abs q) = Z.to_nat c) by (rewrite abs_length; lia).
      assert (H0 : nth 0 (abs q) None = hd None (abs q)) by (destruct (abs q); auto).
      rewrite <- H0. rewrite abs_nth by lia. fold c. f_equal. unfold wrap.
      destruct (Z.ltb_spec (head q + Z.of_nat 0) c); lia.
  - (* not full *)
    assert (Hnf : qlen q < c).
    { unfold qlen in *. destruct (Z.eqb_spec (head q) (-1)); [lia|].
      destruct (Z.leb_spec (head q) (tail q)); fold c in Hlen |- *; lia. }
    set (h := if head q =? -1 then pos else head q).
    assert (Hhdef : (head q = -1 /\ h = pos) \/ (head q <> -1 /\ h = head q))
      by (subst h; destruct (Z.eqb_spec (head q) (-1)); lia).
    clearbody h.
    assert (Hlen' : qlen (mkQ (setE (entries q) pos x) h pos) = qlen q + 1).
    { unfold qlen; cbn [head tail]. rewrite Hcap'. fold c.
      destruct (Z.eqb_spec h (-1)); [lia|].
      destruct (Z.eqb_spec (head q) (-1)).
      - destruct (Z.leb_spec h pos); lia.
      - destruct (Z.leb_spec h pos); destruct (Z.leb_spec (head q) (tail q)); lia. }
    split; [|split; [apply Hcap'|split; [|lia]]].
    { split; [rewrite Hcap'; lia|]. right. cbn [head tail]. rewrite Hcap'. lia. }
    intros _. split; auto.
    apply abs_intro.
    + rewrite app_length, abs_length. simpl. lia.
    + intros k Hk. rewrite Hcap'. cbn [entries head].
      rewrite app_length, abs_length in Hk. simpl in Hk.
      assert (Hw : 0 <= wrap c (h + Z.of_nat k)) by (unfold wrap; destruct (Z.ltb_spec (h + Z.of_nat k) c); lia).
      rewrite getE_setE by auto.
      assert (Hpq : pos = wrap c (h + qlen q)).
      { unfold wrap, qlen. fold c. destruct (Z.eqb_spec (head q) (-1)).
        - destruct (Z.ltb_spec (h + 0) c); lia.
        - destruct (Z.leb_spec (head q) (tail q)).
          + destruct (Z.ltb_spec (h + (tail q - head q + 1)) c); lia.
          + destruct (Z.ltb_spec (h + (c - head q + tail q + 1)) c); lia. }
      destruct (Nat.eq_dec k (Z.to_nat (qlen q))) as [Ek | Ek].
      * rewrite app_nth2 by (rewrite abs_length; lia). rewrite abs_length.
        replace (k - Z.to_nat (qlen q))%nat with O by lia. simpl.
        destruct (Z.eqb_spec (wrap c (h + Z.of_nat k)) pos) as [|Hne]; auto.
        exfalso. apply Hne. rewrite Hpq. f_equal. lia.
      * rewrite app_nth1 by (rewrite abs_length; lia).
        destruct (Z.eqb_spec (wrap c (h + Z.of_nat k)) pos) as [He|Hne].
        { exfalso. rewrite Hpq in He. unfold wrap in He.
          destruct (Z.ltb_spec (h + Z.of_nat k) c); destruct (Z.ltb_spec (h + qlen q) c); lia. }
        rewrite abs_nth by lia. fold c.
        destruct Hhdef as [[E1 E2]|[E1 E2]]; [|rewrite E2; reflexivity].
        exfalso. apply qlen_zero_iff in E1; [lia|]. split; auto.
Qed.

(* ---------- pop ---------- *)
Theorem pop_spec : forall (q : queue), inv q ->
  let '(q', (x, ok)) := pop q in
  inv q' /\ qcap q' = qcap q /\
  match abs q with
  | [] => ok = false /\ x = None /\ q' = q
  | a :: r => ok = true /\ x = a /\ abs q' = r
  end.
Proof.
  intros q Hq. pose proof (qlen_range q Hq) as Hlen. pose proof (qlen_zero_iff q Hq) as Hz.
  pose proof (abs_length q) as HL. destruct Hq as [Hc H].
  unfold pop. set (c := qcap q) in *.
  destruct (Z.eqb_spec (head q) (-1)) as [Ee|Ene].
  - split; [split; auto|]. split; auto.
    destruct (abs q); auto. simpl in HL. lia.
  - assert (Hpos : 1 <= qlen q) by lia.
    destruct (abs q) as [|a r] eqn:Ea; [simpl in HL; lia|].
    assert (Ha : getE (entries q) (head q) = a).
    { pose proof (abs_nth q 0 ltac:(lia)) as H0. rewrite Ea in H0. simpl in H0. rewrite H0. f_equal.
      fold c. unfold wrap. destruct (Z.ltb_spec (head q + 0) c); lia. }
    destruct (Z.eqb_spec (head q) (tail q)) as [E1|E1].
    + split; [split; auto|]. split; auto. repeat split; auto.
      assert (qlen q = 1) by (unfold qlen; destruct (Z.eqb_spec (head q) (-1)); [lia|]; destruct (Z.leb_spec (head q) (tail q)); lia).
      unfold abs at 1, qlen at 1. cbn [head]. simpl.
      destruct r; auto. simpl in HL. lia.
    + set (h := if head q + 1 =? c then 0 else head q + 1).
      assert (Hhdef : (head q + 1 = c /\ h = 0) \/ (head q + 1 <> c /\ h = head q + 1))
        by (subst h; destruct (Z.eqb_spec (head q + 1) c); lia).
      clearbody h.
      assert (Hcap' : qcap (mkQ (entries q) h (tail q)) = c) by reflexivity.
      assert (Hlen' : qlen (mkQ (entries q) h (tail q)) = qlen q - 1).
      { unfold qlen; cbn [head tail]. rewrite Hcap'. fold c.
        destruct (Z.eqb_spec h (-1)); [lia|]. destruct (Z.eqb_spec (head q) (-1)); [lia|].
        destruct (Z.leb_spec h (tail q)); destruct (Z.leb_spec (head q) (tail q)); lia. }
      split; [|split; auto].
      { split; [rewrite Hcap'; lia|]. right. cbn [head tail]. rewrite Hcap'. lia. }
      repeat split; auto.
      apply abs_intro.
      * rewrite Hlen'. simpl in HL. lia.
      * intros k Hk. rewrite Hcap'. cbn [entries head].
        assert (Hn : nth k r None = nth (S k) (abs q) None) by (rewrite Ea; reflexivity).
        rewrite Hn. rewrite abs_nth by (simpl in HL; lia). fold c. f_equal.
        unfold wrap. simpl in HL.
        destruct (Z.ltb_spec (h + Z.of_nat k) c); destruct (Z.ltb_spec (head q + Z.of_nat (S k)) c); lia.
Qed.

(* ---------- refinement for all operation sequences ---------- *)
Lemma step_refines : forall (c : nat) (q : queue) (o : qop A), inv q -> qcap q = Z.of_nat c ->
  let '(q', out) := q_step push q o in
  let '(l', out') := ref_step c (abs q) o in
  inv q' /\ qcap q' = Z.of_nat c /\ abs q' = l' /\ out = out'.
Proof.
  intros c q o Hq Hc. destruct o as [x| |]; cbn [q_step ref_step].
  - pose proof (push_spec q x Hq) as P. destruct (push q x) as [q' d].
    destruct P as (I & C & Hnf & Hf). unfold ref_push.
    pose proof (len_spec q Hq) as HL. pose proof (qlen_range q Hq).
    destruct (Nat.ltb_spec (length (abs q)) c).
    + destruct Hnf as [E1 E2]; [lia|]. subst d. split; [auto|split; [lia|split; [auto|reflexivity]]].
    + destruct Hf as [E1 E2]; [lia|]. subst d. split; [auto|split; [lia|split; [auto|reflexivity]]].
  - pose proof (pop_spec q Hq) as P. destruct (pop q) as [q' [x ok]].
    destruct P as (I & C & P). unfold ref_pop. destruct (abs q) eqn:Ea.
    + destruct P as (-> & -> & ->). split; [auto|split; [lia|split; [auto|reflexivity]]].
    + destruct P as (-> & -> & E). split; [auto|split; [lia|split; [auto|reflexivity]]].
  - split; [auto|split; [auto|split; [auto|]]]. f_equal. apply len_spec; auto.
Qed.

Theorem run_refines : forall (c : nat) (ops : list (qop A)) (q : queue), inv q -> qcap q = Z.of_nat c ->
  q_run push q ops = ref_run c (abs q) ops.
Proof.
  induction ops as [|o r IH]; intros q Hq Hc; [reflexivity|].
  cbn [q_run ref_run]. pose proof (step_refines c q o Hq Hc) as S.
  destruct (q_step push q o) as [q' out]. destruct (ref_step c (abs q) o) as [l' out'].
  destruct S as (I & C & E & ->). f_equal. subst l'. apply IH; auto.
Qed.

Theorem ring_is_bounded_fifo : forall (c : nat) (ops : list (qop A)), (1 <= c)%nat ->
  exists q0 : queue, new_queue c = Ok q0 /\ q_run push q0 ops = ref_run c [] ops.
Proof.
  intros c ops Hc. destruct (new_spec c Hc) as (q0 & E & I & C & Ea).
  exists q0. split; auto. rewrite <- Ea. apply run_refines; auto.
Qed.

(* reachable rings never index out of range *)
Theorem run_invariant : forall (c : nat) (ops : list (qop A)) (q : queue), inv q -> qcap q = Z.of_nat c ->
  let q' := fold_left (fun q o => fst (q_step push q o)) ops q in
  inv q' /\ qcap q' = Z.of_nat c /\ (length (abs q') <= c)%nat /\ 0 <= qlen q' <= Z.of_nat c.
Proof.
  induction ops as [|o r IH]; intros q Hq Hc; cbn [fold_left].
  - pose proof (qlen_range q Hq). pose proof (len_spec q Hq). split; [auto|split; [auto|split; lia]].
  - pose proof (step_refines c q o Hq Hc) as S.
    destruct (q_step push q o) as [q' out]. destruct (ref_step c (abs q) o) as [l' out'].
    destruct S as (I & C & _). cbn [fst]. apply IH; auto.
Qed.

End QueueProofs.

(* ---------- the push of the unpatched tree reports the wrong entry ---------- *)
(* capacity 2, entries 1 then 2 pushed, then 3: the oldest (1) is overwritten, but entry 2
   is what push_current returns as dropped. *)
Definition q12 : queue N := fst (push (fst (push (mkQ [None; None] (-1) (-1)) (Some 1%N))) (Some 2%N)).
Theorem push_current_dropped_refuted :
  exists (q : queue N) (x : option N), inv q /\ qlen q = qcap q /\
    snd (push_current q x) <> hd None (abs q) /\
    fst (push_current q x) = fst (push q x).
Proof.
  assert (E : q12 = mkQ [Some 1%N; Some 2%N] 0 1) by (vm_compute; reflexivity).
  exists q12, (Some 3%N). rewrite E. split; [|split; [|split]].
  - unfold inv, qcap; cbn [entries head tail length]. lia.
  - vm_compute. reflexivity.
  - vm_compute. congruence.
  - vm_compute. reflexivity.
Qed.

(* for capacity 1 (the only capacity the repository's tests use with overflow) both agree *)
Theorem push_current_cap1_agrees : forall (q : queue N) x, inv q -> qcap q = 1 -> push_current q x = push q x.
Proof.
  intros q x [Hc H] C1. unfold push_current, push, push_gen. rewrite C1.
  destruct (Z.eqb_spec (tail q + 1) 1); destruct (Z.eqb_spec (head q + 1) 1);
  repeat match goal with |- context [if ?a =? ?b then _ else _] => destruct (Z.eqb_spec a b) end;
  try reflexivity; try lia; repeat f_equal; lia.
Qed.

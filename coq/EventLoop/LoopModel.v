(* C14 — executable model of core/eventloop/eventloop.go (handler table, AddEvent, DelayUntil,
   Tick = pop + dispatch + re-adding deferred events).  Definitions only.

   Go                                   model
   --------------------------------     -------------------------------------------------------
   reflect.Type of an event             ety (a number);  event = (type, payload id)
   el.handlers[t] []handler             handlers st t : list slot     (callback nil = s_cb None)
   el.waitingEvents[t] []any            waiting st t : list event
   unregister closures (capture t,i)    tokens st : list (ety * nat * bool), indexed by registration order;
                                        the flag says the closure has been called: a closure clears only the
                                        handler it registered, a second call is a no-op (REPAIRED behaviour,
                                        fixes/C14-unregister-idempotent.patch; [unregister_current] is the
                                        closure of the unpatched tree, which clears slot (t,i) every time)
   handler bodies                       script : hid -> event -> list action (a handler may call
                                        AddEvent / DelayUntil / Register / an unregister closure,
                                        i.e. re-enter the loop while it is being dispatched)
   logger.Warnf("... dropped event")    LDrop entries of the log
   The log also carries ghost entries (LPush, LPop, LDelay, LReadd) that the theorems speak
   about; the correspondence compares the observable ones (LHandle, LDrop, LTick).
   Tickers (AddTicker/startTickerEvent) and Run's blocking select are not modelled; Tick is.
   Recursion through handlers that run inside AddEvent is bounded by [fuel] = nesting depth. *)
From HS Require Import Base.Prelude EventLoop.QueueModel.

Definition ety := N.
Definition event := (ety * N)%type.
Definition hid := N.

Record slot := mkSlot { s_cb : option hid; s_runadd : bool; s_prio : bool }.

Inductive action :=
| AAdd (oe : option event)                       (* el.AddEvent(e); None = nil event *)
| ADelay (t : ety) (oe : option event)           (* DelayUntil[t](el, e) *)
| AReg (t : ety) (h : hid) (prio runadd : bool)  (* Register[t](el, h, opts...) *)
| AUnreg (k : nat).                              (* call the closure returned by the k-th Register *)

Inductive entry :=
| LHandle (d : nat) (inadd : bool) (h : hid) (e : event)  (* handler h invoked with e at nesting depth d *)
| LPush (e : event)
| LDrop (e : event)
| LPop (e : event)
| LTick (handled : bool)
| LDelay (t : ety) (e : event)
| LReadd (t : ety) (e : event).

Record lstate := mkL {
  lq : queue event;
  handlers : ety -> list slot;
  waiting : ety -> list event;
  tokens : list (ety * nat * bool);
  log : list entry }.

Definition set_q (st : lstate) (q : queue event) := mkL q (handlers st) (waiting st) (tokens st) (log st).
Definition logapp (st : lstate) (x : entry) := mkL (lq st) (handlers st) (waiting st) (tokens st) (log st ++ [x]).

Definition new_loop (capacity : nat) : result lstate :=
  match new_queue capacity with
  | Ok q => Ok (mkL q (fun _ => []) (fun _ => []) [] [])
  | Reject => Reject
  | Panic => Panic
  end.

(* ---- Register / unregister ---- *)
Fixpoint find_free (hs : list slot) : option nat :=       (* slices.IndexFunc(callback == nil) *)
  match hs with
  | [] => None
  | s :: r => match s_cb s with
              | None => Some O
              | Some _ => option_map S (find_free r)
              end
  end.
Fixpoint lset {X} (l : list X) (i : nat) (x : X) : list X :=
  match l, i with
  | [], _ => []
  | _ :: r, O => x :: r
  | y :: r, S k => y :: lset r k x
  end.
Definition set_slot (hs : list slot) (i : nat) (s : slot) : list slot := lset hs i s.
Definition upd {V} (f : ety -> V) (t : ety) (v : V) : ety -> V := fun t' => if N.eqb t' t then v else f t'.

Definition register (st : lstate) (t : ety) (h : hid) (prio runadd : bool) : lstate :=
  let hs := handlers st t in
  let s := mkSlot (Some h) runadd prio in
  let '(i, hs') := match find_free hs with
                   | None => (length hs, hs ++ [s])
                   | Some i => (i, set_slot hs i s)
                   end in
  mkL (lq st) (upd (handlers st) t hs') (waiting st) (tokens st ++ [(t, i, false)]) (log st).

Definition clear_cb (hs : list slot) (i : nat) : list slot :=
  match nth_error hs i with
  | Some s => set_slot hs i (mkSlot None (s_runadd s) (s_prio s))
  | None => hs
  end.
Definition unregister (st : lstate) (k : nat) : lstate :=
  match nth_error (tokens st) k with
  | None => st                       (* no such closure exists *)
  | Some (t, i, true) => st          (* the closure was called before: nothing to do *)
  | Some (t, i, false) =>
      mkL (lq st) (upd (handlers st) t (clear_cb (handlers st t) i)) (waiting st)
          (lset (tokens st) k (t, i, true)) (log st)
  end.
(* the closure of the unpatched tree: clears whatever occupies slot (t,i) now *)
Definition unregister_current (st : lstate) (k : nat) : lstate :=
  match nth_error (tokens st) k with
  | None => st
  | Some (t, i, _) =>
      mkL (lq st) (upd (handlers st) t (clear_cb (handlers st t) i)) (waiting st)
          (lset (tokens st) k (t, i, true)) (log st)
  end.

(* ---- DelayUntil ---- *)
Definition delay_until (st : lstate) (t : ety) (oe : option event) : lstate :=
  match oe with
  | None => st
  | Some e => mkL (lq st) (handlers st) (upd (waiting st) t (waiting st t ++ [e])) (tokens st) (log st ++ [LDelay t e])
  end.

(* ---- processEvent: copy the handlers to run (priority list, ordinary list), then invoke ---- *)
Fixpoint collect (hs : list slot) (inadd : bool) : list hid * list hid :=
  match hs with
  | [] => ([], [])
  | s :: r =>
      let '(pl, hl) := collect r inadd in
      match s_cb s with
      | None => (pl, hl)
      | Some h =>
          if Bool.eqb (s_runadd s) inadd
          then (if s_prio s then (h :: pl, hl) else (pl, h :: hl))
          else (pl, hl)
      end
  end.
Definition to_run (st : lstate) (t : ety) (inadd : bool) : list hid :=
  let '(pl, hl) := collect (handlers st t) inadd in pl ++ hl.

Fixpoint fold_opt {S X} (f : S -> X -> option S) (s : S) (l : list X) : option S :=
  match l with
  | [] => Some s
  | x :: r => match f s x with
              | None => None
              | Some s' => fold_opt f s' r
              end
  end.

(* queue.push + the warning about a dropped event *)
Definition push_report (st : lstate) (e : event) : lstate :=
  let '(q', d) := push (lq st) (Some e) in
  mkL q' (handlers st) (waiting st) (tokens st)
      (log st ++ LPush e :: match d with Some x => [LDrop x] | None => [] end).

Section Loop.
Variable script : hid -> event -> list action.

Definition do_action (add : nat -> lstate -> option event -> option lstate) (d : nat)
                     (st : lstate) (a : action) : option lstate :=
  match a with
  | AAdd oe => add d st oe
  | ADelay t oe => Some (delay_until st t oe)
  | AReg t h p r => Some (register st t h p r)
  | AUnreg k => Some (unregister st k)
  end.

(* handler h is called with e at depth d; what it does happens at depth d+1 *)
Definition invoke (add : nat -> lstate -> option event -> option lstate) (d : nat) (inadd : bool)
                  (e : event) (st : lstate) (h : hid) : option lstate :=
  fold_opt (do_action add (S d)) (logapp st (LHandle d inadd h e)) (script h e).

Definition dispatch (add : nat -> lstate -> option event -> option lstate) (d : nat) (inadd : bool)
                    (st : lstate) (e : event) : option lstate :=
  fold_opt (invoke add d inadd e) st (to_run st (fst e) inadd).

(* AddEvent *)
Fixpoint add_event (fuel : nat) (d : nat) (st : lstate) (oe : option event) : option lstate :=
  match oe with
  | None => Some st
  | Some e =>
      match fuel with
      | O => None
      | S f =>
          match dispatch (add_event f) d true st e with
          | None => None
          | Some st1 => Some (push_report st1 e)
          end
      end
  end.

(* dispatchDelayedEvents *)
Definition clear_waiting (st : lstate) (t : ety) : lstate :=
  mkL (lq st) (handlers st) (upd (waiting st) t []) (tokens st) (log st).
Definition readd (fuel : nat) (t : ety) (st : lstate) (w : event) : option lstate :=
  add_event fuel 0 (logapp st (LReadd t w)) (Some w).
Definition redeliver (fuel : nat) (st : lstate) (t : ety) : option lstate :=
  fold_opt (readd fuel t) (clear_waiting st t) (waiting st t).

(* Tick *)
Definition tick (fuel : nat) (st : lstate) : option lstate :=
  let '(q', (x, ok)) := pop (lq st) in
  if negb ok then Some (logapp st (LTick false))
  else match x with
       | None => Some (logapp (set_q st q') (LTick true))
       | Some e =>
           match dispatch (add_event fuel) 0 false (logapp (set_q st q') (LPop e)) e with
           | None => None
           | Some st1 =>
               match redeliver fuel st1 (fst e) with
               | None => None
               | Some st2 => Some (logapp st2 (LTick true))
               end
           end
       end.

(* top-level operations of a program driving the loop *)
Inductive op := OAct (a : action) | OTick.
Definition step (fuel : nat) (st : lstate) (o : op) : option lstate :=
  match o with
  | OAct a => do_action (add_event fuel) 0 st a
  | OTick => tick fuel st
  end.
Definition run (fuel : nat) (st : lstate) (ops : list op) : option lstate := fold_opt (step fuel) st ops.

End Loop.

(* ---- projections of the log used by the theorems ---- *)
Definition pushed (l : list entry) : list event :=
  flat_map (fun x => match x with LPush e => [e] | _ => [] end) l.
Definition popped (l : list entry) : list event :=
  flat_map (fun x => match x with LPop e => [e] | _ => [] end) l.
Definition dropped (l : list entry) : list event :=
  flat_map (fun x => match x with LDrop e => [e] | _ => [] end) l.
Definition delayed_on (t : ety) (l : list entry) : list event :=
  flat_map (fun x => match x with LDelay t' e => if N.eqb t' t then [e] else [] | _ => [] end) l.
Definition readded_on (t : ety) (l : list entry) : list event :=
  flat_map (fun x => match x with LReadd t' e => if N.eqb t' t then [e] else [] | _ => [] end) l.
(* handler invocations at nesting depth d, in order *)
Definition handled_at (d : nat) (l : list entry) : list (bool * hid * event) :=
  flat_map (fun x => match x with LHandle d' b h e => if Nat.eqb d' d then [(b, h, e)] else [] | _ => [] end) l.
(* what an outside observer sees: handler calls, drop warnings, Tick results *)
Definition observable (x : entry) : bool :=
  match x with LHandle _ _ _ _ | LDrop _ | LTick _ => true | _ => false end.
Definition pending (st : lstate) : list (option event) := abs (lq st).

(* C14 — proofs about the event loop model: FIFO handling, overflow drops exactly the oldest
   pending events and reports exactly those, every handler registered at pop time sees the
   event exactly once (prioritised ones first), deferred events are re-added exactly once, in
   deferral order, after an event of the awaited type has been dispatched.
   All statements are for arbitrary handler scripts (re-entrancy included), arbitrary nesting
   fuel, arbitrary programs and every capacity >= 1. *)
From Coq Require Import ZifyBool ZifyNat.
From HS Require Import Base.Prelude EventLoop.QueueModel EventLoop.QueueProofs EventLoop.LoopModel.
Local Open Scope nat_scope.

(* ------------------------------------------------------------------------------------------ *)
(* generic plumbing                                                                           *)
(* ------------------------------------------------------------------------------------------ *)
Lemma fold_opt_inv {S X} (f : S -> X -> option S) (Q : S -> Prop) :
  (forall s x s', Q s -> f s x = Some s' -> Q s') ->
  forall l s s', Q s -> fold_opt f s l = Some s' -> Q s'.
Proof.
  intros Hf. induction l as [|a l IH]; simpl; intros s s' Hs H.
  - inversion H; subst; auto.
  - destruct (f s a) as [s0|] eqn:E; [|discriminate]. apply (IH s0 s'); [eapply Hf; eauto|exact H].
Qed.

Inductive Interleave {X} : list X -> list X -> list X -> Prop :=
| il_nil : Interleave [] [] []
| il_l x a b c : Interleave a b c -> Interleave (x :: a) b (x :: c)
| il_r x a b c : Interleave a b c -> Interleave a (x :: b) (x :: c).

Lemma il_snoc_l {X} (a b c : list X) x : Interleave a b c -> Interleave (a ++ [x]) b (c ++ [x]).
Proof. induction 1; simpl; try (constructor; auto; fail). apply il_l. constructor. Qed.
Lemma il_snoc_r {X} (a b c : list X) x : Interleave a b c -> Interleave a (b ++ [x]) (c ++ [x]).
Proof. induction 1; simpl; try (constructor; auto; fail). apply il_r. constructor. Qed.
Lemma il_nil_r {X} (a c : list X) : Interleave a [] c -> c = a.
Proof. intros H. remember [] as b. induction H; try discriminate; auto. f_equal; auto. Qed.
Lemma il_in {X} (a b c : list X) x : Interleave a b c -> (In x c <-> In x a \/ In x b).
Proof. induction 1; simpl; tauto. Qed.
Lemma il_length {X} (a b c : list X) : Interleave a b c -> length c = length a + length b.
Proof. induction 1; simpl; lia. Qed.

Lemma pushed_app a b : pushed (a ++ b) = pushed a ++ pushed b. Proof. apply flat_map_app. Qed.
Lemma popped_app a b : popped (a ++ b) = popped a ++ popped b. Proof. apply flat_map_app. Qed.
Lemma dropped_app a b : dropped (a ++ b) = dropped a ++ dropped b. Proof. apply flat_map_app. Qed.
Lemma delayed_app t a b : delayed_on t (a ++ b) = delayed_on t a ++ delayed_on t b. Proof. apply flat_map_app. Qed.
Lemma readded_app t a b : readded_on t (a ++ b) = readded_on t a ++ readded_on t b. Proof. apply flat_map_app. Qed.
Lemma handled_app d a b : handled_at d (a ++ b) = handled_at d a ++ handled_at d b. Proof. apply flat_map_app. Qed.

(* ------------------------------------------------------------------------------------------ *)
(* a state predicate kept by the primitive steps is kept by AddEvent / dispatch / Tick / run  *)
(* ------------------------------------------------------------------------------------------ *)
Section Pres.
Variable script : hid -> event -> list action.
Variable P : lstate -> Prop.
Variable d0 : nat.
Hypothesis P_push : forall st e, P st -> P (push_report st e).
Hypothesis P_handle : forall st d b h e, d0 <= d -> P st -> P (logapp st (LHandle d b h e)).
Hypothesis P_delay : forall st t oe, P st -> P (delay_until st t oe).
Hypothesis P_reg : forall st t h p r, P st -> P (register st t h p r).
Hypothesis P_unreg : forall st k, P st -> P (unregister st k).

Definition add_ok (add : nat -> lstate -> option event -> option lstate) : Prop :=
  forall d st oe st', d0 <= d -> P st -> add d st oe = Some st' -> P st'.

Lemma do_action_pres add d st a st' :
  add_ok add -> d0 <= d -> P st -> do_action add d st a = Some st' -> P st'.
Proof.
  intros Ha Hd Hp H. destruct a; cbn [do_action] in H.
  - eapply Ha; eauto.
  - inversion H; subst; auto.
  - inversion H; subst; auto.
  - inversion H; subst; auto.
Qed.

Lemma invoke_pres add d b e st h st' :
  add_ok add -> d0 <= d -> P st -> invoke script add d b e st h = Some st' -> P st'.
Proof.
  intros Ha Hd Hp H. unfold invoke in H.
  eapply fold_opt_inv with (Q := P); [| |exact H].
  - intros s x s' Hs Hx. eapply do_action_pres; [exact Ha| |exact Hs|exact Hx]. lia.
  - apply P_handle; auto.
Qed.

Lemma dispatch_pres add d b st e st' :
  add_ok add -> d0 <= d -> P st -> dispatch script add d b st e = Some st' -> P st'.
Proof.
  intros Ha Hd Hp H. unfold dispatch in H.
  eapply fold_opt_inv with (Q := P); [| |exact H]; auto.
  intros s x s' Hs Hx. eapply invoke_pres; eauto.
Qed.

Lemma add_event_pres : forall fuel, add_ok (add_event script fuel).
Proof.
  induction fuel as [|f IH]; intros d st oe st' Hd Hp H; destruct oe as [e|]; cbn [add_event] in H;
    try discriminate; try (inversion H; subst; auto; fail).
  destruct (dispatch script (add_event script f) d true st e) eqn:E; [|discriminate].
  inversion H; subst. apply P_push. eapply dispatch_pres; eauto.
Qed.

Hypothesis Hd0 : d0 <= 0.
Hypothesis P_pop : forall st q' e, P st -> pop (lq st) = (q', (Some e, true)) -> P (logapp (set_q st q') (LPop e)).
Hypothesis P_popnil : forall st q', P st -> pop (lq st) = (q', (None, true)) -> P (logapp (set_q st q') (LTick true)).
Hypothesis P_tickentry : forall st b, P st -> P (logapp st (LTick b)).
Hypothesis P_clear : forall st t, P st -> P (clear_waiting st t).
Hypothesis P_readd : forall st t w, P st -> P (logapp st (LReadd t w)).

Lemma redeliver_pres fuel st t st' : P st -> redeliver script fuel st t = Some st' -> P st'.
Proof.
  intros Hp H. unfold redeliver in H.
  eapply fold_opt_inv with (Q := P); [| |exact H]; auto.
  intros s x s' Hs Hx. unfold readd in Hx. eapply add_event_pres; [exact Hd0| |exact Hx]. auto.
Qed.

Lemma tick_pres fuel st st' : P st -> tick script fuel st = Some st' -> P st'.
Proof.
  intros Hp H. unfold tick in H.
  destruct (pop (lq st)) as [q' [x ok]] eqn:Epop.
  destruct ok; cbn [negb] in H; [|inversion H; subst; auto].
  destruct x as [e|]; [|inversion H; subst; auto].
  destruct (dispatch script (add_event script fuel) 0 false (logapp (set_q st q') (LPop e)) e) as [st1|] eqn:E1; [|discriminate].
  destruct (redeliver script fuel st1 (fst e)) as [st2|] eqn:E2; [|discriminate].
  inversion H; subst. apply P_tickentry. eapply redeliver_pres; [|exact E2].
  eapply dispatch_pres; [apply add_event_pres|exact Hd0| |exact E1]. auto.
Qed.

Lemma step_pres fuel st o st' : P st -> step script fuel st o = Some st' -> P st'.
Proof.
  intros Hp H. destruct o; cbn [step] in H.
  - eapply do_action_pres; [apply add_event_pres|exact Hd0|exact Hp|exact H].
  - eapply tick_pres; eauto.
Qed.

Lemma run_pres fuel ops st st' : P st -> run script fuel st ops = Some st' -> P st'.
Proof.
  intros Hp H. unfold run in H. eapply fold_opt_inv with (Q := P); [| |exact H]; auto.
  intros s x s' Hs Hx. eapply step_pres; eauto.
Qed.
End Pres.

(* ------------------------------------------------------------------------------------------ *)
(* FIFO handling and overflow                                                                 *)
(* ------------------------------------------------------------------------------------------ *)
Definition Pfifo (st : lstate) : Prop :=
  inv (lq st) /\
  exists gone, map Some (pushed (log st)) = map Some gone ++ pending st /\
               Interleave (popped (log st)) (dropped (log st)) gone.

Lemma in_map_some_app {X} (l g : list X) a r : map Some l = map Some g ++ a :: r -> exists x, a = Some x.
Proof.
  intros H. assert (Hin : In a (map Some l)) by (rewrite H; apply in_or_app; right; left; auto).
  apply in_map_iff in Hin. destruct Hin as (x & Hx & _). eauto.
Qed.

(* one push through AddEvent: either there was room, or exactly the oldest pending event is lost
   and exactly that one is reported *)
Lemma push_report_spec st e : Pfifo st ->
  Pfifo (push_report st e) /\
  ((length (pending st) < length (entries (lq st)) /\
    log (push_report st e) = log st ++ [LPush e] /\
    pending (push_report st e) = pending st ++ [Some e])
   \/
   (exists x r, pending st = Some x :: r /\ length (pending st) = length (entries (lq st)) /\
    log (push_report st e) = log st ++ [LPush e; LDrop x] /\
    pending (push_report st e) = r ++ [Some e])).
Proof.
  intros [Hinv (gone & Hg & Hil)]. unfold push_report, pending in *.
  pose proof (push_spec (lq st) (Some e) Hinv) as Hp.
  pose proof (qlen_range (lq st) Hinv) as Hr. pose proof (len_spec (lq st) Hinv) as Hl.
  destruct (push (lq st) (Some e)) as [q' d]. destruct Hp as (I' & C & Hnf & Hf).
  assert (Hc : qcap (lq st) = Z.of_nat (length (entries (lq st)))) by reflexivity.
  destruct (Z.eq_dec (qlen (lq st)) (qcap (lq st))) as [Efull|Enf].
  - destruct (Hf Efull) as [Ea Ed]. clear Hnf Hf.
    destruct (abs (lq st)) as [|a r] eqn:Eabs.
    { exfalso. simpl in Hl. destruct Hinv as [H1 _]. lia. }
    destruct (in_map_some_app _ _ _ _ Hg) as [x ->]. simpl in Ed, Ea. subst d.
    unfold Pfifo, pending. cbn [lq log]. split.
    + split; auto. exists (gone ++ [x]). rewrite pushed_app, popped_app, dropped_app. simpl.
      rewrite !app_nil_r. rewrite !map_app. rewrite Hg, Ea. simpl. rewrite <- !app_assoc. simpl.
      split; auto. apply il_snoc_r; auto.
    + right. exists x, r. repeat split; auto. simpl in *. lia.
  - destruct Hnf as [Ea Ed]; [lia|]. subst d. unfold Pfifo, pending. cbn [lq log]. split.
    + split; auto. exists gone. rewrite pushed_app, popped_app, dropped_app. simpl.
      rewrite !app_nil_r. rewrite map_app, Hg, Ea. simpl. rewrite <- app_assoc. auto.
    + left. repeat split; auto. lia.
Qed.

Lemma Pfifo_log_only st x :
  pushed [x] = [] -> popped [x] = [] -> dropped [x] = [] -> Pfifo st -> Pfifo (logapp st x).
Proof.
  intros H1 H2 H3 [Hinv (gone & Hg & Hil)]. split; auto. exists gone. unfold pending in *. cbn [lq log logapp].
  rewrite pushed_app, popped_app, dropped_app, H1, H2, H3, !app_nil_r. auto.
Qed.

Lemma Pfifo_pop st q' e : Pfifo st -> pop (lq st) = (q', (Some e, true)) -> Pfifo (logapp (set_q st q') (LPop e)).
Proof.
  intros [Hinv (gone & Hg & Hil)] Hpop. pose proof (pop_spec (lq st) Hinv) as Hp. rewrite Hpop in Hp.
  destruct Hp as (I' & C & Hp). unfold pending in *.
  destruct (abs (lq st)) as [|a r] eqn:Ea; [destruct Hp as (? & _); discriminate|].
  destruct Hp as (_ & <- & Hr). unfold Pfifo, pending. cbn [lq log logapp set_q]. split; [exact I'|]. exists (gone ++ [e]).
  rewrite pushed_app, popped_app, dropped_app. simpl. rewrite !app_nil_r, Hr, Hg, map_app. simpl.
  rewrite <- app_assoc. split; auto. apply il_snoc_l; auto.
Qed.

Lemma Pfifo_popnil st q' : Pfifo st -> pop (lq st) = (q', (None, true)) -> Pfifo (logapp (set_q st q') (LTick true)).
Proof.
  intros [Hinv (gone & Hg & Hil)] Hpop. pose proof (pop_spec (lq st) Hinv) as Hp. rewrite Hpop in Hp.
  destruct Hp as (I' & C & Hp). unfold pending in *.
  destruct (abs (lq st)) as [|a r] eqn:Ea; [destruct Hp as (? & _); discriminate|].
  destruct Hp as (_ & <- & Hr). destruct (in_map_some_app _ _ _ _ Hg) as [x Hx]. discriminate.
Qed.

Lemma Pfifo_state_only st st' : lq st' = lq st -> log st' = log st -> Pfifo st -> Pfifo st'.
Proof. intros H1 H2 [Hinv H]. unfold Pfifo, pending. rewrite H1, H2. auto. Qed.

Lemma Pfifo_delay st t oe : Pfifo st -> Pfifo (delay_until st t oe).
Proof.
  intros H. destruct oe as [e|]; cbn [delay_until]; auto.
  change (Pfifo (logapp (mkL (lq st) (handlers st) (upd (waiting st) t (waiting st t ++ [e])) (tokens st) (log st)) (LDelay t e))).
  apply Pfifo_log_only; auto.
Qed.
Lemma Pfifo_reg st t h p r : Pfifo st -> Pfifo (register st t h p r).
Proof.
  intros H. unfold register. destruct (find_free (handlers st t)); exact H.
Qed.
Lemma Pfifo_unreg st k : Pfifo st -> Pfifo (unregister st k).
Proof.
  intros H. unfold unregister. destruct (nth_error (tokens st) k) as [[[t i] [|]]|]; exact H.
Qed.

Lemma Pfifo_init c st0 : new_loop c = Ok st0 -> Pfifo st0.
Proof.
  unfold new_loop. intros H. destruct c as [|c]; [discriminate|].
  destruct (new_spec (A := event) (S c) ltac:(lia)) as (q0 & E & I & C & Ea).
  rewrite E in H. inversion H; subst. split; auto. exists []. unfold pending. cbn [lq log].
  rewrite Ea. split; constructor.
Qed.

Theorem fifo_invariant script fuel c ops st0 st :
  new_loop c = Ok st0 -> run script fuel st0 ops = Some st -> Pfifo st.
Proof.
  intros H0 Hrun. eapply run_pres with (P := Pfifo) (d0 := 0); [..|exact Hrun].
  - intros; apply push_report_spec; auto.
  - intros; apply Pfifo_log_only; auto.
  - apply Pfifo_delay.
  - apply Pfifo_reg.
  - apply Pfifo_unreg.
  - lia.
  - apply Pfifo_pop.
  - apply Pfifo_popnil.
  - intros; apply Pfifo_log_only; auto.
  - intros s t Hs. exact Hs.
  - intros; apply Pfifo_log_only; auto.
  - eapply Pfifo_init; eauto.
Qed.

(* events are handled in the order added while no overflow occurs *)
Theorem fifo_handling script fuel c ops st0 st :
  new_loop c = Ok st0 -> run script fuel st0 ops = Some st ->
  dropped (log st) = [] ->
  map Some (pushed (log st)) = map Some (popped (log st)) ++ pending st.
Proof.
  intros H0 Hrun Hd. destruct (fifo_invariant _ _ _ _ _ _ H0 Hrun) as [_ (gone & Hg & Hil)].
  rewrite Hd in Hil. apply il_nil_r in Hil. subst. auto.
Qed.

(* with overflow: the pending events are always the most recently added ones; the events
   that are gone are exactly the handled ones and the reported ones, each in the order added *)
Theorem overflow_conservation script fuel c ops st0 st :
  new_loop c = Ok st0 -> run script fuel st0 ops = Some st ->
  exists gone, map Some (pushed (log st)) = map Some gone ++ pending st /\
    Interleave (popped (log st)) (dropped (log st)) gone /\
    length (pushed (log st)) = length (popped (log st)) + length (dropped (log st)) + length (pending st) /\
    (forall e, In e (pushed (log st)) <-> In e (popped (log st)) \/ In e (dropped (log st)) \/ In (Some e) (pending st)).
Proof.
  intros H0 Hrun. destruct (fifo_invariant _ _ _ _ _ _ H0 Hrun) as [_ (gone & Hg & Hil)].
  exists gone. split; auto. split; auto. split.
  - pose proof (f_equal (@length _) Hg) as HL. rewrite app_length, !map_length in HL.
    rewrite (il_length _ _ _ Hil) in HL. lia.
  - intros e. pose proof (il_in _ _ _ e Hil) as Hin.
    assert (In e (pushed (log st)) <-> In (Some e) (map Some (pushed (log st)))).
    { split; [apply in_map|]. intros H. apply in_map_iff in H. destruct H as (y & Hy & ?). inversion Hy; subst; auto. }
    rewrite H, Hg, in_app_iff.
    assert (In (Some e) (map Some gone) <-> In e gone).
    { split; [|apply in_map]. intros H1. apply in_map_iff in H1. destruct H1 as (y & Hy & ?). inversion Hy; subst; auto. }
    rewrite H1. tauto.
Qed.

(* ------------------------------------------------------------------------------------------ *)
(* exactly-once dispatch, prioritised handlers first                                          *)
(* ------------------------------------------------------------------------------------------ *)
Definition ext (d : nat) (st st' : lstate) (X : list (bool * hid * event)) : Prop :=
  exists suf, log st' = log st ++ suf /\ handled_at d suf = X /\ (forall t, readded_on t suf = []).

Lemma ext_refl d st : ext d st st [].
Proof. exists []. rewrite app_nil_r. auto. Qed.
Lemma ext_trans d a b c X Y : ext d a b X -> ext d b c Y -> ext d a c (X ++ Y).
Proof.
  intros (s1 & L1 & H1 & R1) (s2 & L2 & H2 & R2). exists (s1 ++ s2).
  rewrite L2, L1, app_assoc, handled_app, H1, H2. repeat split; auto.
  intros t. rewrite readded_app, R1, R2. auto.
Qed.
Lemma ext_same_log d st st' : log st' = log st -> ext d st st' [].
Proof. intros H. exists []. rewrite app_nil_r. auto. Qed.

Section Dispatch.
Variable script : hid -> event -> list action.

(* whatever happens at deeper nesting levels adds no handler call at level d and re-adds nothing *)
Lemma add_event_deeper fuel d d' st oe st' :
  d < d' -> add_event script fuel d' st oe = Some st' -> ext d st st' [].
Proof.
  intros Hd H.
  eapply add_event_pres with (P := fun s => ext d st s []) (d0 := S d); [..|exact H]; try lia.
  - intros s e Hs. replace (@nil (bool * hid * event)) with (@nil (bool * hid * event) ++ []) by auto.
    eapply ext_trans; [exact Hs|]. unfold push_report. destruct (push (lq s) (Some e)) as [q' dr].
    eexists; cbn [log]; split; [reflexivity|]. destruct dr; simpl; auto.
  - intros s d1 b h e Hd1 Hs. replace (@nil (bool * hid * event)) with (@nil (bool * hid * event) ++ []) by auto.
    eapply ext_trans; [exact Hs|]. eexists; cbn [log logapp]; split; [reflexivity|]. simpl.
    destruct (Nat.eqb_spec d1 d); [lia|]. auto.
  - intros s t oe' Hs. replace (@nil (bool * hid * event)) with (@nil (bool * hid * event) ++ []) by auto.
    eapply ext_trans; [exact Hs|]. destruct oe'; cbn [delay_until]; [|apply ext_refl].
    eexists; cbn [log]; split; [reflexivity|]. simpl. auto.
  - intros s t h p r Hs. replace (@nil (bool * hid * event)) with (@nil (bool * hid * event) ++ []) by auto.
    eapply ext_trans; [exact Hs|]. apply ext_same_log. unfold register. destruct (find_free (handlers s t)); reflexivity.
  - intros s k Hs. replace (@nil (bool * hid * event)) with (@nil (bool * hid * event) ++ []) by auto.
    eapply ext_trans; [exact Hs|]. apply ext_same_log. unfold unregister. destruct (nth_error (tokens s) k) as [[[? ?] [|]]|]; reflexivity.
  - apply ext_refl.
Qed.

Definition deeper_ok (d : nat) (add : nat -> lstate -> option event -> option lstate) : Prop :=
  forall d' st oe st', d < d' -> add d' st oe = Some st' -> ext d st st' [].

Lemma actions_deeper d add : deeper_ok d add ->
  forall acts st st', fold_opt (do_action add (S d)) st acts = Some st' -> ext d st st' [].
Proof.
  intros Ha. induction acts as [|a r IH]; simpl; intros st st' H.
  - inversion H; subst. apply ext_refl.
  - destruct (do_action add (S d) st a) as [s1|] eqn:E; [|discriminate].
    replace (@nil (bool * hid * event)) with (@nil (bool * hid * event) ++ []) by auto.
    eapply ext_trans; [|eapply IH; eauto].
    destruct a; cbn [do_action] in E.
    + eapply Ha; [|exact E]. lia.
    + inversion E; subst. destruct oe; cbn [delay_until]; [|apply ext_refl].
      eexists; cbn [log]; split; [reflexivity|]. simpl. auto.
    + inversion E; subst. apply ext_same_log. unfold register. destruct (find_free (handlers st t)); reflexivity.
    + inversion E; subst. apply ext_same_log. unfold unregister. destruct (nth_error (tokens st) k) as [[[? ?] [|]]|]; reflexivity.
Qed.

Lemma invoke_once d add b e st h st' : deeper_ok d add ->
  invoke script add d b e st h = Some st' -> ext d st st' [(b, h, e)].
Proof.
  intros Ha H. unfold invoke in H. change [(b, h, e)] with ([(b, h, e)] ++ []).
  eapply ext_trans; [|eapply actions_deeper; eauto].
  eexists; cbn [log logapp]; split; [reflexivity|]. simpl. rewrite Nat.eqb_refl. auto.
Qed.

Lemma dispatch_list_once d add b e : deeper_ok d add ->
  forall hs st st', fold_opt (invoke script add d b e) st hs = Some st' ->
  ext d st st' (map (fun h => (b, h, e)) hs).
Proof.
  intros Ha. induction hs as [|h r IH]; simpl; intros st st' H.
  - inversion H; subst. apply ext_refl.
  - destruct (invoke script add d b e st h) as [s1|] eqn:E; [|discriminate].
    change ((b, h, e) :: map (fun h0 => (b, h0, e)) r) with ([(b, h, e)] ++ map (fun h0 => (b, h0, e)) r).
    eapply ext_trans; [eapply invoke_once; eauto|eapply IH; eauto].
Qed.

(* the handlers to run are those registered (callback not nil) for the type with the matching
   run-in-AddEvent flag: the prioritised ones in slot order, then the ordinary ones in slot order *)
Definition eligible (inadd prio : bool) (s : slot) : list hid :=
  match s_cb s with
  | Some h => if Bool.eqb (s_runadd s) inadd && Bool.eqb (s_prio s) prio then [h] else []
  | None => []
  end.
Lemma collect_spec hs inadd :
  collect hs inadd = (flat_map (eligible inadd true) hs, flat_map (eligible inadd false) hs).
Proof.
  induction hs as [|s r IH]; simpl; auto. rewrite IH. unfold eligible.
  destruct (s_cb s); auto. destruct (Bool.eqb (s_runadd s) inadd); simpl; auto.
  destruct (s_prio s); simpl; auto.
Qed.
Lemma to_run_spec st t inadd :
  to_run st t inadd = flat_map (eligible inadd true) (handlers st t) ++ flat_map (eligible inadd false) (handlers st t).
Proof. unfold to_run. rewrite collect_spec. reflexivity. Qed.

(* AddEvent at nesting level d: every handler registered for the type with the run-in-AddEvent
   option sees the event exactly once, prioritised first, before the event enters the queue *)
Theorem add_event_exactly_once fuel d st e st' :
  add_event script fuel d st (Some e) = Some st' ->
  exists st1 D, log st1 = log st ++ D /\
    handled_at d D = map (fun h => (true, h, e)) (to_run st (fst e) true) /\
    (forall t, readded_on t D = []) /\ st' = push_report st1 e.
Proof.
  destruct fuel as [|f]; cbn [add_event]; [discriminate|]. intros H.
  destruct (dispatch script (add_event script f) d true st e) as [st1|] eqn:E; [|discriminate].
  inversion H; subst. unfold dispatch in E.
  eapply dispatch_list_once in E; [|intros d' s oe s' Hd Hs; eapply add_event_deeper; eauto].
  destruct E as (D & HL & HH & HR). exists st1, D. auto.
Qed.

(* Tick: the popped event is passed exactly once to every handler registered for its type at the
   moment of the pop (even if handlers unregister each other or register new ones meanwhile),
   prioritised ones first; only afterwards the events deferred on that type are re-added, each
   exactly once and in deferral order. *)
Lemma readd_ext fuel t st w st' :
  readd script fuel t st w = Some st' ->
  exists suf, log st' = log st ++ suf /\ (forall t', readded_on t' suf = if N.eqb t t' then [w] else []) /\
    Forall (fun x => fst (fst x) = true) (handled_at 0 suf).
Proof.
  unfold readd. intros H. apply add_event_exactly_once in H. destruct H as (st1 & D & HL & HH & HR & ->).
  cbn [log logapp] in HL. unfold push_report. destruct (push (lq st1) (Some w)) as [q' dr]. cbn [log].
  exists ([LReadd t w] ++ D ++ LPush w :: match dr with Some x => [LDrop x] | None => [] end).
  rewrite HL, <- !app_assoc. split; auto. split.
  - intros t'. rewrite !readded_app, HR. simpl. rewrite app_nil_r.
    replace (readded_on t' match dr with Some x => [LDrop x] | None => [] end) with (@nil event) by (destruct dr; auto).
    rewrite N.eqb_sym. destruct (N.eqb t' t); auto.
  - rewrite !handled_app, HH. simpl.
    replace (handled_at 0 match dr with Some x => [LDrop x] | None => [] end) with (@nil (bool * hid * event)) by (destruct dr; auto).
    rewrite app_nil_r. apply Forall_forall. intros x Hx. apply in_map_iff in Hx. destruct Hx as (h & <- & _). auto.
Qed.

Lemma redeliver_ext fuel t : forall ws st st',
  fold_opt (readd script fuel t) st ws = Some st' ->
  exists suf, log st' = log st ++ suf /\ (forall t', readded_on t' suf = if N.eqb t t' then ws else []) /\
    Forall (fun x => fst (fst x) = true) (handled_at 0 suf).
Proof.
  induction ws as [|w r IH]; simpl; intros st st' H.
  - inversion H; subst. exists []. rewrite app_nil_r. split; [auto|split; [intros; destruct (N.eqb t t'); auto|constructor]].
  - destruct (readd script fuel t st w) as [s1|] eqn:E; [|discriminate].
    apply readd_ext in E. destruct E as (u1 & L1 & R1 & F1).
    apply IH in H. destruct H as (u2 & L2 & R2 & F2).
    exists (u1 ++ u2). rewrite L2, L1, app_assoc. split; auto. split.
    + intros t'. rewrite readded_app, R1, R2. destruct (N.eqb t t'); auto.
    + rewrite handled_app. apply Forall_app; auto.
Qed.

Theorem tick_exactly_once fuel st st' q' e :
  pop (lq st) = (q', (Some e, true)) -> tick script fuel st = Some st' ->
  exists st1 D R,
    log st1 = log st ++ LPop e :: D /\
    handled_at 0 D = map (fun h => (false, h, e)) (to_run st (fst e) false) /\
    (forall t, readded_on t D = []) /\
    log st' = log st1 ++ R ++ [LTick true] /\
    (forall t, readded_on t R = if N.eqb (fst e) t then waiting st1 (fst e) else []) /\
    Forall (fun x => fst (fst x) = true) (handled_at 0 R).
Proof.
  intros Hpop H. unfold tick in H. rewrite Hpop in H. cbn [negb] in H.
  destruct (dispatch script (add_event script fuel) 0 false (logapp (set_q st q') (LPop e)) e) as [st1|] eqn:E1; [|discriminate].
  destruct (redeliver script fuel st1 (fst e)) as [st2|] eqn:E2; [|discriminate].
  inversion H; subst. unfold dispatch in E1.
  eapply dispatch_list_once in E1; [|intros d' s oe s' Hd Hs; eapply add_event_deeper; eauto].
  destruct E1 as (D & HL & HH & HR). cbn [log logapp set_q] in HL.
  unfold redeliver in E2. apply redeliver_ext in E2. destruct E2 as (R & L2 & R2 & F2).
  exists st1, D, R. cbn [log logapp]. rewrite L2. cbn [clear_waiting log].
  split; [rewrite HL, <- app_assoc; reflexivity|]. split; [exact HH|]. split; [exact HR|].
  split; [rewrite app_assoc; reflexivity|]. split; auto.
Qed.
End Dispatch.

(* ------------------------------------------------------------------------------------------ *)
(* deferred events: exactly once, in deferral order                                           *)
(* ------------------------------------------------------------------------------------------ *)
(* X t = events already taken out of the waiting list of t; Y t = events re-added so far *)
Definition Pdef (X Y : ety -> list event) (st : lstate) : Prop :=
  (forall t, delayed_on t (log st) = X t ++ waiting st t) /\ (forall t, readded_on t (log st) = Y t).

Lemma Pdef_log_only X Y st x :
  (forall t, delayed_on t [x] = []) -> (forall t, readded_on t [x] = []) -> Pdef X Y st -> Pdef X Y (logapp st x).
Proof.
  intros H1 H2 [Hd Hr]. split; intros t; cbn [log logapp waiting].
  - rewrite delayed_app, H1, app_nil_r. auto.
  - rewrite readded_app, H2, app_nil_r. auto.
Qed.
Lemma Pdef_state_only X Y st st' : log st' = log st -> waiting st' = waiting st -> Pdef X Y st -> Pdef X Y st'.
Proof. intros H1 H2 [Hd Hr]. unfold Pdef. rewrite H1, H2. auto. Qed.

Section Deferred.
Variable script : hid -> event -> list action.

Lemma Pdef_push X Y st e : Pdef X Y st -> Pdef X Y (push_report st e).
Proof.
  intros [Hd Hr]. unfold push_report. destruct (push (lq st) (Some e)) as [q' dr].
  split; intros t; cbn [log waiting].
  - rewrite delayed_app, Hd. destruct dr; simpl; rewrite app_nil_r; auto.
  - rewrite readded_app, Hr. destruct dr; simpl; rewrite app_nil_r; auto.
Qed.
Lemma Pdef_delay X Y st t oe : Pdef X Y st -> Pdef X Y (delay_until st t oe).
Proof.
  intros [Hd Hr]. destruct oe as [e|]; cbn [delay_until]; [|split; auto].
  split; intros t'; cbn [log waiting].
  - rewrite delayed_app, Hd. simpl. unfold upd. rewrite N.eqb_sym.
    destruct (N.eqb t' t) eqn:E; simpl.
    + apply N.eqb_eq in E. subst. rewrite app_assoc. reflexivity.
    + rewrite app_nil_r. reflexivity.
  - rewrite readded_app, Hr. simpl. rewrite app_nil_r. auto.
Qed.
Lemma Pdef_reg X Y st t h p r : Pdef X Y st -> Pdef X Y (register st t h p r).
Proof. intros H. unfold register. destruct (find_free (handlers st t)); eapply Pdef_state_only; [| |exact H| | |exact H]; reflexivity. Qed.
Lemma Pdef_unreg X Y st k : Pdef X Y st -> Pdef X Y (unregister st k).
Proof.
  intros H. unfold unregister. destruct (nth_error (tokens st) k) as [[[t i] [|]]|]; exact H.
Qed.

Lemma Pdef_add_event X Y fuel d st oe st' : Pdef X Y st -> add_event script fuel d st oe = Some st' -> Pdef X Y st'.
Proof.
  intros Hp H. eapply add_event_pres with (P := Pdef X Y) (d0 := 0); [..|exact H]; auto; try lia.
  - apply Pdef_push.
  - intros; apply Pdef_log_only; auto.
  - apply Pdef_delay.
  - apply Pdef_reg.
  - apply Pdef_unreg.
Qed.

Definition plus (X : ety -> list event) (t : ety) (l : list event) : ety -> list event :=
  fun t' => X t' ++ (if N.eqb t t' then l else []).

Lemma Pdef_redeliver fuel t X : forall ws done st st',
  Pdef (plus X t (done ++ ws)) (plus X t done) st ->
  fold_opt (readd script fuel t) st ws = Some st' ->
  Pdef (plus X t (done ++ ws)) (plus X t (done ++ ws)) st'.
Proof.
  induction ws as [|w r IH]; simpl; intros done st st' Hp H.
  - inversion H; subst. rewrite app_nil_r in *. auto.
  - destruct (readd script fuel t st w) as [s1|] eqn:E; [|discriminate].
    replace (done ++ w :: r) with ((done ++ [w]) ++ r) in * by (rewrite <- app_assoc; reflexivity).
    eapply IH; [|exact H]. unfold readd in E. eapply Pdef_add_event; [|exact E].
    destruct Hp as [Hd Hr]. split; intros t'; cbn [log logapp waiting].
    + rewrite delayed_app, Hd. simpl. rewrite app_nil_r. auto.
    + rewrite readded_app, Hr. simpl. unfold plus. rewrite N.eqb_sym.
      destruct (N.eqb t' t) eqn:E'; simpl.
      * rewrite <- app_assoc. reflexivity.
      * rewrite app_nil_r. reflexivity.
Qed.

Definition Pdef_inv (st : lstate) : Prop := forall t, delayed_on t (log st) = readded_on t (log st) ++ waiting st t.

Lemma Pdef_inv_intro st : Pdef_inv st -> Pdef (fun t => readded_on t (log st)) (fun t => readded_on t (log st)) st.
Proof. intros H. split; auto. Qed.
Lemma Pdef_inv_elim X st : Pdef X X st -> Pdef_inv st.
Proof. intros [Hd Hr] t. rewrite Hr. auto. Qed.

Lemma Pdef_inv_tick fuel st st' : Pdef_inv st -> tick script fuel st = Some st' -> Pdef_inv st'.
Proof.
  intros Hi H. apply Pdef_inv_intro in Hi. set (X := fun t => readded_on t (log st)) in *.
  unfold tick in H. destruct (pop (lq st)) as [q' [x ok]] eqn:Epop.
  destruct ok; cbn [negb] in H.
  2:{ inversion H; subst. eapply Pdef_inv_elim. apply Pdef_log_only; eauto. }
  destruct x as [e|].
  2:{ inversion H; subst. eapply Pdef_inv_elim. apply Pdef_log_only; auto.
      eapply Pdef_state_only; [| |exact Hi]; reflexivity. }
  destruct (dispatch script (add_event script fuel) 0 false (logapp (set_q st q') (LPop e)) e) as [st1|] eqn:E1; [|discriminate].
  destruct (redeliver script fuel st1 (fst e)) as [st2|] eqn:E2; [|discriminate].
  inversion H; subst.
  assert (H1 : Pdef X X st1).
  { eapply dispatch_pres with (P := Pdef X X) (d0 := 0); [..|exact E1];
      try apply Pdef_push; try apply Pdef_delay; try apply Pdef_reg; try apply Pdef_unreg; try lia;
      try (intros; apply Pdef_log_only; auto; fail);
      try (intros d s oe s' _ Hs Ha; eapply Pdef_add_event; eauto; fail). }
  unfold redeliver in E2.
  eapply Pdef_redeliver with (X := X) (done := []) in E2.
  - eapply Pdef_inv_elim. apply Pdef_log_only; auto. exact E2.
  - destruct H1 as [Hd Hr]. split; intros t; cbn [clear_waiting log waiting app].
    + rewrite Hd. unfold plus, upd. rewrite N.eqb_sym. destruct (N.eqb t (fst e)) eqn:E.
      * apply N.eqb_eq in E. subst. rewrite app_nil_r. reflexivity.
      * rewrite app_nil_r. reflexivity.
    + rewrite Hr. unfold plus. destruct (N.eqb (fst e) t); rewrite app_nil_r; auto.
Qed.

Lemma Pdef_inv_step fuel st o st' : Pdef_inv st -> step script fuel st o = Some st' -> Pdef_inv st'.
Proof.
  intros Hi H. destruct o; cbn [step] in H; [|eapply Pdef_inv_tick; eauto].
  apply Pdef_inv_intro in Hi. eapply Pdef_inv_elim.
  eapply do_action_pres with (P := Pdef _ _) (d0 := 0); [..|exact H];
    try apply Pdef_push; try apply Pdef_delay; try apply Pdef_reg; try apply Pdef_unreg; try lia;
    try (intros; apply Pdef_log_only; auto; fail);
    try (intros d s oe s' _ Hs Ha; eapply Pdef_add_event; eauto; fail).
  exact Hi.
Qed.

(* in every reachable state and for every type t: the events deferred on t so far are, in
   deferral order, those already re-added (each once) followed by those still waiting *)
Theorem deferred_once_in_order fuel c ops st0 st :
  new_loop c = Ok st0 -> run script fuel st0 ops = Some st ->
  forall t, delayed_on t (log st) = readded_on t (log st) ++ waiting st t.
Proof.
  intros H0 Hrun. unfold run in Hrun.
  eapply fold_opt_inv with (Q := Pdef_inv); [| |exact Hrun].
  - intros s x s' Hs Hx. eapply Pdef_inv_step; eauto.
  - unfold new_loop in H0. destruct (new_queue c); try discriminate. inversion H0; subst. intros t. reflexivity.
Qed.

(* operations other than Tick never re-add a deferred event *)
Theorem only_tick_readds fuel st a st' :
  do_action (add_event script fuel) 0 st a = Some st' ->
  exists suf, log st' = log st ++ suf /\ forall t, readded_on t suf = [].
Proof.
  intros H. destruct a; cbn [do_action] in H.
  - destruct oe as [e|].
    + apply add_event_exactly_once in H. destruct H as (st1 & D & HL & _ & HR & ->).
      unfold push_report. destruct (push (lq st1) (Some e)) as [q' dr]. cbn [log].
      exists (D ++ LPush e :: match dr with Some x => [LDrop x] | None => [] end).
      rewrite HL, <- app_assoc. split; auto. intros t. rewrite readded_app, HR. destruct dr; auto.
    + destruct fuel; cbn [add_event] in H; inversion H; subst; exists []; rewrite app_nil_r; auto.
  - inversion H; subst. destruct oe; cbn [delay_until log].
    + eexists; split; [reflexivity|]. auto.
    + exists []; rewrite app_nil_r; auto.
  - inversion H; subst. exists []. rewrite app_nil_r. split; auto.
    unfold register. destruct (find_free (handlers st t)); reflexivity.
  - inversion H; subst. exists []. rewrite app_nil_r. split; auto.
    unfold unregister. destruct (nth_error (tokens st) k) as [[[? ?] [|]]|]; reflexivity.
Qed.
End Deferred.

(* ------------------------------------------------------------------------------------------ *)
(* registered = Register was called and the closure it returned has not been called yet        *)
(* ------------------------------------------------------------------------------------------ *)
Lemma lset_length {X} (l : list X) i x : length (lset l i x) = length l.
Proof. revert i; induction l; destruct i; simpl; auto. Qed.
Lemma lset_nth_same {X} (l : list X) i x : i < length l -> nth_error (lset l i x) i = Some x.
Proof. revert i; induction l; destruct i; simpl; intros; try lia; auto. apply IHl. lia. Qed.
Lemma lset_nth_other {X} (l : list X) i j x : j <> i -> nth_error (lset l i x) j = nth_error l j.
Proof. revert i j; induction l; destruct i, j; simpl; intros; auto; try lia. Qed.

Lemma find_free_some hs i : find_free hs = Some i -> exists s, nth_error hs i = Some s /\ s_cb s = None.
Proof.
  revert i; induction hs as [|s r IH]; simpl; intros i H; [discriminate|].
  destruct (s_cb s) eqn:E.
  - destruct (find_free r) as [j|]; simpl in H; [|discriminate]. inversion H; subst. simpl. apply IH; auto.
  - inversion H; subst. simpl. eauto.
Qed.
Lemma find_free_none hs : find_free hs = None -> forall i s, nth_error hs i = Some s -> s_cb s <> None.
Proof.
  induction hs as [|s r IH]; simpl; intros H i s0 Hn; [destruct i; discriminate|].
  destruct (s_cb s) eqn:E; [|discriminate].
  destruct (find_free r); simpl in H; [discriminate|].
  destruct i; simpl in Hn; [inversion Hn; subst; congruence|]. eapply IH; eauto.
Qed.

Definition live_slot (st : lstate) (t : ety) (i : nat) : Prop :=
  exists s, nth_error (handlers st t) i = Some s /\ s_cb s <> None.

(* the handler table and the unregister closures agree: slot (t,i) holds a callback iff exactly one
   closure that has not been called yet points to it *)
Definition Ptok (st : lstate) : Prop :=
  (forall t i, live_slot st t i <-> exists k, nth_error (tokens st) k = Some (t, i, false)) /\
  (forall k k' t i, nth_error (tokens st) k = Some (t, i, false) ->
                    nth_error (tokens st) k' = Some (t, i, false) -> k = k').

Lemma Ptok_same st st' : handlers st' = handlers st -> tokens st' = tokens st -> Ptok st -> Ptok st'.
Proof. intros H1 H2 H. unfold Ptok, live_slot. rewrite H1, H2. exact H. Qed.

(* where Register puts the handler *)
Definition reg_index (st : lstate) (t : ety) : nat :=
  match find_free (handlers st t) with Some i => i | None => length (handlers st t) end.

Lemma register_tokens st t h p r : tokens (register st t h p r) = tokens st ++ [(t, reg_index st t, false)].
Proof. unfold register, reg_index. destruct (find_free (handlers st t)); reflexivity. Qed.

Lemma reg_index_free st t : ~ live_slot st t (reg_index st t).
Proof.
  unfold reg_index, live_slot. intros (s & Hn & Hs). destruct (find_free (handlers st t)) as [i|] eqn:E.
  - apply find_free_some in E. destruct E as (s' & Hn' & Hs'). congruence.
  - assert (nth_error (handlers st t) (length (handlers st t)) = None) by (apply nth_error_None; lia). congruence.
Qed.

Lemma register_live st t h p r t' i' :
  live_slot (register st t h p r) t' i' <-> (t' = t /\ i' = reg_index st t) \/ live_slot st t' i'.
Proof.
  pose proof (reg_index_free st t) as Hfree.
  unfold register, reg_index, live_slot in *.
  destruct (find_free (handlers st t)) as [i|] eqn:E; cbn [handlers]; unfold upd.
  - apply find_free_some in E. destruct E as (s0 & Hn0 & Hs0).
    assert (Hlt : i < length (handlers st t)) by (apply nth_error_Some; congruence).
    destruct (N.eqb_spec t' t) as [->|Hne].
    + unfold set_slot. destruct (Nat.eq_dec i' i) as [->|Hi].
      * rewrite lset_nth_same by auto. split; [auto|]. intros _. eexists; split; [reflexivity|]. simpl. discriminate.
      * rewrite lset_nth_other by auto. split; [auto|]. intros [[_ ?]|?]; [lia|auto].
    + split; [auto|]. intros [[? _]|?]; [congruence|auto].
  - destruct (N.eqb_spec t' t) as [->|Hne].
    + destruct (Nat.eq_dec i' (length (handlers st t))) as [->|Hi].
      * rewrite nth_error_app2 by lia. rewrite Nat.sub_diag. simpl. split; [auto|].
        intros _. eexists; split; [reflexivity|]. simpl. discriminate.
      * split.
        { intros (s & Hn & Hs). right. exists s. split; auto.
          destruct (Nat.lt_ge_cases i' (length (handlers st t))).
          - rewrite nth_error_app1 in Hn by auto. auto.
          - rewrite nth_error_app2 in Hn by auto. destruct (i' - length (handlers st t)) eqn:D; [lia|].
            simpl in Hn. destruct n; discriminate. }
        { intros [[_ ?]|(s & Hn & Hs)]; [lia|]. exists s. split; auto.
          rewrite nth_error_app1; auto. apply nth_error_Some. congruence. }
    + split; [auto|]. intros [[? _]|?]; [congruence|auto].
Qed.

Lemma Ptok_reg st t h p r : Ptok st -> Ptok (register st t h p r).
Proof.
  intros [Hiff Huniq]. pose proof (reg_index_free st t) as Hfree.
  assert (Hnotok : forall k, nth_error (tokens st) k <> Some (t, reg_index st t, false)).
  { intros k Hk. apply Hfree. apply Hiff. eauto. }
  split.
  - intros t' i'. rewrite register_live, register_tokens. split.
    + intros [[-> ->]|Hl].
      * exists (length (tokens st)). rewrite nth_error_app2 by lia. rewrite Nat.sub_diag. reflexivity.
      * apply Hiff in Hl. destruct Hl as (k & Hk). exists k. rewrite nth_error_app1; auto.
        apply nth_error_Some. congruence.
    + intros (k & Hk). destruct (Nat.lt_ge_cases k (length (tokens st))).
      * rewrite nth_error_app1 in Hk by auto. right. apply Hiff. eauto.
      * rewrite nth_error_app2 in Hk by auto. destruct (k - length (tokens st)) eqn:D.
        { simpl in Hk. inversion Hk; subst. left; auto. }
        { simpl in Hk. destruct n; discriminate. }
  - intros k k' t' i'. rewrite register_tokens. intros Hk Hk'.
    destruct (Nat.lt_ge_cases k (length (tokens st))) as [L|L]; destruct (Nat.lt_ge_cases k' (length (tokens st))) as [L'|L'].
    + rewrite nth_error_app1 in Hk, Hk' by auto. eapply Huniq; eauto.
    + rewrite nth_error_app1 in Hk by auto. rewrite nth_error_app2 in Hk' by auto.
      destruct (k' - length (tokens st)) eqn:D; simpl in Hk'; [|destruct n; discriminate].
      inversion Hk'; subst. exfalso. eapply Hnotok; eauto.
    + rewrite nth_error_app1 in Hk' by auto. rewrite nth_error_app2 in Hk by auto.
      destruct (k - length (tokens st)) eqn:D; simpl in Hk; [|destruct n; discriminate].
      inversion Hk; subst. exfalso. eapply Hnotok; eauto.
    + rewrite nth_error_app2 in Hk, Hk' by auto.
      destruct (k - length (tokens st)) eqn:D; simpl in Hk; [|destruct n; discriminate].
      destruct (k' - length (tokens st)) eqn:D'; simpl in Hk'; [|destruct n; discriminate]. lia.
Qed.

Lemma clear_cb_live hs i j :
  (exists s, nth_error (clear_cb hs i) j = Some s /\ s_cb s <> None) <->
  (j <> i /\ exists s, nth_error hs j = Some s /\ s_cb s <> None).
Proof.
  unfold clear_cb. destruct (nth_error hs i) as [s0|] eqn:E.
  - assert (Hlt : i < length hs) by (apply nth_error_Some; congruence). unfold set_slot.
    destruct (Nat.eq_dec j i) as [->|Hj].
    + rewrite lset_nth_same by auto. split.
      * intros (s & Hs & Hc). inversion Hs; subst. simpl in Hc. congruence.
      * intros [? _]. congruence.
    + rewrite lset_nth_other by auto. tauto.
  - split.
    + intros (s & Hs & Hc). split; eauto. intros ->. congruence.
    + tauto.
Qed.

Lemma Ptok_unreg st k : Ptok st -> Ptok (unregister st k).
Proof.
  intros [Hiff Huniq]. unfold unregister.
  destruct (nth_error (tokens st) k) as [[[t i] [|]]|] eqn:Ek; try (split; assumption).
  assert (Hlt : k < length (tokens st)) by (apply nth_error_Some; congruence).
  split.
  - intros t' i'. unfold live_slot. cbn [handlers tokens]. unfold upd.
    destruct (N.eqb_spec t' t) as [->|Hne].
    + rewrite clear_cb_live. split.
      * intros [Hi Hl]. apply Hiff in Hl. destruct Hl as (k' & Hk'). exists k'.
        rewrite lset_nth_other; auto. intros ->. rewrite Ek in Hk'. inversion Hk'; subst. congruence.
      * intros (k' & Hk'). destruct (Nat.eq_dec k' k) as [->|Hkk].
        { rewrite lset_nth_same in Hk' by auto. discriminate. }
        rewrite lset_nth_other in Hk' by auto. split.
        { intros ->. apply Hkk. eapply Huniq; eauto. }
        { apply Hiff. eauto. }
    + split.
      * intros Hl. apply Hiff in Hl. destruct Hl as (k' & Hk'). exists k'.
        rewrite lset_nth_other; auto. intros ->. rewrite Ek in Hk'. inversion Hk'; subst. congruence.
      * intros (k' & Hk'). destruct (Nat.eq_dec k' k) as [->|Hkk].
        { rewrite lset_nth_same in Hk' by auto. discriminate. }
        rewrite lset_nth_other in Hk' by auto. apply Hiff. eauto.
  - intros k1 k2 t' i'. cbn [tokens]. intros H1 H2.
    destruct (Nat.eq_dec k1 k) as [->|N1]; [rewrite lset_nth_same in H1 by auto; discriminate|].
    destruct (Nat.eq_dec k2 k) as [->|N2]; [rewrite lset_nth_same in H2 by auto; discriminate|].
    rewrite lset_nth_other in H1, H2 by auto. eapply Huniq; eauto.
Qed.

Theorem registered_iff_not_unregistered script fuel c ops st0 st :
  new_loop c = Ok st0 -> run script fuel st0 ops = Some st -> Ptok st.
Proof.
  intros H0 Hrun. eapply run_pres with (P := Ptok) (d0 := 0); [..|exact Hrun].
  - intros s e Hs. unfold push_report. destruct (push (lq s) (Some e)). eapply Ptok_same; [| |exact Hs]; reflexivity.
  - intros; eapply Ptok_same; [| |eassumption]; reflexivity.
  - intros s t oe Hs. destruct oe; cbn [delay_until]; exact Hs.
  - intros; apply Ptok_reg; auto.
  - intros; apply Ptok_unreg; auto.
  - lia.
  - intros; eapply Ptok_same; [| |eassumption]; reflexivity.
  - intros; eapply Ptok_same; [| |eassumption]; reflexivity.
  - intros; eapply Ptok_same; [| |eassumption]; reflexivity.
  - intros; eapply Ptok_same; [| |eassumption]; reflexivity.
  - intros; eapply Ptok_same; [| |eassumption]; reflexivity.
  - unfold new_loop in H0. destruct (new_queue c); try discriminate. inversion H0; subst.
    split; unfold live_slot; cbn [handlers tokens].
    + intros t i. split.
      * intros (s & Hs & _). destruct i; discriminate.
      * intros (k & Hk). destruct k; discriminate.
    + intros k k' t i Hk. destruct k; discriminate.
Qed.

(* calling an unregister closure a second time changes nothing *)
Theorem unregister_idempotent st k : unregister (unregister st k) k = unregister st k.
Proof.
  unfold unregister at 2 3. destruct (nth_error (tokens st) k) as [[[t i] [|]]|] eqn:Ek.
  - unfold unregister. rewrite Ek. reflexivity.
  - unfold unregister. cbn [tokens]. rewrite lset_nth_same by (apply nth_error_Some; congruence). reflexivity.
  - unfold unregister. rewrite Ek. reflexivity.
Qed.

(* the closure of the unpatched tree is not idempotent: registering h1, calling its closure,
   registering h2 (it reuses the slot) and calling the FIRST closure again removes h2 *)
Definition stale_demo (unreg : lstate -> nat -> lstate) : list hid :=
  let st0 := mkL (mkQ [None] (-1)%Z (-1)%Z) (fun _ => []) (fun _ => []) [] [] in
  let st := unreg (register (unreg (register st0 0%N 1%N false false) 0) 0%N 2%N false false) 0 in
  to_run st 0%N false.
Theorem unregister_current_refuted : stale_demo unregister_current = [] /\ stale_demo unregister = [2%N].
Proof. split; vm_compute; reflexivity. Qed.

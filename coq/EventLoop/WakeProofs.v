(* C14 — the wake-up of the Run loop is level-triggered with the buffered ready channel: a pending
   event implies that the consumer is running or that a w_token is waiting for it, under every
   interleaving of producers and the consumer; with the unbuffered channel it is not. *)
From HS Require Import Base.Prelude EventLoop.QueueModel EventLoop.WakeModel.
Local Open Scope nat_scope.

Definition wake_inv (s : wstate) : Prop := w_pending s > 0 -> w_pc s = Running \/ w_token s = true.

Lemma wake_inv_step s x : wake_inv s -> wake_inv (w_step true s x).
Proof.
  unfold wake_inv. intros H. destruct x; cbn [w_step push_step].
  - cbn. auto.
  - unfold cons_step. destruct s as [p h t c]; cbn in *. destruct c.
    + destruct p; cbn; intros; auto; lia.
    + destruct t; cbn; intros; auto. destruct (H H0); congruence.
    + destruct t; cbn; intros; auto.
Qed.

Theorem wake_level_triggered : forall sched, wake_inv (w_run true w_init sched).
Proof.
  intros sched. unfold w_run. assert (H : wake_inv w_init) by (unfold wake_inv; cbn; lia).
  revert H. generalize w_init. induction sched as [|x r IH]; cbn [fold_left]; intros s H; auto.
  apply IH. apply wake_inv_step. auto.
Qed.

(* ... hence a pending event is handled by the consumer's next two steps, no further push needed *)
Theorem wake_progress : forall sched, let s := w_run true w_init sched in
  w_pending s > 0 -> w_handled (w_run true s [Cons; Cons]) > w_handled s.
Proof.
  intros sched s Hp. pose proof (wake_level_triggered sched) as H. fold s in H.
  specialize (H Hp). destruct s as [p h t c]; cbn in *. destruct p; [lia|].
  destruct H as [->| ->]; cbn.
  - destruct p; cbn; lia.
  - destruct c; cbn; try lia. destruct p; cbn; lia.
Qed.

(* nothing is handled twice or invented: handled + pending = number of pushes, for both channels *)
Lemma count_step b s x : w_handled (w_step b s x) + w_pending (w_step b s x) =
  w_handled s + w_pending s + match x with Push => 1 | Cons => 0 end.
Proof.
  destruct x; cbn [w_step].
  - unfold push_step. destruct b; [cbn; lia|]. destruct (w_pc s); cbn; lia.
  - unfold cons_step. destruct s as [p h t c]; cbn. destruct c; [destruct p| |]; cbn; try lia; destruct t; cbn; lia.
Qed.
Theorem wake_conservation : forall b sched, let s := w_run b w_init sched in
  w_handled s + w_pending s = length (filter (fun x => match x with Push => true | Cons => false end) sched).
Proof.
  intros b sched. unfold w_run.
  assert (G : forall s, w_handled (fold_left (w_step b) sched s) + w_pending (fold_left (w_step b) sched s) =
                        w_handled s + w_pending s + length (filter (fun x => match x with Push => true | Cons => false end) sched)).
  { induction sched as [|x r IH]; cbn [fold_left filter]; intros s; [cbn; lia|].
    rewrite IH, count_step. destruct x; cbn; lia. }
  cbn. rewrite G. cbn. lia.
Qed.

(* the unbuffered channel of the unpatched tree: a push between the failed pop and the select is not
   noticed; the consumer blocks with an event w_pending, for any number of its own steps, until some
   other push happens to arrive, which then delivers both *)
Theorem wake_unbuffered_refuted :
  let s := w_run false w_init [Cons; Push; Cons] in
  w_pending s = 1 /\ w_handled s = 0 /\ cons_step s = None /\
  (forall n, w_run false s (repeat Cons n) = s) /\
  w_handled (w_run false s [Push; Cons; Cons]) = 2.
Proof.
  cbn. repeat split; auto. induction n; cbn; auto.
Qed.

(* the signal of the repaired queue persists: after a push, the next non-blocking receive on ready()
   succeeds whatever pops and len calls happen in between *)
Section Signal.
Context {A : Type}.
Definition quiet (o : sop A) : bool := match o with SOp (QPush _) => false | SOp _ => true | SPoll => false end.

Lemma quiet_keeps_token : forall (ops : list (sop A)) (s : QueueModel.queue A * bool),
  forallb quiet ops = true -> snd s = true ->
  exists outs, s_run true s (ops ++ [SPoll]) = outs ++ [SPolled true].
Proof.
  induction ops as [|o r IH]; intros s Hq Ht.
  - exists []. cbn. rewrite Ht. auto.
  - cbn [forallb] in Hq. apply andb_prop in Hq. destruct Hq as [Ho Hr].
    cbn [app s_run]. destruct o as [o'|]; [|discriminate]. destruct o' as [x| |]; [discriminate| |];
    cbn [s_step]; destruct (q_step push (fst s) _) as [q' out] eqn:E.
    + destruct (IH (q', snd s) Hr Ht) as (outs & E1). rewrite E1. exists (SOut out :: outs). reflexivity.
    + destruct (IH (q', snd s) Hr Ht) as (outs & E1). rewrite E1. exists (SOut out :: outs). reflexivity.
Qed.

Theorem signal_persists : forall (s : QueueModel.queue A * bool) (x : option A) (ops : list (sop A)),
  forallb quiet ops = true ->
  exists outs, s_run true s (SOp (QPush x) :: ops ++ [SPoll]) = outs ++ [SPolled true].
Proof.
  intros s x ops Hq. cbn [s_run s_step]. destruct (q_step push (fst s) (QPush x)) as [q' out].
  destruct (quiet_keeps_token ops (q', true || snd s) Hq eq_refl) as (outs & E).
  rewrite E. exists (SOut out :: outs). reflexivity.
Qed.
End Signal.

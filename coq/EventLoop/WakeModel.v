(* C14 — the consumer side of EventLoop.Run against concurrent producers, reduced to what decides
   whether a pending event gets handled without a further push: definitions only.

   Run:   loop { event, ok := pop()          -- [Running]: one atomic section
                 if !ok { select { case <-ready(): continue; case <-ctx.Done(): ... } }
                                              -- [Checked]: the pop failed, the select is not entered yet
                                              -- [Waiting]: blocked in the select
                 processEvent(event) }
   push:  append the entry, then a non-blocking send on readyChan (both inside the queue's mutex).
   Every push / pop / channel operation is one atomic step; a schedule is any interleaving of producer
   pushes and consumer steps.  [buffered = true] is the repaired readyChan (one slot,
   fixes/C14-ready-signal-not-lost.patch); [buffered = false] the unbuffered channel of the tree before
   it, whose non-blocking send only succeeds if the consumer is blocked in the select at that moment.
   Cancellation of the context is not part of this model (Run then leaves the loop). *)
From HS Require Import Base.Prelude.

Inductive cpc := Running | Checked | Waiting.
Record wstate := mkW { w_pending : nat; w_handled : nat; w_token : bool; w_pc : cpc }.
Definition w_init : wstate := mkW 0 0 false Running.

Definition push_step (buffered : bool) (s : wstate) : wstate :=
  if buffered then mkW (S (w_pending s)) (w_handled s) true (w_pc s)
  else match w_pc s with
       | Waiting => mkW (S (w_pending s)) (w_handled s) (w_token s) Running   (* handed over to the waiting consumer *)
       | _ => mkW (S (w_pending s)) (w_handled s) (w_token s) (w_pc s)          (* nobody receives: the send is dropped *)
       end.

(* one step of the consumer; None = it is blocked *)
Definition cons_step (s : wstate) : option wstate :=
  match w_pc s with
  | Running =>
      match w_pending s with
      | O => Some (mkW 0 (w_handled s) (w_token s) Checked)
      | S n => Some (mkW n (S (w_handled s)) (w_token s) Running)
      end
  | Checked => if w_token s then Some (mkW (w_pending s) (w_handled s) false Running)
               else Some (mkW (w_pending s) (w_handled s) false Waiting)
  | Waiting => if w_token s then Some (mkW (w_pending s) (w_handled s) false Running) else None
  end.

Inductive wstep := Push | Cons.
Definition w_step (buffered : bool) (s : wstate) (x : wstep) : wstate :=
  match x with
  | Push => push_step buffered s
  | Cons => match cons_step s with Some s' => s' | None => s end
  end.
Definition w_run (buffered : bool) (s : wstate) (sched : list wstep) : wstate := fold_left (w_step buffered) sched s.

(* C12 — executable model of the wire conversion layer.  No proofs here.

   Go code mirrored (branch by branch):
     internal/proto/hotstuffpb/convert.go   XToProto / XFromProto for the eight object kinds
     block.go  types.go  events.go          ToBytes builders (bytes-to-sign), NewPartialCert
     security/crypto/bitfield.go            BitfieldFromBytes / RangeWhile (participants of a BLS signature)
     security/crypto/multisignature.go      Multi.ToBytes / Participants
     server/server.go                       Propose / Timeout handlers (sender id comes from the connection)
     network/sender.go                      qspec.RequestBlockQF (hash check on fetched blocks)

   Conventions.  A byte string is a [list N] (elements < 256 in every harness case; the model never
   depends on that).  Hashes are byte strings (Go: [32]byte; [fix32] is `copy(h[:], bs)`).
   The protobuf library is trusted: a protobuf message is modelled by its field record with every
   message-typed field an [option] (proto3 presence) and a oneof as a sum with a "not set" case.
   A command batch is represented by its deterministic protobuf marshalling Batch.Marshal() (a nil
   batch and an empty one both marshal to the empty string and are not distinguished); that
   Unmarshal(Marshal(b)) marshals again to the same bytes is the trusted-library assumption (the
   harness checks it on every case).  Decompression of a BLS12-381 G2 point is an external call: the Section variable
   [bls_decode] returns the canonical re-encoding of a decodable point.  *)
From HS Require Import Base.Prelude.
Open Scope N_scope.

Definition bytes := list N.

(* ---------- integers ---------- *)
Definition u32 (x : N) : N := x mod 2^32.       (* uint32(x) *)
Definition u64 (x : N) : N := x mod 2^64.       (* uint64(x) *)

(* binary.LittleEndian.PutUintNN *)
Fixpoint le_bytes (n : nat) (v : N) : bytes :=
  match n with
  | O => []
  | S k => (v mod 256) :: le_bytes k (v / 256)
  end.
Definition le32 (v : N) : bytes := le_bytes 4 v.
Definition le64 (v : N) : bytes := le_bytes 8 v.

(* var h Hash; copy(h[:], bs) *)
Fixpoint fix_len (n : nat) (bs : bytes) : bytes :=
  match n with
  | O => []
  | S k => match bs with
           | [] => 0 :: fix_len k []
           | x :: r => x :: fix_len k r
           end
  end.
Definition fix32 (bs : bytes) : bytes := fix_len 32 bs.

Definition bytes_eqb (a b : bytes) : bool := list_eqb N.eqb a b.

(* ---------- time.Time as (Unix(), Nanosecond()) ---------- *)
Definition ts := (Z * Z)%type.
Definition wrap_i64 (z : Z) : Z := ((z + 2^63) mod 2^64 - 2^63)%Z.

(* time.Unix(sec, nsec) observed through Unix()/Nanosecond() *)
Definition time_unix (sec nsec : Z) : ts :=
  (if (nsec <? 0) || (nsec >=? 10^9) then
     let n := Z.quot nsec (10^9) in
     let sec := sec + n in
     let nsec := nsec - n * 10^9 in
     if nsec <? 0 then (wrap_i64 (sec - 1), nsec + 10^9) else (wrap_i64 sec, nsec)
   else (wrap_i64 sec, nsec))%Z.

(* uint64(t.UnixNano()) *)
Definition ts_nanos (t : ts) : N := Z.to_N ((fst t * 10^9 + snd t) mod 2^64)%Z.

(* timestamppb.New(t) / Timestamp.AsTime() (nil-safe getters on a nil pointer) *)
Definition to_pb_ts (t : ts) : option (Z * Z) := Some t.
Definition from_pb_ts (o : option (Z * Z)) : ts :=
  match o with
  | None => time_unix 0 0
  | Some (s, n) => time_unix s n
  end.

(* ---------- protocol-side objects ---------- *)
Inductive qsig :=
| SigECDSA (l : list (rid * bytes))     (* crypto.Multi[*ECDSASignature], in slice order *)
| SigEDDSA (l : list (rid * bytes))     (* crypto.Multi[*EDDSASignature] *)
| SigBLS (s bf : bytes)                 (* compressed G2 point, bitfield bytes *)
| SigNil.                               (* nil interface *)

Record qc := mkQC { qc_sig : qsig; qc_view : N; qc_hash : bytes }.
Record pcert := mkPC { pc_signer : rid; pc_sig : qsig; pc_hash : bytes }.
Record tc := mkTC { tc_sig : qsig; tc_view : N }.
(* the id -> QC map as an association list sorted by id (the harness sorts) *)
Record aggqc := mkAgg { agg_qcs : list (rid * qc); agg_sig : qsig; agg_view : N }.
Record syncinfo := mkSync { si_qc : option qc; si_tc : option tc; si_agg : option aggqc }.
Record timeoutmsg := mkTimeout { tm_id : rid; tm_view : N; tm_viewsig : qsig; tm_msgsig : qsig; tm_sync : syncinfo }.
Record block := mkBlock { b_parent : bytes; b_proposer : rid; b_batch : bytes; b_cert : qc; b_view : N; b_ts : ts }.
Record proposal := mkProposal { p_id : rid; p_block : block; p_agg : option aggqc }.

(* ---------- protobuf-side messages ---------- *)
Inductive pb_qsig :=
| PbECDSA (l : list (N * bytes))
| PbBLS (s bf : bytes)
| PbEDDSA (l : list (N * bytes))
| PbNone.                               (* oneof not set *)

Record pb_qc := mkPbQC { pq_sig : option pb_qsig; pq_view : N; pq_hash : bytes }.
Record pb_pc := mkPbPC { ppc_sig : option pb_qsig; ppc_hash : bytes }.
Record pb_tc := mkPbTC { ptc_sig : option pb_qsig; ptc_view : N }.
Record pb_agg := mkPbAgg { pa_qcs : list (N * pb_qc); pa_sig : option pb_qsig; pa_view : N }.
Record pb_sync := mkPbSync { ps_qc : option pb_qc; ps_tc : option pb_tc; ps_agg : option pb_agg }.
Record pb_timeout := mkPbTimeout { pt_view : N; pt_sync : option pb_sync; pt_viewsig : option pb_qsig; pt_msgsig : option pb_qsig }.
Record pb_block := mkPbBlock { pbb_parent : bytes; pbb_qc : option pb_qc; pbb_view : N; pbb_cmds : bytes;
                               pbb_proposer : N; pbb_ts : option (Z * Z) }.
Record pb_proposal := mkPbProposal { pp_block : option pb_block; pp_agg : option pb_agg }.

(* ---------- XToProto ---------- *)
Definition to_pb_entry (e : rid * bytes) : N * bytes := (u32 (fst e), snd e).

(* QuorumSignatureToProto: type switch without default; nil falls through to the empty message *)
Definition to_pb_sig (s : qsig) : pb_qsig :=
  match s with
  | SigECDSA l => PbECDSA (map to_pb_entry l)
  | SigEDDSA l => PbEDDSA (map to_pb_entry l)
  | SigBLS s bf => PbBLS s bf
  | SigNil => PbNone
  end.

Definition to_pb_pc (c : pcert) : pb_pc := mkPbPC (Some (to_pb_sig (pc_sig c))) (pc_hash c).
Definition to_pb_qc (q : qc) : pb_qc := mkPbQC (Some (to_pb_sig (qc_sig q))) (u64 (qc_view q)) (qc_hash q).
Definition to_pb_tc (t : tc) : pb_tc := mkPbTC (Some (to_pb_sig (tc_sig t))) (u64 (tc_view t)).
Definition to_pb_agg (a : aggqc) : pb_agg :=
  mkPbAgg (map (fun e => (u32 (fst e), to_pb_qc (snd e))) (agg_qcs a)) (Some (to_pb_sig (agg_sig a))) (u64 (agg_view a)).
Definition to_pb_sync (s : syncinfo) : pb_sync :=
  mkPbSync (option_map to_pb_qc (si_qc s)) (option_map to_pb_tc (si_tc s)) (option_map to_pb_agg (si_agg s)).
Definition to_pb_timeout (m : timeoutmsg) : pb_timeout :=
  mkPbTimeout (u64 (tm_view m)) (Some (to_pb_sync (tm_sync m))) (Some (to_pb_sig (tm_viewsig m)))
              (match tm_msgsig m with SigNil => None | s => Some (to_pb_sig s) end).
Definition to_pb_block (b : block) : pb_block :=
  mkPbBlock (b_parent b) (Some (to_pb_qc (b_cert b))) (u64 (b_view b)) (b_batch b) (u32 (b_proposer b)) (to_pb_ts (b_ts b)).
Definition to_pb_proposal (p : proposal) : pb_proposal :=
  mkPbProposal (Some (to_pb_block (p_block p))) (option_map to_pb_agg (p_agg p)).

(* ---------- participants ---------- *)
(* Bitfield.RangeWhile: ids of the set bits, byte by byte, bit 0 first; id = 1 + 8*byteIdx + bitIdx *)
Definition byte_ids (byteIdx : N) (b : N) : list rid :=
  flat_map (fun bit => if N.testbit b bit then [u32 (1 + byteIdx * 8 + bit)] else []) [0;1;2;3;4;5;6;7].
Fixpoint bitfield_ids_from (byteIdx : N) (data : bytes) : list rid :=
  match data with
  | [] => []
  | b :: r => byte_ids byteIdx b ++ bitfield_ids_from (byteIdx + 1) r
  end.
Definition bitfield_ids (data : bytes) : list rid := bitfield_ids_from 0 data.

(* sig.Participants() enumerated with ForEach; a nil interface panics *)
Definition sig_participants (s : qsig) : result (list rid) :=
  match s with
  | SigECDSA l | SigEDDSA l => Ok (map fst l)
  | SigBLS _ bf => Ok (bitfield_ids bf)
  | SigNil => Panic
  end.

(* Multi.ToBytes (repaired, fixes/C12-multi-bytes-frame-signatures.patch): every signer's signature
   bytes preceded by their length (uint32 LE) *)
Definition framed (l : list (rid * bytes)) : bytes :=
  concat (map (fun e => le32 (N.of_nat (length (snd e))) ++ snd e) l).

(* sig.ToBytes() *)
Definition sig_bytes (s : qsig) : result bytes :=
  match s with
  | SigECDSA l | SigEDDSA l => Ok (framed l)
  | SigBLS s _ => Ok s
  | SigNil => Panic
  end.

(* Multi.ToBytes before that repair: the signatures back to back (kept for the refutation witnesses) *)
Definition sig_bytes_unframed (s : qsig) : result bytes :=
  match s with
  | SigECDSA l | SigEDDSA l => Ok (concat (map snd l))
  | SigBLS s _ => Ok s
  | SigNil => Panic
  end.

(* ---------- XFromProto ---------- *)
Section FromPb.
  (* bls12.NewG2().FromCompressed followed by ToCompressed: Some canonical bytes, None = not a point *)
  Variable bls_decode : bytes -> option bytes.

  Definition from_pb_entry (e : N * bytes) : rid * bytes := (u32 (fst e), snd e).

  (* QuorumSignatureFromProto(sig) with nil-safe getters *)
  Definition from_pb_sig (o : option pb_qsig) : qsig :=
    match o with
    | None => SigNil
    | Some (PbECDSA l) => SigECDSA (map from_pb_entry l)
    | Some (PbEDDSA l) => SigEDDSA (map from_pb_entry l)
    | Some (PbBLS s bf) => match bls_decode s with
                           | Some s' => SigBLS s' bf
                           | None => SigNil          (* restore error: return nil *)
                           end
    | Some PbNone => SigNil
    end.

  (* NewPartialCert: first participant (0 if none); a nil signature has no signer *)
  Definition new_partial_cert (s : qsig) (h : bytes) : result pcert :=
    match sig_participants s with
    | Ok ids => Ok (mkPC (hd 0 ids) s h)
    | _ => Ok (mkPC 0 s h)
    end.

  Definition from_pb_pc (o : option pb_pc) : result pcert :=
    match o with
    | None => new_partial_cert SigNil (fix32 [])
    | Some c => new_partial_cert (from_pb_sig (ppc_sig c)) (fix32 (ppc_hash c))
    end.

  Definition from_pb_qc (o : option pb_qc) : qc :=
    match o with
    | None => mkQC SigNil 0 (fix32 [])
    | Some q => mkQC (from_pb_sig (pq_sig q)) (u64 (pq_view q)) (fix32 (pq_hash q))
    end.

  Definition from_pb_tc (o : option pb_tc) : tc :=
    match o with
    | None => mkTC SigNil 0
    | Some t => mkTC (from_pb_sig (ptc_sig t)) (u64 (ptc_view t))
    end.

  Definition from_pb_agg (o : option pb_agg) : aggqc :=
    match o with
    | None => mkAgg [] SigNil 0
    | Some a => mkAgg (map (fun e => (u32 (fst e), from_pb_qc (Some (snd e)))) (pa_qcs a))
                      (from_pb_sig (pa_sig a)) (u64 (pa_view a))
    end.

  Definition from_pb_sync (o : option pb_sync) : syncinfo :=
    match o with
    | None => mkSync None None None
    | Some s => mkSync (match ps_qc s with Some q => Some (from_pb_qc (Some q)) | None => None end)
                       (match ps_tc s with Some t => Some (from_pb_tc (Some t)) | None => None end)
                       (match ps_agg s with Some a => Some (from_pb_agg (Some a)) | None => None end)
    end.

  (* TimeoutMsgFromProto: ID is not on the wire *)
  Definition from_pb_timeout (o : option pb_timeout) : timeoutmsg :=
    match o with
    | None => mkTimeout 0 0 SigNil SigNil (from_pb_sync None)
    | Some m => mkTimeout 0 (u64 (pt_view m)) (from_pb_sig (pt_viewsig m))
                          (match pt_msgsig m with Some s => from_pb_sig (Some s) | None => SigNil end)
                          (from_pb_sync (pt_sync m))
    end.

  (* BlockFromProto: a nil *Block yields nil ([Reject] = "no block"); otherwise NewBlock then
     SetTimestamp(block.Timestamp.AsTime()) *)
  Definition from_pb_block (o : option pb_block) : result block :=
    match o with
    | None => Reject
    | Some b => Ok (mkBlock (fix32 (pbb_parent b)) (u32 (pbb_proposer b)) (pbb_cmds b) (from_pb_qc (pbb_qc b))
                            (u64 (pbb_view b)) (from_pb_ts (pbb_ts b)))
    end.

  (* ProposalFromProto; [Reject] = the message carries no block (ProposeMsg.Block is nil) *)
  Definition from_pb_proposal (o : option pb_proposal) : result proposal :=
    let blk := match o with None => None | Some p => pp_block p end in
    let agg := match o with None => None | Some p => pp_agg p end in
    match from_pb_block blk with
    | Ok b => Ok (mkProposal 0 b (match agg with Some a => Some (from_pb_agg (Some a)) | None => None end))
    | Reject => Reject
    | Panic => Panic
    end.

  (* server.go serviceImpl.Timeout: the sender id is taken from the connection *)
  Definition server_timeout (peer : rid) (m : pb_timeout) : timeoutmsg :=
    let t := from_pb_timeout (Some m) in
    mkTimeout peer (tm_view t) (tm_viewsig t) (tm_msgsig t) (tm_sync t).

  (* server.go serviceImpl.Propose: a proposal without a block is dropped ([Reject] = nothing delivered);
     id := peer (or the block's proposer with a Kauri tree); proposal.Block.Proposer = uint32(id);
     ProposalFromProto; proposeMsg.ID = id *)
  Definition server_propose (kauri : bool) (peer : rid) (p : pb_proposal) : result proposal :=
    let id := if kauri then match pp_block p with Some b => u32 (pbb_proposer b) | None => 0 end else peer in
    match pp_block p with
    | None => Reject
    | Some b =>
        let b' := mkPbBlock (pbb_parent b) (pbb_qc b) (pbb_view b) (pbb_cmds b) (u32 id) (pbb_ts b) in
        match from_pb_proposal (Some (mkPbProposal (Some b') (pp_agg p))) with
        | Ok m => Ok (mkProposal id (p_block m) (p_agg m))
        | Reject => Reject
        | Panic => Panic
        end
    end.
End FromPb.

(* ---------- bytes-to-sign ---------- *)
(* total projections: participants / raw bytes of a signature (nothing for nil) *)
Definition sig_ids (s : qsig) : list rid := match sig_participants s with Ok l => l | _ => [] end.
Definition sig_raw (s : qsig) : bytes := match sig_bytes s with Ok b => b | _ => [] end.
Definition sig_is_nil (s : qsig) : bool := match s with SigNil => true | _ => false end.
(* the (signer, signature bytes) entries of a multi-signature *)
Definition sig_entries (s : qsig) : list (rid * bytes) := match s with SigECDSA l | SigEDDSA l => l | _ => [] end.
Definition sig_is_multi (s : qsig) : bool := match s with SigECDSA _ | SigEDDSA _ => true | _ => false end.

(* the claimed participants as QuorumCert.ToBytes appends them: each id (4 bytes LE), then their count *)
Definition participants_bytes (ids : list rid) : bytes :=
  concat (map le32 ids) ++ le32 (N.of_nat (length ids)).

(* what follows view and hash: nothing for a nil signature, else signature bytes ++ participants *)
Definition qc_sig_part (s : qsig) : bytes :=
  match sig_bytes s, sig_participants s with
  | Ok b, Ok ids => b ++ participants_bytes ids
  | _, _ => []
  end.

(* QuorumCert.ToBytes (repaired, fixes/C12-qc-bytes-bind-signers.patch): view, hash and, unless the
   signature is nil, the signature bytes, the participant ids and their count *)
Definition qc_bytes (q : qc) : bytes := le64 (qc_view q) ++ qc_hash q ++ qc_sig_part (qc_sig q).

(* the certificate encodings before the repairs (kept for the refutation witnesses):
   - old: view, hash, the signatures back to back (no signer ids);
   - v1:  view, hash, the signatures back to back, then the signer ids and their count *)
Definition qc_bytes_old (q : qc) : bytes :=
  le64 (qc_view q) ++ qc_hash q ++ match sig_bytes_unframed (qc_sig q) with Ok b => b | _ => [] end.
Definition qc_bytes_v1 (q : qc) : bytes :=
  le64 (qc_view q) ++ qc_hash q ++
  match sig_bytes_unframed (qc_sig q), sig_participants (qc_sig q) with
  | Ok b, Ok ids => b ++ participants_bytes ids
  | _, _ => []
  end.

(* PartialCert.ToBytes / TimeoutCert.ToBytes call ToBytes on the signature unguarded *)
Definition pc_bytes (c : pcert) : result bytes :=
  match sig_bytes (pc_sig c) with Ok b => Ok (pc_hash c ++ b) | _ => Panic end.
Definition tc_bytes (t : tc) : result bytes :=
  match sig_bytes (tc_sig t) with Ok b => Ok (le64 (tc_view t) ++ b) | _ => Panic end.

(* TimeoutMsg.ToBytes: id, view, and the sync info's QC if present *)
Definition timeout_bytes (m : timeoutmsg) : bytes :=
  le32 (tm_id m) ++ le64 (tm_view m) ++ match si_qc (tm_sync m) with Some q => qc_bytes q | None => [] end.

(* what VerifyAggregateQC hands to BatchVerify: for each (id, qc) the bytes of the reconstructed timeout *)
Definition agg_messages (a : aggqc) : list (rid * bytes) :=
  map (fun e => (fst e, timeout_bytes (mkTimeout (fst e) (agg_view a) SigNil SigNil (mkSync (Some (snd e)) None None))))
      (agg_qcs a).

(* Block.ToBytes (repaired, fixes/C12-block-bytes-frame-batch.patch): the marshalled batch is preceded by
   its length (uint32 LE), so that batch and certificate cannot trade bytes *)
Definition block_bytes (b : block) : bytes :=
  b_parent b ++ le32 (b_proposer b) ++ le64 (b_view b) ++ le32 (N.of_nat (length (b_batch b))) ++ b_batch b
  ++ qc_bytes (b_cert b) ++ le64 (ts_nanos (b_ts b)).

(* the block encodings before the repairs (kept for the refutation witnesses), each with the certificate
   encoding of its time:
   - old:      batch directly followed by the certificate bytes without signer ids;
   - unframed: batch directly followed by the certificate bytes with signer ids;
   - v2:       batch preceded by its length, certificate with signer ids but the signatures back to back *)
Definition block_bytes_old (b : block) : bytes :=
  b_parent b ++ le32 (b_proposer b) ++ le64 (b_view b) ++ b_batch b ++ qc_bytes_old (b_cert b)
  ++ le64 (ts_nanos (b_ts b)).

Definition block_bytes_unframed (b : block) : bytes :=
  b_parent b ++ le32 (b_proposer b) ++ le64 (b_view b) ++ b_batch b ++ qc_bytes_v1 (b_cert b)
  ++ le64 (ts_nanos (b_ts b)).

Definition block_bytes_v2 (b : block) : bytes :=
  b_parent b ++ le32 (b_proposer b) ++ le64 (b_view b) ++ le32 (N.of_nat (length (b_batch b))) ++ b_batch b
  ++ qc_bytes_v1 (b_cert b) ++ le64 (ts_nanos (b_ts b)).

(* ---------- observables the property speaks about ---------- *)
(* (bytes-to-sign values, participant lists), in a fixed order per object kind *)
Definition observables := (list (result bytes) * list (result (list rid)))%type.

Definition obs_sig (s : qsig) : observables := ([sig_bytes s], [sig_participants s]).
Definition obs_qc (q : qc) : observables := ([Ok (qc_bytes q)], [sig_participants (qc_sig q)]).
Definition obs_pc (c : pcert) : observables := ([pc_bytes c], [sig_participants (pc_sig c); Ok [pc_signer c]]).
Definition obs_tc (t : tc) : observables := ([tc_bytes t], [sig_participants (tc_sig t)]).
Definition obs_agg (a : aggqc) : observables :=
  (map (fun e => Ok (snd e)) (agg_messages a),
   sig_participants (agg_sig a) :: Ok (map fst (agg_qcs a)) :: map (fun e => sig_participants (qc_sig (snd e))) (agg_qcs a)).
Definition obs_app (a b : observables) : observables := (fst a ++ fst b, snd a ++ snd b).
Definition obs_opt {A} (f : A -> observables) (o : option A) : observables :=
  match o with Some x => f x | None => ([], []) end.
Definition obs_sync (s : syncinfo) : observables :=
  obs_app (obs_opt obs_qc (si_qc s)) (obs_app (obs_opt obs_tc (si_tc s)) (obs_opt obs_agg (si_agg s))).
Definition obs_timeout (m : timeoutmsg) : observables :=
  obs_app ([Ok (timeout_bytes m)], [sig_participants (tm_viewsig m); sig_participants (tm_msgsig m)]) (obs_sync (tm_sync m)).
Definition obs_block (b : block) : observables := ([Ok (block_bytes b)], [sig_participants (qc_sig (b_cert b))]).
Definition obs_proposal (p : proposal) : observables :=
  obs_app (obs_block (p_block p)) (obs_app ([], [Ok [p_id p]]) (obs_opt obs_agg (p_agg p))).

(* ---------- hashing and the fetch quorum function ---------- *)
Section Hashing.
  Variable H : bytes -> bytes.            (* SHA-256 *)
  Variable bls_decode : bytes -> option bytes.

  (* Block.Hash(): every constructor (NewBlock, SetTimestamp) recomputes sha256(ToBytes()) *)
  Definition block_hash (b : block) : bytes := H (block_bytes b).

  (* one reply of RequestBlockQF: does the recomputed hash equal the requested one? *)
  Definition qf_accepts (h : bytes) (reply : option pb_block) : result bool :=
    match from_pb_block bls_decode reply with
    | Ok blk => Ok (bytes_eqb (fix32 h) (block_hash blk))
    | Reject => Panic                       (* block.Hash() on the nil block *)
    | Panic => Panic
    end.

  (* qspec.RequestBlockQF over the replies in some iteration order (Go: map order) *)
  Fixpoint request_block_qf (h : bytes) (replies : list (N * option pb_block)) : result (option (N * pb_block)) :=
    match replies with
    | [] => Ok None
    | (node, r) :: rest =>
        match qf_accepts h r with
        | Ok true => match r with Some b => Ok (Some (node, b)) | None => Panic end
        | Ok false => request_block_qf h rest
        | Reject => Reject
        | Panic => Panic
        end
    end.

  (* the set of replies the quorum function may return, independent of the iteration order *)
  Definition qf_admissible (h : bytes) (replies : list (N * option pb_block)) : list N :=
    map fst (filter (fun e => match qf_accepts h (snd e) with Ok true => true | _ => false end) replies).

  (* GorumsSender.RequestBlock: the block handed to the block store *)
  Definition fetch_block (h : bytes) (replies : list (N * option pb_block)) : result (option block) :=
    match request_block_qf h replies with
    | Ok (Some (_, b)) => match from_pb_block bls_decode (Some b) with
                          | Ok blk => Ok (Some blk) | Reject => Reject | Panic => Panic end
    | Ok None => Ok None
    | Reject => Reject
    | Panic => Panic
    end.
End Hashing.

(* ---------- well-formedness: what every Go-constructed object satisfies ---------- *)
Section Wf.
  Variable bls_decode : bytes -> option bytes.

  Definition wf_entry (e : rid * bytes) : bool := fst e <? 2^32.
  Definition wf_sig (s : qsig) : bool :=
    match s with
    | SigECDSA l | SigEDDSA l => forallb wf_entry l
    | SigBLS s _ => match bls_decode s with Some s' => bytes_eqb s' s | None => false end
    | SigNil => true
    end.
  Definition is_nil (s : qsig) : bool := match s with SigNil => true | _ => false end.
  Definition len32 (h : bytes) : bool := Nat.eqb (length h) 32.

  Definition wf_qc (q : qc) : bool := wf_sig (qc_sig q) && (qc_view q <? 2^64) && len32 (qc_hash q).
  Definition wf_pc (c : pcert) : bool :=
    wf_sig (pc_sig c) && len32 (pc_hash c)
    && match sig_participants (pc_sig c) with Ok ids => N.eqb (pc_signer c) (hd 0 ids) | _ => N.eqb (pc_signer c) 0 end.
  Definition wf_tc (t : tc) : bool := wf_sig (tc_sig t) && (tc_view t <? 2^64).
  Definition wf_agg (a : aggqc) : bool :=
    forallb (fun e => (fst e <? 2^32) && wf_qc (snd e)) (agg_qcs a) && wf_sig (agg_sig a) && (agg_view a <? 2^64).
  Definition wf_opt {A} (f : A -> bool) (o : option A) : bool := match o with Some x => f x | None => true end.
  Definition wf_sync (s : syncinfo) : bool := wf_opt wf_qc (si_qc s) && wf_opt wf_tc (si_tc s) && wf_opt wf_agg (si_agg s).
  Definition wf_timeout (m : timeoutmsg) : bool :=
    (tm_id m <? 2^32) && (tm_view m <? 2^64) && wf_sig (tm_viewsig m) && wf_sig (tm_msgsig m) && wf_sync (tm_sync m).
  Definition wf_ts (t : ts) : bool :=
    ((- 2^63 <=? fst t) && (fst t <? 2^63) && (0 <=? snd t) && (snd t <? 10^9))%Z.
  Definition wf_block (b : block) : bool :=
    len32 (b_parent b) && (b_proposer b <? 2^32) && (b_view b <? 2^64) && wf_qc (b_cert b) && wf_ts (b_ts b).
  (* NewProposeMsg: the message id is the block's proposer *)
  Definition wf_proposal (p : proposal) : bool :=
    (p_id p <? 2^32) && N.eqb (p_id p) (b_proposer (p_block p)) && wf_block (p_block p) && wf_opt wf_agg (p_agg p).
End Wf.

(* C10 — proofs about the nil-explicit receive path of Wire/NilModel.v *)
From HS Require Import Base.Prelude Wire.NilModel.
Open Scope N_scope.

(* destruct the scrutinee of some match / if in the goal *)
Ltac dmatch :=
  match goal with
  | |- context [match ?x with _ => _ end] =>
      match x with
      | context [match _ with _ => _ end] => fail 1
      | _ => destruct x eqn:?
      end
  end.
Ltac dall := repeat (dmatch; try congruence; try discriminate).

(* ---------- part 1: no Panic with all guards ---------- *)

Lemma auth_verify_some_np : forall c d, auth_verify c (Some d) <> Panic.
Proof. intros c d. unfold auth_verify. destruct (c_cache c); discriminate. Qed.

Lemma auth_verify_np : forall c s, g_cache (c_g c) = true -> auth_verify c s <> Panic.
Proof.
  intros c s G. unfold auth_verify. rewrite G.
  destruct (c_cache c); destruct s; discriminate.
Qed.

Lemma verify_qc_np : forall c q, verify_qc c q <> Panic.
Proof.
  intros c q. unfold verify_qc.
  destruct (dq_hash q).
  - destruct (dq_view q =? 0); [destruct (dq_sig q)|]; discriminate.
  - destruct (dq_sig q); try discriminate;
      destruct (ds_n d <? c_q c); try discriminate; apply auth_verify_some_np.
  - destruct (dq_sig q); try discriminate;
      destruct (ds_n d <? c_q c); discriminate.
Qed.

Lemma find_valid_qc_np : forall c qs, find_valid_qc c qs <> Panic.
Proof.
  intros c qs. induction qs as [|q r IH]; cbn [find_valid_qc]; [discriminate|].
  pose proof (verify_qc_np c q) as H.
  destruct (verify_qc c q) as [[|]| |]; try congruence; discriminate.
Qed.

Lemma verify_agg_some_np : forall c a d, da_sig a = Some d -> verify_agg c a <> Panic.
Proof.
  intros c a d H. unfold verify_agg. rewrite H.
  destruct (ds_n d <? c_q c); [discriminate|].
  pose proof (auth_verify_some_np c d) as Ha.
  destruct (auth_verify c (Some d)) as [[|]| |]; try congruence; try discriminate.
  apply find_valid_qc_np.
Qed.

Lemma verify_tc_np : forall c t, g_tc (c_g c) = true -> verify_tc c t <> Panic.
Proof.
  intros c t G. unfold verify_tc. rewrite G.
  destruct (dt_view t =? 0); [discriminate|].
  destruct (dt_sig t); [|discriminate].
  destruct (ds_n d <? c_q c); [discriminate|]. apply auth_verify_some_np.
Qed.

Lemma guarded_agg_np : forall c a,
  (match da_sig a with None => Ok false | Some _ => verify_agg c a end) <> Panic.
Proof.
  intros c a. destruct (da_sig a) eqn:E; [|discriminate]. eapply verify_agg_some_np; eauto.
Qed.

(* QuorumCert.Equals is total: whatever the signatures (present or nil), views, hashes and bytes *)
Lemma qc_equals_total : forall g vh a b same, g_equals g = true -> qc_equals g vh a b same <> Panic.
Proof.
  intros g vh a b same G. unfold qc_equals. rewrite G.
  destruct vh, a, b; cbn; discriminate.
Qed.

(* ... it is reflexive-compatible and symmetric in signature presence: nil vs. present never compares equal *)
Lemma qc_equals_nil_mismatch : forall g vh a b same,
  g_equals g = true -> a <> b -> qc_equals g vh a b same = Ok false.
Proof.
  intros g vh a b same G H. unfold qc_equals. rewrite G.
  destruct vh, a, b; cbn; try reflexivity; congruence.
Qed.

Lemma verify_any_qc_np : forall c e q a,
  g_agg_any (c_g c) = true -> verify_any_qc c e q a <> Panic.
Proof.
  intros c e q a G. unfold verify_any_qc. rewrite G.
  pose proof (verify_qc_np c q) as Hq.
  destruct (c_aggqc c); [|exact Hq].
  destruct a as [a|]; [|exact Hq].
  pose proof (guarded_agg_np c a) as Ha.
  destruct (match da_sig a with None => Ok false | Some _ => verify_agg c a end) as [[|]| |];
    try congruence; try discriminate.
  destruct (e_qc_match e); [exact Hq|discriminate].
Qed.

Lemma verify_sync_np : forall c s,
  g_tc (c_g c) = true -> g_agg_sync (c_g c) = true -> verify_sync c s <> Panic.
Proof.
  intros c s G1 G2. unfold verify_sync. rewrite G2.
  assert (Htc : forall t, verify_tc c t <> Panic) by (intro; apply verify_tc_np; exact G1).
  destruct (d_tc s) as [t|].
  - specialize (Htc t). destruct (verify_tc c t) as [[|]| |]; try congruence; try discriminate.
    destruct (c_aggqc c).
    + destruct (d_agg s) as [a|]; [|discriminate].
      pose proof (guarded_agg_np c a) as Ha.
      destruct (match da_sig a with None => Ok false | Some _ => verify_agg c a end) as [[|]| |];
        try congruence; discriminate.
    + destruct (d_qc s) as [q|]; [|discriminate].
      pose proof (verify_qc_np c q) as Hq.
      destruct (verify_qc c q) as [[|]| |]; try congruence; discriminate.
  - destruct (c_aggqc c).
    + destruct (d_agg s) as [a|]; [|discriminate].
      pose proof (guarded_agg_np c a) as Ha.
      destruct (match da_sig a with None => Ok false | Some _ => verify_agg c a end) as [[|]| |];
        try congruence; discriminate.
    + destruct (d_qc s) as [q|]; [|discriminate].
      pose proof (verify_qc_np c q) as Hq.
      destruct (verify_qc c q) as [[|]| |]; try congruence; discriminate.
Qed.

Lemma advance_view_np : forall c s,
  g_tc (c_g c) = true -> g_agg_sync (c_g c) = true -> advance_view c s <> Panic.
Proof.
  intros c s G1 G2. unfold advance_view.
  pose proof (verify_sync_np c s G1 G2) as H.
  destruct (verify_sync c s) as [[[|]|]| |]; try congruence; discriminate.
Qed.

Lemma on_propose_np : forall c e blk agg,
  g_tc (c_g c) = true -> g_agg_sync (c_g c) = true -> g_agg_any (c_g c) = true ->
  on_propose c e (Build_dproposal (Some blk) agg) <> Panic.
Proof.
  intros c e blk agg G1 G2 G3. unfold on_propose. cbn [dp_block dp_agg].
  pose proof (advance_view_np c (Build_dsync (Some (db_qc blk)) None None) G1 G2) as Ha.
  destruct (advance_view c _) as [v1| |]; try congruence; try discriminate.
  destruct (e_view_ok e); cbn [negb]; [|discriminate].
  destruct (e_vote_rule e); cbn [negb]; [|discriminate].
  pose proof (verify_any_qc_np c e (db_qc blk) agg G3) as Hv.
  destruct (verify_any_qc c e (db_qc blk) agg) as [[|]| |]; try congruence; try discriminate.
  destruct (e_leader_ok e); discriminate.
Qed.

Lemma on_vote_np : forall c e s, g_cache (c_g c) = true -> on_vote c e s <> Panic.
Proof.
  intros c e s G. unfold on_vote. destruct (e_vote_reach e); cbn [negb]; [|discriminate].
  pose proof (auth_verify_np c s G) as H.
  destruct (auth_verify c s) as [[|]| |]; try congruence; discriminate.
Qed.

Lemma on_contribution_np : forall c e s, g_cache (c_g c) = true -> on_contribution c e s <> Panic.
Proof.
  intros c e s G. unfold on_contribution. destruct (e_contrib_reach e); cbn [negb]; [|discriminate].
  pose proof (auth_verify_np c s G) as H.
  destruct (auth_verify c s) as [[|]| |]; try congruence; discriminate.
Qed.

Lemma signed_only_by_np : forall c d id0 snd, g_bitfield (c_g c) = true -> signed_only_by c d id0 snd <> Panic.
Proof.
  intros c d id0 snd G. unfold signed_only_by. rewrite G.
  destruct (ds_n d =? 1); [|discriminate]. destruct id0; [|discriminate].
  destruct (ds_scheme d); discriminate.
Qed.

Lemma verify_timeout_np : forall c t,
  g_cache (c_g c) = true -> g_bitfield (c_g c) = true -> verify_timeout c t <> Panic.
Proof.
  intros c t G0 G4. unfold verify_timeout.
  pose proof (auth_verify_np c (dtm_viewsig t) G0) as H.
  destruct (auth_verify c (dtm_viewsig t)) as [[|]| |]; try congruence; try discriminate.
  destruct (dtm_viewsig t) as [d|]; [|discriminate].
  pose proof (signed_only_by_np c d (dtm_id0 t) (dtm_vs_sender t) G4) as Hs.
  destruct (signed_only_by c d (dtm_id0 t) (dtm_vs_sender t)) as [[|]| |]; try congruence; try discriminate.
  destruct (c_aggqc c); cbn [negb]; [|discriminate].
  destruct (d_qc (dtm_sync t)); [|discriminate].
  destruct (dtm_msgsig t) as [m|]; [|discriminate].
  pose proof (auth_verify_some_np c m) as Hm.
  destruct (auth_verify c (Some m)) as [[|]| |]; try congruence; try discriminate.
  apply signed_only_by_np; exact G4.
Qed.

Lemma on_timeout_np : forall c t,
  g_cache (c_g c) = true -> g_tc (c_g c) = true -> g_agg_sync (c_g c) = true -> g_bitfield (c_g c) = true ->
  on_timeout c t <> Panic.
Proof.
  intros c t G0 G1 G2 G4. unfold on_timeout.
  pose proof (verify_timeout_np c t G0 G4) as H.
  destruct (verify_timeout c t) as [[|]| |]; try congruence; try discriminate.
  pose proof (advance_view_np c (dtm_sync t) G1 G2) as Ha.
  destruct (advance_view c (dtm_sync t)) as [v| |]; try congruence; discriminate.
Qed.

Theorem never_panics : forall c e ctx_ok m,
  c_g c = all_guards -> handle c e ctx_ok m <> Panic.
Proof.
  intros c e ctx_ok m G.
  assert (G0 : g_cache (c_g c) = true) by (rewrite G; reflexivity).
  assert (G1 : g_tc (c_g c) = true) by (rewrite G; reflexivity).
  assert (G2 : g_agg_sync (c_g c) = true) by (rewrite G; reflexivity).
  assert (G3 : g_agg_any (c_g c) = true) by (rewrite G; reflexivity).
  assert (G4 : g_bitfield (c_g c) = true) by (rewrite G; reflexivity).
  assert (ND : net_delay_returns c e = true).
  { unfold net_delay_returns. rewrite G. cbn [g_latency all_guards]. rewrite !orb_true_r. reflexivity. }
  destruct m as [p|v|s|t|h|k]; cbn [handle].
  - unfold srv_propose. destruct ctx_ok; cbn [negb]; [|discriminate].
    destruct (p_block p) as [b|] eqn:Eb.
    + unfold proposal_from_proto, block_from_proto. rewrite Eb, ND.
      apply on_propose_np; assumption.
    + rewrite G. cbn. discriminate.
  - unfold srv_vote. destruct ctx_ok; cbn [negb]; [|discriminate]. rewrite ND. cbn [negb].
    unfold pcert_from_proto, new_partial_cert. rewrite G. cbn [g_pcert all_guards].
    destruct (sig_from_proto (v_sig v)); apply on_vote_np; assumption.
  - unfold srv_new_view, on_new_view. destruct ctx_ok; cbn [negb]; [|discriminate]. rewrite ND. cbn [negb].
    apply advance_view_np; assumption.
  - unfold srv_timeout. rewrite ND. cbn [negb]. apply on_timeout_np; assumption.
  - discriminate.
  - unfold srv_contribution. apply on_contribution_np; assumption.
Qed.

(* the converters called directly, with any argument including nil *)
Theorem decode_never_panics : forall d, decode_returns all_guards d = true.
Proof.
  intros d. destruct d as [s|q|t|a|s|b|p|v|t]; cbn [decode_returns]; try reflexivity.
  - destruct b; reflexivity.
  - unfold proposal_from_proto, block_from_proto.
    destruct p as [p|]; [destruct (p_block p)|]; reflexivity.
  - unfold pcert_from_proto, new_partial_cert. cbn.
    destruct (sig_from_proto _); reflexivity.
Qed.

(* ---------- part 2: nothing verifies => nothing is handed to the protocol ---------- *)

Lemma base_verify_bad : forall c s, sig_bad s = true -> base_verify c (sig_from_proto s) = false.
Proof.
  intros c s H. unfold base_verify.
  destruct s as [[[n ok|n ok|r n ok]|]|]; cbn in *; try reflexivity.
  - destruct ok; [discriminate|]. apply andb_false_r.
  - destruct ok; [discriminate|]. apply andb_false_r.
  - destruct r; cbn in *; [|reflexivity]. destruct ok; [discriminate|]. apply andb_false_r.
Qed.

Lemma auth_verify_bad : forall c s, sig_bad s = true -> auth_verify c (sig_from_proto s) <> Ok true.
Proof.
  intros c s H. pose proof (base_verify_bad c s H) as B. unfold auth_verify.
  destruct (c_cache c).
  - destruct (sig_from_proto s) eqn:E.
    + rewrite B. discriminate.
    + destruct (g_cache (c_g c)); cbn; discriminate.
  - rewrite B. discriminate.
Qed.

Lemma verify_qc_bad : forall c q, qc_bad q = true -> verify_qc c (qc_from_proto (Some q)) <> Ok true.
Proof.
  intros c q H. unfold qc_bad in H. unfold verify_qc, qc_from_proto. cbn [dq_hash dq_sig].
  pose proof (auth_verify_bad c (q_sig q)) as A.
  destruct (q_hash q).
  - cbn [dq_view]. destruct (q_view q =? 0); [|discriminate].
    destruct (sig_from_proto (q_sig q)); [discriminate|]. cbn in H. discriminate.
  - destruct (sig_from_proto (q_sig q)) eqn:E; [|discriminate].
    destruct (ds_n d <? c_q c); [discriminate|]. apply A; exact H.
  - destruct (sig_from_proto (q_sig q)) eqn:E; [|discriminate].
    destruct (ds_n d <? c_q c); discriminate.
Qed.

Lemma verify_tc_bad : forall c t, tc_bad t = true -> verify_tc c (tc_from_proto (Some t)) <> Ok true.
Proof.
  intros c t H. unfold tc_bad in H. apply andb_true_iff in H. destruct H as [Hv Hs].
  unfold verify_tc, tc_from_proto. cbn [dt_view dt_sig].
  apply negb_true_iff in Hv. rewrite Hv.
  pose proof (auth_verify_bad c (t_sig t) Hs) as A.
  destruct (sig_from_proto (t_sig t)) eqn:E.
  - destruct (ds_n d <? c_q c); [discriminate|]. exact A.
  - destruct (g_tc (c_g c)); discriminate.
Qed.

Lemma verify_agg_bad : forall c a, agg_bad a = true -> verify_agg c (agg_from_proto (Some a)) <> Ok true.
Proof.
  intros c a H. unfold agg_bad in H. unfold verify_agg, agg_from_proto. cbn [da_sig da_qcs].
  pose proof (auth_verify_bad c (a_sig a) H) as A.
  destruct (sig_from_proto (a_sig a)) eqn:E; [|discriminate].
  destruct (ds_n d <? c_q c); [discriminate|].
  destruct (auth_verify c (Some d)) as [[|]| |]; try congruence; discriminate.
Qed.

Lemma guarded_agg_bad : forall c a (g : bool), agg_bad a = true ->
  (if g then match da_sig (agg_from_proto (Some a)) with None => Ok false | Some _ => verify_agg c (agg_from_proto (Some a)) end
   else verify_agg c (agg_from_proto (Some a))) <> Ok true.
Proof.
  intros c a g H. pose proof (verify_agg_bad c a H) as V.
  destruct g; [|exact V]. destruct (da_sig _); [exact V|discriminate].
Qed.

Lemma verify_sync_bad : forall c s, sync_bad s = true -> verify_sync c (sync_from_proto s) <> Ok (Some true).
Proof.
  intros c s H. unfold verify_sync.
  destruct s as [s|]; cbn [sync_from_proto d_tc d_qc d_agg].
  2:{ destruct (c_aggqc c); discriminate. }
  cbn [sync_bad] in H. apply andb_true_iff in H. destruct H as [H Ha].
  apply andb_true_iff in H. destruct H as [Hq Ht].
  assert (Hrest :
    (if c_aggqc c
     then match match s_agg s with Some a => Some (agg_from_proto (Some a)) | None => None end with
          | Some a => match (if g_agg_sync (c_g c)
                             then match da_sig a with Some _ => verify_agg c a | None => Ok false end
                             else verify_agg c a) with
                      | Ok true => Ok (Some true) | Panic => Panic | _ => Ok None end
          | None => Ok (Some false) end
     else match match s_qc s with Some q => Some (qc_from_proto (Some q)) | None => None end with
          | Some q => match verify_qc c q with Ok true => Ok (Some true) | Panic => Panic | _ => Ok None end
          | None => Ok (Some false) end) <> Ok (Some true)).
  { destruct (c_aggqc c).
    - destruct (s_agg s) as [a|]; [|discriminate]. cbn [oagg_bad] in Ha.
      pose proof (guarded_agg_bad c a (g_agg_sync (c_g c)) Ha) as G.
      destruct (if g_agg_sync (c_g c) then _ else _) as [[|]| |]; try congruence; discriminate.
    - destruct (s_qc s) as [q|]; [|discriminate]. cbn [oqc_bad] in Hq.
      pose proof (verify_qc_bad c q Hq) as G.
      destruct (verify_qc c (qc_from_proto (Some q))) as [[|]| |]; try congruence; discriminate. }
  destruct (s_tc s) as [t|].
  - cbn [otc_bad] in Ht. pose proof (verify_tc_bad c t Ht) as G.
    destruct (verify_tc c (tc_from_proto (Some t))) as [[|]| |]; try congruence; discriminate.
  - exact Hrest.
Qed.

Lemma advance_view_bad : forall c s, sync_bad s = true -> advance_view c (sync_from_proto s) <> Ok Passed.
Proof.
  intros c s H. unfold advance_view. pose proof (verify_sync_bad c s H) as V.
  destruct (verify_sync c (sync_from_proto s)) as [[[|]|]| |]; try congruence; discriminate.
Qed.

Lemma verify_any_qc_bad : forall c e q agg,
  verify_qc c q <> Ok true -> verify_any_qc c e q agg <> Ok true.
Proof.
  intros c e q agg H. unfold verify_any_qc.
  destruct (c_aggqc c); [|exact H]. destruct agg as [a|]; [|exact H].
  destruct (if g_agg_any (c_g c) then _ else _) as [[|]| |]; try discriminate.
  destruct (e_qc_match e); [exact H|discriminate].
Qed.

Theorem unverifiable_not_passed : forall c e ctx_ok m,
  nothing_verifies m = true -> handle c e ctx_ok m <> Ok Passed.
Proof.
  intros c e ctx_ok m H. destruct m as [p|v|s|t|h|k]; cbn [handle nothing_verifies] in *.
  - unfold srv_propose. destruct ctx_ok; cbn [negb]; [|discriminate].
    destruct (p_block p) as [b|] eqn:Eb.
    2:{ destruct (g_srv_block (c_g c)); discriminate. }
    apply andb_true_iff in H. destruct H as [Hq Ha].
    unfold proposal_from_proto, block_from_proto. rewrite Eb.
    destruct (net_delay_returns c e); [|discriminate].
    unfold on_propose. cbn [dp_block dp_agg db_qc].
    assert (Hqc : verify_qc c (qc_from_proto (b_qc b)) <> Ok true).
    { destruct (b_qc b) as [q|]; [apply verify_qc_bad; exact Hq|]. cbn. discriminate. }
    assert (Hadv : advance_view c (Build_dsync (Some (qc_from_proto (b_qc b))) None None) <> Ok Passed).
    { unfold advance_view, verify_sync. cbn [d_tc d_qc d_agg].
      destruct (c_aggqc c); [discriminate|].
      destruct (verify_qc c (qc_from_proto (b_qc b))) as [[|]| |]; try congruence; discriminate. }
    destruct (advance_view c _) as [[|]| |]; try congruence; try discriminate.
    destruct (e_view_ok e); cbn [negb]; [|discriminate].
    destruct (e_vote_rule e); cbn [negb]; [|discriminate].
    pose proof (verify_any_qc_bad c e (qc_from_proto (b_qc b))
                  (match p_agg p with Some a => Some (agg_from_proto (Some a)) | None => None end) Hqc) as Hv.
    destruct (verify_any_qc c e _ _) as [[|]| |]; try congruence; discriminate.
  - unfold srv_vote. destruct ctx_ok; cbn [negb]; [|discriminate].
    destruct (net_delay_returns c e); cbn [negb]; [|discriminate].
    unfold pcert_from_proto, new_partial_cert.
    pose proof (auth_verify_bad c (v_sig v) H) as A.
    destruct (sig_from_proto (v_sig v)) eqn:E.
    + unfold on_vote. destruct (e_vote_reach e); cbn [negb]; [|discriminate].
      destruct (auth_verify c (Some d)) as [[|]| |]; try congruence; discriminate.
    + destruct (g_pcert (c_g c)); [|discriminate].
      unfold on_vote. destruct (e_vote_reach e); cbn [negb]; [|discriminate].
      destruct (auth_verify c None) as [[|]| |]; try congruence; discriminate.
  - unfold srv_new_view, on_new_view. destruct ctx_ok; cbn [negb]; [|discriminate].
    destruct (net_delay_returns c e); cbn [negb]; [|discriminate].
    apply (advance_view_bad c (Some s)). exact H.
  - unfold srv_timeout. destruct (net_delay_returns c e); cbn [negb]; [|discriminate].
    unfold on_timeout, verify_timeout, timeout_from_proto. cbn [dtm_viewsig dtm_sync].
    apply andb_true_iff in H. destruct H as [H _]. apply andb_true_iff in H. destruct H as [Hs _].
    pose proof (auth_verify_bad c (tm_viewsig t) Hs) as A.
    destruct (auth_verify c (sig_from_proto (tm_viewsig t))) as [[|]| |]; try congruence; discriminate.
  - discriminate.
  - unfold srv_contribution, on_contribution.
    destruct (e_contrib_reach e); cbn [negb]; [|discriminate].
    pose proof (auth_verify_bad c (k_sig k) H) as A.
    destruct (auth_verify c (sig_from_proto (k_sig k))) as [[|]| |]; try congruence; discriminate.
Qed.

Theorem unverifiable_inert : forall (proj : Type) (deep : proj -> wmsg -> proj) c e ctx_ok st m,
  c_g c = all_guards -> nothing_verifies m = true -> deliver deep c e ctx_ok st m = Ok st.
Proof.
  intros proj deep c e ctx_ok st m G H. unfold deliver.
  pose proof (never_panics c e ctx_ok m G) as NP.
  pose proof (unverifiable_not_passed c e ctx_ok m H) as NPass.
  destruct (handle c e ctx_ok m) as [[|]| |]; try congruence; reflexivity.
Qed.

(* without the guards a message in which nothing verifies either leaves the state alone or crashes *)
Theorem unverifiable_inert_or_panic : forall (proj : Type) (deep : proj -> wmsg -> proj) c e ctx_ok st m,
  nothing_verifies m = true ->
  deliver deep c e ctx_ok st m = Ok st \/ deliver deep c e ctx_ok st m = Panic.
Proof.
  intros proj deep c e ctx_ok st m H. unfold deliver.
  pose proof (unverifiable_not_passed c e ctx_ok m H) as NPass.
  destruct (handle c e ctx_ok m) as [[|]| |]; try congruence; auto.
Qed.

(* ---------- part 3: every guard is needed (the tree as found panics) ---------- *)
Definition set_guard (i : nat) (v : bool) (g : guards) : guards :=
  Build_guards
    (match i with 0%nat => v | _ => g_srv_block g end)
    (match i with 1%nat => v | _ => g_block g end)
    (match i with 2%nat => v | _ => g_pcert g end)
    (match i with 3%nat => v | _ => g_tc g end)
    (match i with 4%nat => v | _ => g_agg_any g end)
    (match i with 5%nat => v | _ => g_agg_sync g end)
    (match i with 6%nat => v | _ => g_cache g end)
    (match i with 7%nat => v | _ => g_bitfield g end)
    (match i with 8%nat => v | _ => g_equals g end)
    (match i with 9%nat => v | _ => g_latency g end).

Definition env_all := Build_env true true true true true true true.
(* the sender id is outside the latency matrix (0, n+1, 99, 2^32-1, or a Proposer field with the Kauri tree) *)
Definition env_outside := Build_env true true true true true true false.
Definition mkcfg_lat s kauri g := Build_cfg s false false kauri true 3 g.
(* a proposal whose block QC agrees with a signed high QC in view and hash but has no signature *)
Definition mkcfg s cache agg g := Build_cfg s cache agg false false 3 g.

(* one witness per guard: with only that guard removed a wire message (or a nil argument of a
   converter) panics *)
Definition w_srv_block := MPropose (Build_wproposal None None).
Definition w_pcert := MVote (Build_wvote None).
Definition w_tc := MNewView (Build_wsync None (Some (Build_wtc None 1)) None).
Definition w_agg_sync := MNewView (Build_wsync None None (Some (Build_wagg [] None 1))).
Definition w_agg_any :=
  MPropose (Build_wproposal (Some (Build_wblock (Some (Build_wqc None 0 HGenesis)) 1 false false))
                            (Some (Build_wagg [] None 0))).
Definition w_cache := MTimeout (Build_wtimeout 1 None None None false false false).
(* the proposals that used to reach QuorumCert.Equals with exactly one nil signature: a genuine aggregate QC and
   a block QC that names the block and view of its signed high QC without a signature, or a signed QC where the high
   QC is the genesis QC.  VerifyAnyQC now compares view and hash only and verifies the block QC on its own. *)
Definition w_equals :=
  MPropose (Build_wproposal (Some (Build_wblock (Some (Build_wqc None 1 HKnown)) 2 true true))
                            (Some (Build_wagg [(1, Build_wqc (Some (Some (WMultiE 3 true))) 1 HKnown)]
                                              (Some (Some (WMultiE 3 true))) 1))).
Definition w_equals' :=
  MPropose (Build_wproposal (Some (Build_wblock (Some (Build_wqc (Some (Some (WMultiE 1 false))) 0 HGenesis)) 2 true true))
                            (Some (Build_wagg [(1, Build_wqc None 0 HGenesis)]
                                              (Some (Some (WMultiE 3 true))) 1))).
(* a timeout with a valid single BLS view signature from a peer whose id is 0 *)
Definition w_bitfield := MTimeout (Build_wtimeout 1 None (Some (Some (WBls true 1 true))) None true false false).

(* any message from a peer whose id is outside the latency matrix: an empty new-view, an empty timeout without
   peer id (the handler goes on with id 0), a proposal whose block names proposer 99 with the Kauri tree *)
Definition w_lat_newview := MNewView (Build_wsync None None None).
Definition w_lat_timeout := MTimeout (Build_wtimeout 1 None None None true false false).
Definition w_lat_propose :=
  MPropose (Build_wproposal (Some (Build_wblock (Some (Build_wqc None 0 HGenesis)) 1 true true)) None).

Theorem guards_needed :
  handle (mkcfg Ecdsa false false (set_guard 0 false all_guards)) env_all true w_srv_block = Panic /\
  decode_returns (set_guard 1 false all_guards) (DBlock None) = false /\
  handle (mkcfg Ecdsa false false (set_guard 2 false all_guards)) env_all true w_pcert = Panic /\
  handle (mkcfg Ecdsa false false (set_guard 3 false all_guards)) env_all true w_tc = Panic /\
  handle (mkcfg Ecdsa false true (set_guard 4 false all_guards)) env_all true w_agg_any = Panic /\
  handle (mkcfg Ecdsa false true (set_guard 5 false all_guards)) env_all true w_agg_sync = Panic /\
  handle (mkcfg Ecdsa true false (set_guard 6 false all_guards)) env_all true w_cache = Panic /\
  handle (mkcfg Bls false false (set_guard 7 false all_guards)) env_all false w_bitfield = Panic /\
  qc_equals (set_guard 8 false all_guards) true false true false = Panic /\
  qc_equals (set_guard 8 false all_guards) true true false false = Panic /\
  handle (mkcfg_lat Ecdsa false (set_guard 9 false all_guards)) env_outside true w_lat_newview = Panic /\
  handle (mkcfg_lat Ecdsa false (set_guard 9 false all_guards)) env_outside false w_lat_timeout = Panic /\
  handle (mkcfg_lat Ecdsa true (set_guard 9 false all_guards)) env_outside true w_lat_propose = Panic.
Proof. vm_compute. repeat split; reflexivity. Qed.

(* with the guard the three messages are handled without delay: nothing in them verifies, they are dropped;
   and without the latency matrix the unguarded code does not panic on them either *)
Theorem latency_witnesses_guarded :
  handle (mkcfg_lat Ecdsa false all_guards) env_outside true w_lat_newview = Ok Dropped /\
  handle (mkcfg_lat Ecdsa false all_guards) env_outside false w_lat_timeout = Ok Dropped /\
  handle (mkcfg Ecdsa false false (set_guard 9 false all_guards)) env_outside true w_lat_newview = Ok Dropped.
Proof. vm_compute. repeat split; reflexivity. Qed.

(* both proposals are rejected by VerifyQuorumCert of the block QC (no signature for a non-genesis block; a signature
   on a genesis QC) without touching the state, also in a tree whose Equals has lost its nil check *)
Theorem equals_witnesses_guarded :
  handle (mkcfg Ecdsa false true (set_guard 8 false all_guards)) env_all true w_equals = Ok Dropped /\
  handle (mkcfg Ecdsa false true (set_guard 8 false all_guards)) env_all true w_equals' = Ok Dropped.
Proof. vm_compute. split; reflexivity. Qed.

(* the same witnesses are harmless in the repaired code: those in which nothing verifies are dropped *)
Theorem witnesses_guarded :
  forall s cache agg m, In m [w_srv_block; w_pcert; w_tc; w_agg_sync; w_cache; w_bitfield] ->
  handle (mkcfg s cache agg all_guards) env_all true m = Ok Dropped.
Proof.
  intros s cache agg m H. cbn [In] in H.
  destruct H as [<-|[<-|[<-|[<-|[<-|[<-|[]]]]]]]; destruct s, cache, agg; vm_compute; reflexivity.
Qed.

(* C10 — executable model of the replica-to-replica receive path with Go's nil semantics made
   explicit.  No proofs here.

   Go code mirrored (branch by branch, same early returns):
     server/server.go                         serviceImpl.{Propose,Vote,NewView,Timeout,RequestBlock}, addNetworkDelay
     protocol/comm/kauri/service.go           kauriServiceImpl.SendContribution (AddEvent of the request)
     internal/proto/hotstuffpb/convert.go     QuorumSignatureFromProto, *FromProto
     types.go                                 QuorumCert.Equals, NewPartialCert, NewQuorumCert, NewTimeoutCert, NewAggregateQC, SyncInfo
     security/cert/auth.go                    Verify, VerifyPartialCert, VerifyQuorumCert, VerifyTimeoutCert,
                                              VerifyAggregateQC, findHighestValidQC, VerifyAnyQC
     security/cert/cache.go                   Cache.Verify / Cache.BatchVerify (key built from signature.ToBytes())
     protocol/synchronizer/timeoutrule_*.go   Simple/Aggregate.VerifySyncInfo
     protocol/synchronizer/synchronizer.go    advanceView, OnNewView, OnRemoteTimeout, verifyTimeout, signedOnlyBy,
                                              the ProposeMsg handler
     security/crypto/bitfield.go              Bitfield.Contains (index of id 0)
     protocol/consensus/voter.go              Voter.Verify
     protocol/votingmachine/votingmachine.go  CollectVote, verifyCert
     protocol/comm/kauri.go                   onContributionRecv, mergeContribution

   Conventions.
   * Every pointer, interface value and message-typed protobuf field is an [option]; a dereference of
     an absent one is [Panic].  Protobuf getters (GetX) are nil-safe and are modelled as such.
   * A signature is abstracted to what the receive path looks at: its scheme (which Go type the
     oneof restores to), the number of participants ([Len()]) and one boolean [ok] = "the configured
     crypto.Base accepts the restored signature for the message this field is verified against"
     (Verify for QC/TC/vote/view/contribution signatures, BatchVerify for the AggQC signature).
     The theorems quantify over all values of these booleans ("any signatures").
   * A 32-byte hash is abstracted to its class relative to the receiver's block store
     ([HGenesis], [HKnown], [HUnknown]); state-dependent entry checks of the protocol handlers are the
     booleans of [env] (all universally quantified in the theorems = "in every replica state").
   * [guards] records which nil guards are present.  [all_guards] is the repaired code (the
     fixes/C10-*.patch files); [no_guards] is the tree as found.  The harness probes the tree under
     test for each guard and the kernel recomputes every observation with the probed vector, so the
     correspondence holds for both; the property theorem is about [all_guards].
   * The result of a handler is [Ok Dropped] (returned before anything of the protocol state was
     touched), [Ok Passed] (some certificate or signature was accepted and the message was handed to
     the protocol logic below this model) or [Panic].  *)
From HS Require Import Base.Prelude.
Open Scope N_scope.

(* ---------- configuration ---------- *)
Inductive scheme := Ecdsa | Eddsa | Bls.
Definition scheme_eqb (a b : scheme) : bool :=
  match a, b with Ecdsa, Ecdsa | Eddsa, Eddsa | Bls, Bls => true | _, _ => false end.

Record guards := {
  g_srv_block : bool;   (* server.go Propose: proposal.GetBlock() == nil -> return *)
  g_block     : bool;   (* convert.go BlockFromProto: block == nil -> return nil *)
  g_pcert     : bool;   (* types.go NewPartialCert: signature == nil -> no signer lookup *)
  g_tc        : bool;   (* auth.go VerifyTimeoutCert: tc.Signature() == nil -> error *)
  g_agg_any   : bool;   (* auth.go VerifyAnyQC: aggQC.Sig() == nil -> error *)
  g_agg_sync  : bool;   (* timeoutrule_aggregate.go VerifySyncInfo: aggQC.Sig() == nil -> error *)
  g_cache     : bool;   (* cache.go Cache.Verify: signature == nil -> delegate to impl (which rejects) *)
  g_bitfield  : bool;   (* bitfield.go Bitfield.Contains: id == 0 -> false (ids start at 1; 1 << -1 panics) *)
  g_equals    : bool;   (* types.go QuorumCert.Equals: one signature nil -> compare presence, no ToBytes() *)
  g_latency   : bool    (* server.go addNetworkDelay: sender outside the latency matrix -> no delay (lm.lm[a-1][b-1]) *)
}.
Definition all_guards := Build_guards true true true true true true true true true true.
(* the tree as first found; QuorumCert.Equals already had its nil check *)
Definition no_guards := Build_guards false false false false false false false false true false.

Record cfg := {
  c_scheme : scheme;   (* crypto.New(config, name) *)
  c_cache  : bool;     (* config.CacheSize() > 0: Authority.Base is a *Cache *)
  c_aggqc  : bool;     (* config.HasAggregateQC(): Aggregate timeout rule, AggQC checked in VerifyAnyQC *)
  c_kauri  : bool;     (* config.HasKauriTree() *)
  c_latency : bool;    (* server.WithLatencies: the latency matrix is enabled *)
  c_q      : N;        (* config.QuorumSize() *)
  c_g      : guards
}.

(* ---------- wire level: protobuf structs after unmarshalling ---------- *)
Inductive wsigbody :=
| WMultiE (n : N) (ok : bool)                   (* QuorumSignature_ECDSASigs with n entries *)
| WMultiD (n : N) (ok : bool)                   (* QuorumSignature_EDDSASigs with n entries *)
| WBls (restorable : bool) (n : N) (ok : bool). (* QuorumSignature_BLS12Sig; restorable = the point bytes decompress; n = bits set *)
(* a *QuorumSignature message: the oneof may be unset *)
Definition wsig := option wsigbody.

Inductive hclass := HGenesis | HKnown | HUnknown.

Record wqc := { q_sig : option wsig; q_view : N; q_hash : hclass }.
Record wtc := { t_sig : option wsig; t_view : N }.
Record wagg := { a_qcs : list (N * wqc); a_sig : option wsig; a_view : N }.
Record wsync := { s_qc : option wqc; s_tc : option wtc; s_agg : option wagg }.
Record wblock := { b_qc : option wqc; b_view : N; b_cmds : bool; b_ts : bool }.
   (* Parent / Proposer are scalars (never nil); Commands / Timestamp presence recorded, both nil-safe *)
Record wproposal := { p_block : option wblock; p_agg : option wagg }.
Record wvote := { v_sig : option wsig }.                 (* Hash is a scalar *)
Record wtimeout := { tm_view : N; tm_sync : option wsync; tm_viewsig : option wsig; tm_msgsig : option wsig;
  tm_id0 : bool;        (* the sender id the handler attaches is 0 (peer id missing, or "0" claimed in the metadata) *)
  tm_vs_sender : bool;  (* the view signature's participants contain the sender id *)
  tm_ms_sender : bool   (* the message signature's participants contain the sender id *) }.
Record wcontrib := { k_sig : option wsig }.              (* ID / View scalars; view match is in env *)

Inductive wmsg :=
| MPropose (p : wproposal)
| MVote (v : wvote)
| MNewView (s : wsync)
| MTimeout (t : wtimeout)
| MRequestBlock (h : hclass)
| MContribution (k : wcontrib).

(* ---------- decoded level: what the *FromProto functions build ---------- *)
Record dsig := { ds_scheme : scheme; ds_n : N; ds_ok : bool }.
(* a hotstuff.QuorumSignature interface value; None = nil interface *)

Record dqc := { dq_sig : option dsig; dq_view : N; dq_hash : hclass }.
Record dtc := { dt_sig : option dsig; dt_view : N }.
Record dagg := { da_qcs : list (N * dqc); da_sig : option dsig; da_view : N }.
Record dsync := { d_qc : option dqc; d_tc : option dtc; d_agg : option dagg }.
Record dblock := { db_qc : dqc; db_view : N }.
Record dproposal := { dp_block : option dblock; dp_agg : option dagg }.   (* ProposeMsg.Block is a *Block *)
Record dtimeout := { dtm_view : N; dtm_sync : dsync; dtm_viewsig : option dsig; dtm_msgsig : option dsig;
  dtm_id0 : bool; dtm_vs_sender : bool; dtm_ms_sender : bool }.

(* QuorumSignatureFromProto: getters only; a BLS signature that does not restore becomes nil *)
Definition sig_from_proto (s : option wsig) : option dsig :=
  match s with
  | None => None
  | Some None => None
  | Some (Some (WMultiE n ok)) => Some (Build_dsig Ecdsa n ok)
  | Some (Some (WMultiD n ok)) => Some (Build_dsig Eddsa n ok)
  | Some (Some (WBls false _ _)) => None
  | Some (Some (WBls true n ok)) => Some (Build_dsig Bls n ok)
  end.

(* QuorumCertFromProto(qc): qc.GetHash(), qc.GetSig(), qc.GetView() — nil-safe; nil gives the zero QC *)
Definition qc_from_proto (q : option wqc) : dqc :=
  match q with
  | None => Build_dqc None 0 HUnknown
  | Some q => Build_dqc (sig_from_proto (q_sig q)) (q_view q) (q_hash q)
  end.

(* TimeoutCertFromProto *)
Definition tc_from_proto (t : option wtc) : dtc :=
  match t with
  | None => Build_dtc None 0
  | Some t => Build_dtc (sig_from_proto (t_sig t)) (t_view t)
  end.

(* AggregateQCFromProto: map values are non-nil after unmarshalling; GetQCs of nil is the empty map *)
Definition agg_from_proto (a : option wagg) : dagg :=
  match a with
  | None => Build_dagg [] None 0
  | Some a => Build_dagg (map (fun iq => (fst iq, qc_from_proto (Some (snd iq)))) (a_qcs a))
                         (sig_from_proto (a_sig a)) (a_view a)
  end.

(* SyncInfoFromProto *)
Definition sync_from_proto (s : option wsync) : dsync :=
  match s with
  | None => Build_dsync None None None
  | Some s =>
      Build_dsync (match s_qc s with None => None | Some q => Some (qc_from_proto (Some q)) end)
                  (match s_tc s with None => None | Some t => Some (tc_from_proto (Some t)) end)
                  (match s_agg s with None => None | Some a => Some (agg_from_proto (Some a)) end)
  end.

(* BlockFromProto: getters for everything except [block.Timestamp], a field access on [block] *)
Definition block_from_proto (g : guards) (b : option wblock) : result (option dblock) :=
  match b with
  | None => if g_block g then Ok None else Panic
  | Some b => Ok (Some (Build_dblock (qc_from_proto (b_qc b)) (b_view b)))
  end.

(* ProposalFromProto *)
Definition proposal_from_proto (g : guards) (p : option wproposal) : result dproposal :=
  match block_from_proto g (match p with None => None | Some p => p_block p end) with
  | Panic => Panic
  | Reject => Reject
  | Ok blk =>
      Ok (Build_dproposal blk
            (match p with
             | None => None
             | Some p => match p_agg p with None => None | Some a => Some (agg_from_proto (Some a)) end
             end))
  end.

(* NewPartialCert(signature, hash): signature.Participants() on a nil interface panics *)
Definition new_partial_cert (g : guards) (s : option dsig) : result (option dsig) :=
  match s with
  | None => if g_pcert g then Ok None else Panic
  | Some d => Ok (Some d)
  end.

(* PartialCertFromProto *)
Definition pcert_from_proto (g : guards) (v : option wvote) : result (option dsig) :=
  new_partial_cert g (sig_from_proto (match v with None => None | Some v => v_sig v end)).

(* TimeoutMsgFromProto: getters only *)
Definition timeout_from_proto (t : option wtimeout) : dtimeout :=
  match t with
  | None => Build_dtimeout 0 (sync_from_proto None) None None true false false
  | Some t => Build_dtimeout (tm_view t) (sync_from_proto (tm_sync t)) (sig_from_proto (tm_viewsig t))
                (match tm_msgsig t with None => None | Some s => sig_from_proto (Some s) end)
                (tm_id0 t) (tm_vs_sender t) (tm_ms_sender t)
  end.

(* ---------- crypto and certificate layer ---------- *)

(* crypto.Base.Verify / BatchVerify of the configured scheme: a type switch that fails for nil and
   for the other schemes' types, then the cryptographic verdict *)
Definition base_verify (c : cfg) (s : option dsig) : bool :=
  match s with
  | None => false
  | Some d => scheme_eqb (c_scheme c) (ds_scheme d) && ds_ok d
  end.

(* Authority.Verify / BatchVerify = embedded crypto.Base: the Cache (key from signature.ToBytes())
   or the scheme itself *)
Definition auth_verify (c : cfg) (s : option dsig) : result bool :=
  if c_cache c then
    match s with
    | None => if g_cache (c_g c) then Ok (base_verify c None) else Panic
    | Some _ => Ok (base_verify c s)
    end
  else Ok (base_verify c s).

(* VerifyQuorumCert.  The genesis QC is valid for view 0 and without a signature only
   (qc.HasSignature(): a nil interface is no signature; whatever QuorumSignatureFromProto restores is one). *)
Definition verify_qc (c : cfg) (q : dqc) : result bool :=
  match dq_hash q with
  | HGenesis =>
      if dq_view q =? 0 then match dq_sig q with None => Ok true | Some _ => Ok false end
      else Ok false
  | h =>
      match dq_sig q with
      | None => Ok false
      | Some d =>
          if ds_n d <? c_q c then Ok false
          else match h with
               | HUnknown => Ok false
               | _ => auth_verify c (Some d)
               end
      end
  end.

(* VerifyTimeoutCert *)
Definition verify_tc (c : cfg) (t : dtc) : result bool :=
  if dt_view t =? 0 then Ok true
  else match dt_sig t with
       | None => if g_tc (c_g c) then Ok false else Panic
       | Some d => if ds_n d <? c_q c then Ok false else auth_verify c (Some d)
       end.

(* findHighestValidQC: first valid one in view order; only whether one exists matters here *)
Fixpoint find_valid_qc (c : cfg) (qs : list dqc) : result bool :=
  match qs with
  | [] => Ok false
  | q :: r =>
      match verify_qc c q with
      | Panic => Panic
      | Ok true => Ok true
      | _ => find_valid_qc c r
      end
  end.

Definition zero_qc := Build_dqc None 0 HUnknown.

(* VerifyAggregateQC: aggQC.Sig().Participants() on a nil signature panics (pinned by
   TestVerifyAggregateQCPanic; guarded at the callers).  The slice of QCs starts with
   len(QCs) zero values (make with a length, then append). *)
Definition verify_agg (c : cfg) (a : dagg) : result bool :=
  match da_sig a with
  | None => Panic
  | Some d =>
      if ds_n d <? c_q c then Ok false
      else match auth_verify c (Some d) with
           | Panic => Panic
           | Ok true => find_valid_qc c (repeat zero_qc (length (da_qcs a)) ++ map snd (da_qcs a))
           | _ => Ok false
           end
  end.

(* state-dependent entry checks, evaluated by the harness on the live replica before delivery *)
Record env := {
  e_view_ok     : bool;  (* proposal: lastVoted < block view <= local view *)
  e_vote_rule   : bool;  (* proposal: ruler.VoteRule(view, proposal) *)
  e_qc_match    : bool;  (* proposal: the block QC has the view and hash of the high QC found in the AggQC *)
  e_leader_ok   : bool;  (* proposal: sender is the leader of the block's view *)
  e_vote_reach  : bool;  (* vote: a voting machine is registered (no Kauri tree), the block is in the
                            local store and newer than the high QC's view *)
  e_contrib_reach : bool; (* contribution: view equals Kauri's current view and its block can be fetched *)
  e_peer_in_matrix : bool (* the sender id handed to addNetworkDelay (metadata id; 0 if missing in Timeout; the
                             block's Proposer field with the Kauri tree) is one of 1..n of the latency matrix *)
}.

(* QuorumCert.Equals(other): view, hash, then the signatures; with exactly one signature nil the
   certificates differ — signature.ToBytes() on the nil interface would panic.
   vh_eq = views and hashes are equal; a / b = this / the other certificate has a signature.
   Since /repo d1e8a5e no handler calls Equals any more (VerifyAnyQC compares view and hash itself); the
   function is modelled and checked on its own (direct calls, case EQ of Corr/C10.v). *)
Definition qc_equals (g : guards) (vh_eq a b same_bytes : bool) : result bool :=
  if negb vh_eq then Ok false
  else match a, b with
       | false, false => Ok true
       | true, true => Ok same_bytes
       | _, _ => if g_equals g then Ok false else Panic
       end.

(* VerifyAnyQC *)
Definition verify_any_qc (c : cfg) (e : env) (bqc : dqc) (agg : option dagg) : result bool :=
  let rest := verify_qc c bqc in
  if c_aggqc c then
    match agg with
    | None => rest
    | Some a =>
        match (if g_agg_any (c_g c) then match da_sig a with None => Ok false | Some _ => verify_agg c a end
               else verify_agg c a) with
        | Panic => Panic
        | Ok true => if e_qc_match e then rest else Ok false   (* view and block hash only; the block QC is verified by rest *)
        | _ => Ok false
        end
    end
  else rest.

(* TimeoutRuler.VerifySyncInfo: None = error; Some ev = accepted, ev = a certificate was accepted *)
Definition verify_sync (c : cfg) (s : dsync) : result (option bool) :=
  let tcr := match d_tc s with
             | None => Ok (Some false)
             | Some t => match verify_tc c t with
                         | Panic => Panic
                         | Ok true => Ok (Some true)
                         | _ => Ok None
                         end
             end in
  match tcr with
  | Ok (Some ev) =>
      if c_aggqc c then
        (* Aggregate: a plain QC is ignored *)
        match d_agg s with
        | None => Ok (Some ev)
        | Some a =>
            match (if g_agg_sync (c_g c) then match da_sig a with None => Ok false | Some _ => verify_agg c a end
                   else verify_agg c a) with
            | Panic => Panic
            | Ok true => Ok (Some true)
            | _ => Ok None
            end
        end
      else
        (* Simple: an AggQC is ignored *)
        match d_qc s with
        | None => Ok (Some ev)
        | Some q => match verify_qc c q with
                    | Panic => Panic
                    | Ok true => Ok (Some true)
                    | _ => Ok None
                    end
        end
  | r => r
  end.

Inductive verdict := Dropped | Passed.

(* Synchronizer.advanceView: an error, or a sync info without any accepted certificate (view 0 is
   below every local view), returns before touching the state *)
Definition advance_view (c : cfg) (s : dsync) : result verdict :=
  match verify_sync c s with
  | Panic => Panic
  | Ok (Some true) => Ok Passed
  | _ => Ok Dropped
  end.

Definition join (a b : verdict) : verdict :=
  match a, b with Dropped, Dropped => Dropped | _, _ => Passed end.

(* ---------- the protocol handlers' first layer ---------- *)

(* the ProposeMsg handler registered by synchronizer.New, then Voter.Verify *)
Definition on_propose (c : cfg) (e : env) (p : dproposal) : result verdict :=
  match dp_block p with
  | None => Panic                                   (* proposal.Block.QuorumCert() *)
  | Some blk =>
      match advance_view c (Build_dsync (Some (db_qc blk)) None None) with
      | Panic => Panic
      | Reject => Reject
      | Ok v1 =>
          if negb (e_view_ok e) then Ok v1          (* dropped, delayed, or too old *)
          else if negb (e_vote_rule e) then Ok v1
          else match verify_any_qc c e (db_qc blk) (dp_agg p) with
               | Panic => Panic
               | Ok true => if e_leader_ok e then Ok Passed else Ok v1
               | _ => Ok v1
               end
      end
  end.

(* VotingMachine.CollectVote + verifyCert + Authority.VerifyPartialCert *)
Definition on_vote (c : cfg) (e : env) (s : option dsig) : result verdict :=
  if negb (e_vote_reach e) then Ok Dropped          (* unknown block: deferred; old block: ignored *)
  else match auth_verify c s with
       | Panic => Panic
       | Ok true => Ok Passed
       | _ => Ok Dropped
       end.

(* Synchronizer.OnNewView *)
Definition on_new_view (c : cfg) (s : dsync) : result verdict := advance_view c s.

(* signedOnlyBy(sig, id): participants.Len() == 1 && participants.Contains(id).
   Bitfield.Contains(0) computes bit index -1 and shifts by it. *)
Definition signed_only_by (c : cfg) (d : dsig) (id0 is_sender : bool) : result bool :=
  if ds_n d =? 1 then
    if id0 then
      match ds_scheme d with
      | Bls => if g_bitfield (c_g c) then Ok false else Panic
      | _ => Ok is_sender
      end
    else Ok is_sender
  else Ok false.

(* Synchronizer.verifyTimeout *)
Definition verify_timeout (c : cfg) (t : dtimeout) : result bool :=
  match auth_verify c (dtm_viewsig t) with
  | Panic => Panic
  | Ok true =>
      match dtm_viewsig t with
      | None => Ok false
      | Some d =>
          match signed_only_by c d (dtm_id0 t) (dtm_vs_sender t) with
          | Panic => Panic
          | Ok true =>
              if negb (c_aggqc c) then Ok true
              else match d_qc (dtm_sync t) with
                   | None => Ok false                   (* no quorum certificate *)
                   | Some _ =>
                       match dtm_msgsig t with
                       | None => Ok false               (* no message signature *)
                       | Some m =>
                           match auth_verify c (Some m) with
                           | Panic => Panic
                           | Ok true => signed_only_by c m (dtm_id0 t) (dtm_ms_sender t)
                           | _ => Ok false
                           end
                       end
                   end
          | _ => Ok false
          end
      end
  | _ => Ok false
  end.

(* Synchronizer.OnRemoteTimeout *)
Definition on_timeout (c : cfg) (t : dtimeout) : result verdict :=
  match verify_timeout c t with
  | Panic => Panic
  | Ok true =>
      match advance_view c (dtm_sync t) with
      | Panic => Panic
      | _ => Ok Passed                               (* the timeout enters the collector *)
      end
  | _ => Ok Dropped
  end.

(* Kauri.onContributionRecv + mergeContribution *)
Definition on_contribution (c : cfg) (e : env) (s : option dsig) : result verdict :=
  if negb (e_contrib_reach e) then Ok Dropped
  else match auth_verify c s with
       | Panic => Panic
       | Ok true => Ok Passed
       | _ => Ok Dropped
       end.

(* ---------- the service handlers (gorums never passes a nil request) ---------- *)

(* ctx_ok: config.PeerIDFromContext(ctx) succeeded *)
(* Server.addNetworkDelay(sender): lm.Latency(srv.id, sender) indexes the matrix with sender-1.
   true = returns, false = index out of range *)
Definition net_delay_returns (c : cfg) (e : env) : bool :=
  negb (c_latency c) || e_peer_in_matrix e || g_latency (c_g c).

Definition srv_propose (c : cfg) (e : env) (ctx_ok : bool) (p : wproposal) : result verdict :=
  if negb ctx_ok then Ok Dropped
  else match p_block p with
       | None => if g_srv_block (c_g c) then Ok Dropped else Panic   (* proposal.Block.Proposer = ... *)
       | Some _ =>
           match proposal_from_proto (c_g c) (Some p) with
           | Panic => Panic
           | Reject => Reject
           | Ok dp => if net_delay_returns c e then on_propose c e dp else Panic
           end
       end.

Definition srv_vote (c : cfg) (e : env) (ctx_ok : bool) (v : wvote) : result verdict :=
  if negb ctx_ok then Ok Dropped
  else if negb (net_delay_returns c e) then Panic
  else match pcert_from_proto (c_g c) (Some v) with
       | Panic => Panic
       | Reject => Reject
       | Ok s => on_vote c e s
       end.

Definition srv_new_view (c : cfg) (e : env) (ctx_ok : bool) (s : wsync) : result verdict :=
  if negb ctx_ok then Ok Dropped
  else if negb (net_delay_returns c e) then Panic
  else on_new_view c (sync_from_proto (Some s)).

(* Timeout does not return when the peer id is missing (id 0 is used) *)
Definition srv_timeout (c : cfg) (e : env) (t : wtimeout) : result verdict :=
  if negb (net_delay_returns c e) then Panic
  else on_timeout c (timeout_from_proto (Some t)).

(* RequestBlock only reads the local store; the reply is found / not found *)
Definition srv_request_block (h : hclass) : bool :=
  match h with HUnknown => false | _ => true end.

Definition srv_contribution (c : cfg) (e : env) (k : wcontrib) : result verdict :=
  on_contribution c e (sig_from_proto (k_sig k)).

Definition handle (c : cfg) (e : env) (ctx_ok : bool) (m : wmsg) : result verdict :=
  match m with
  | MPropose p => srv_propose c e ctx_ok p
  | MVote v => srv_vote c e ctx_ok v
  | MNewView s => srv_new_view c e ctx_ok s
  | MTimeout t => srv_timeout c e t
  | MRequestBlock _ => Ok Dropped
  | MContribution k => srv_contribution c e k
  end.

(* ---------- "nothing in the message verifies" ---------- *)
Definition sig_bad (s : option wsig) : bool :=
  match s with
  | Some (Some (WMultiE _ ok)) | Some (Some (WMultiD _ ok)) => negb ok
  | Some (Some (WBls r _ ok)) => negb (r && ok)      (* bytes that do not restore verify nothing *)
  | _ => true
  end.
(* the genesis QC (view 0, nothing that restores to a signature) and the view-0 TC are valid certificates
   without signatures *)
Definition qc_bad (q : wqc) : bool :=
  match q_hash q with
  | HGenesis => negb ((q_view q =? 0) && match sig_from_proto (q_sig q) with None => true | Some _ => false end)
  | _ => sig_bad (q_sig q)
  end.
Definition tc_bad (t : wtc) : bool := negb (t_view t =? 0) && sig_bad (t_sig t).
Definition agg_bad (a : wagg) : bool := sig_bad (a_sig a).
Definition oqc_bad (q : option wqc) := match q with None => true | Some q => qc_bad q end.
Definition otc_bad (t : option wtc) := match t with None => true | Some t => tc_bad t end.
Definition oagg_bad (a : option wagg) := match a with None => true | Some a => agg_bad a end.
Definition sync_bad (s : option wsync) : bool :=
  match s with
  | None => true
  | Some s => oqc_bad (s_qc s) && otc_bad (s_tc s) && oagg_bad (s_agg s)
  end.

Definition nothing_verifies (m : wmsg) : bool :=
  match m with
  | MPropose p =>
      match p_block p with None => true | Some b => oqc_bad (b_qc b) end && oagg_bad (p_agg p)
  | MVote v => sig_bad (v_sig v)
  | MNewView s => sync_bad (Some s)
  | MTimeout t => sig_bad (tm_viewsig t) && sync_bad (tm_sync t) && sig_bad (tm_msgsig t)
  | MRequestBlock _ => true
  | MContribution k => sig_bad (k_sig k)
  end.

(* ---------- delivery to a replica whose protocol logic below the model is arbitrary ---------- *)
Section Deliver.
  Context {proj : Type}.                      (* view, high QC, high TC, lock, committed block, lastVoted *)
  Variable deep : proj -> wmsg -> proj.       (* what the protocol does with an accepted message *)
  Definition deliver (c : cfg) (e : env) (ctx_ok : bool) (st : proj) (m : wmsg) : result proj :=
    match handle c e ctx_ok m with
    | Panic => Panic
    | Reject => Ok st
    | Ok Dropped => Ok st
    | Ok Passed => Ok (deep st m)
    end.
End Deliver.

(* ---------- direct calls of the exported converters ---------- *)
Inductive dcall :=
| DSig (s : option wsig)
| DQC (q : option wqc)
| DTC (t : option wtc)
| DAgg (a : option wagg)
| DSync (s : option wsync)
| DBlock (b : option wblock)
| DProposal (p : option wproposal)
| DVote (v : option wvote)
| DTimeout (t : option wtimeout).

(* true = returns, false = panics *)
Definition decode_returns (g : guards) (d : dcall) : bool :=
  match d with
  | DBlock b => match block_from_proto g b with Panic => false | _ => true end
  | DProposal p => match proposal_from_proto g p with Panic => false | _ => true end
  | DVote v => match pcert_from_proto g v with Panic => false | _ => true end
  | DSig _ | DQC _ | DTC _ | DAgg _ | DSync _ | DTimeout _ => true
  end.

(* C12 — proofs about WireModel: round trips, preserved observables, fetch by hash. *)
From Coq Require Import ZifyBool ZifyNat ZifyN.
From HS Require Import Base.Prelude Wire.WireModel.
Open Scope N_scope.

(* ---------- small arithmetic / list facts ---------- *)
Lemma u32_id x : (x <? 2^32) = true -> u32 x = x.
Proof. intros Hx. apply N.ltb_lt in Hx. unfold u32. now apply N.mod_small. Qed.

Lemma u64_id x : (x <? 2^64) = true -> u64 x = x.
Proof. intros Hx. apply N.ltb_lt in Hx. unfold u64. now apply N.mod_small. Qed.

Lemma u32_idem x : u32 (u32 x) = u32 x.
Proof. unfold u32. apply N.mod_mod. discriminate. Qed.

Lemma fix_len_id n bs : length bs = n -> fix_len n bs = bs.
Proof.
  revert bs. induction n as [|n IH]; intros [|x r] Hl; simpl in *; try discriminate; auto.
  f_equal. apply IH. now injection Hl.
Qed.

Lemma fix_len_length n bs : length (fix_len n bs) = n.
Proof. revert bs. induction n as [|n IH]; intros [|x r]; simpl; auto. Qed.

Lemma fix32_id h : len32 h = true -> fix32 h = h.
Proof. unfold len32, fix32. intros Hl. apply Nat.eqb_eq in Hl. now apply fix_len_id. Qed.

Lemma fix32_idem h : fix32 (fix32 h) = fix32 h.
Proof. unfold fix32. apply fix_len_id. apply fix_len_length. Qed.

Lemma list_eqb_N_eq (a b : bytes) : bytes_eqb a b = true <-> a = b.
Proof.
  unfold bytes_eqb. revert b. induction a as [|x a IH]; intros [|y b]; simpl; split; intros Hq; try discriminate; auto.
  - apply andb_true_iff in Hq as [Hx Hr]. apply N.eqb_eq in Hx. apply IH in Hr. congruence.
  - injection Hq as -> ->. rewrite N.eqb_refl. simpl. now apply IH.
Qed.

Lemma map_id_on {A} (f : A -> A) (l : list A) :
  forallb (fun x => true) l = true -> (forall x, In x l -> f x = x) -> map f l = l.
Proof. intros _ Hf. induction l as [|x l IH]; simpl; auto. f_equal; [apply Hf; now left | apply IH; intros; apply Hf; now right]. Qed.

Lemma wrap_i64_id z : (- 2^63 <= z < 2^63)%Z -> wrap_i64 z = z.
Proof. intros Hz. unfold wrap_i64. rewrite Z.mod_small; lia. Qed.

Lemma time_unix_id s n : wf_ts (s, n) = true -> time_unix s n = (s, n).
Proof.
  unfold wf_ts, time_unix. cbn [fst snd]. intros Hw.
  repeat (apply andb_true_iff in Hw as [Hw ?]).
  apply Z.leb_le in Hw. apply Z.ltb_lt in H, H1. apply Z.leb_le in H0.
  assert (Hlt : (n <? 0)%Z = false) by (apply Z.ltb_ge; lia).
  assert (Hge : (n >=? 10^9)%Z = false) by (rewrite Z.geb_leb; apply Z.leb_gt; lia).
  rewrite Hlt, Hge. cbn [orb]. now rewrite wrap_i64_id by lia.
Qed.

(* ---------- round trips ---------- *)
Section RoundTrip.
  Variable bls_decode : bytes -> option bytes.

  Local Notation wf_sig := (wf_sig bls_decode).
  Local Notation wf_qc := (wf_qc bls_decode).
  Local Notation wf_pc := (wf_pc bls_decode).
  Local Notation wf_tc := (wf_tc bls_decode).
  Local Notation wf_agg := (wf_agg bls_decode).
  Local Notation wf_sync := (wf_sync bls_decode).
  Local Notation wf_timeout := (wf_timeout bls_decode).
  Local Notation wf_block := (wf_block bls_decode).
  Local Notation wf_proposal := (wf_proposal bls_decode).
  Local Notation from_pb_sig := (from_pb_sig bls_decode).
  Local Notation from_pb_qc := (from_pb_qc bls_decode).
  Local Notation from_pb_pc := (from_pb_pc bls_decode).
  Local Notation from_pb_tc := (from_pb_tc bls_decode).
  Local Notation from_pb_agg := (from_pb_agg bls_decode).
  Local Notation from_pb_sync := (from_pb_sync bls_decode).
  Local Notation from_pb_timeout := (from_pb_timeout bls_decode).
  Local Notation from_pb_block := (from_pb_block bls_decode).
  Local Notation from_pb_proposal := (from_pb_proposal bls_decode).

  Lemma entries_roundtrip l : forallb wf_entry l = true -> map from_pb_entry (map to_pb_entry l) = l.
  Proof.
    induction l as [|[i b] l IH]; simpl; auto. intros Hw. apply andb_true_iff in Hw as [Hi Hl].
    unfold from_pb_entry, to_pb_entry at 1. cbn [fst snd]. unfold wf_entry in Hi. cbn [fst] in Hi.
    rewrite u32_idem, (u32_id _ Hi). f_equal. now apply IH.
  Qed.

  Lemma roundtrip_sig s : wf_sig s = true -> from_pb_sig (Some (to_pb_sig s)) = s.
  Proof.
    destruct s as [l|l|s bf|]; cbn [to_pb_sig from_pb_sig WireModel.wf_sig]; intros Hw.
    - now rewrite entries_roundtrip.
    - now rewrite entries_roundtrip.
    - destruct (bls_decode s) as [s'|]; [|discriminate]. apply list_eqb_N_eq in Hw. now subst.
    - reflexivity.
  Qed.

  Lemma roundtrip_qc q : wf_qc q = true -> from_pb_qc (Some (to_pb_qc q)) = q.
  Proof.
    destruct q as [s v h]. unfold WireModel.wf_qc. cbn [qc_sig qc_view qc_hash]. intros Hw.
    apply andb_true_iff in Hw as [Hw Hh]. apply andb_true_iff in Hw as [Hs Hv].
    unfold to_pb_qc, WireModel.from_pb_qc. cbn [qc_sig qc_view qc_hash pq_sig pq_view pq_hash].
    rewrite (roundtrip_sig _ Hs), (u64_id _ Hv), (u64_id _ Hv), (fix32_id _ Hh). reflexivity.
  Qed.

  Lemma roundtrip_pc c : wf_pc c = true -> from_pb_pc (Some (to_pb_pc c)) = Ok c.
  Proof.
    destruct c as [i s h]. unfold WireModel.wf_pc. cbn [pc_signer pc_sig pc_hash]. intros Hw.
    apply andb_true_iff in Hw as [Hw Hi]. apply andb_true_iff in Hw as [Hs Hh].
    unfold to_pb_pc, WireModel.from_pb_pc. cbn [pc_sig pc_hash ppc_sig ppc_hash].
    rewrite (roundtrip_sig _ Hs), (fix32_id _ Hh). unfold new_partial_cert.
    destruct (sig_participants s) as [ids| |]; apply N.eqb_eq in Hi; now subst.
  Qed.

  Lemma roundtrip_tc t : wf_tc t = true -> from_pb_tc (Some (to_pb_tc t)) = t.
  Proof.
    destruct t as [s v]. unfold WireModel.wf_tc. cbn [tc_sig tc_view]. intros Hw. apply andb_true_iff in Hw as [Hs Hv].
    unfold to_pb_tc, WireModel.from_pb_tc. cbn [tc_sig tc_view ptc_sig ptc_view].
    now rewrite (roundtrip_sig _ Hs), (u64_id _ Hv), (u64_id _ Hv).
  Qed.

  Lemma roundtrip_qcs l :
    forallb (fun e : rid * qc => (fst e <? 2^32) && wf_qc (snd e)) l = true ->
    map (fun e => (u32 (fst e), from_pb_qc (Some (snd e)))) (map (fun e => (u32 (fst e), to_pb_qc (snd e))) l) = l.
  Proof.
    induction l as [|[i q] l IH]; cbn [map forallb fst snd]; auto. intros Hw. apply andb_true_iff in Hw as [Hiq Hl].
    apply andb_true_iff in Hiq as [Hi Hq]. rewrite u32_idem, (u32_id _ Hi), (roundtrip_qc _ Hq). f_equal. now apply IH.
  Qed.

  Lemma roundtrip_agg a : wf_agg a = true -> from_pb_agg (Some (to_pb_agg a)) = a.
  Proof.
    destruct a as [l s v]. unfold WireModel.wf_agg. cbn [agg_qcs agg_sig agg_view]. intros Hw.
    apply andb_true_iff in Hw as [Hw Hv]. apply andb_true_iff in Hw as [Hl Hs].
    unfold to_pb_agg, WireModel.from_pb_agg. cbn [agg_qcs agg_sig agg_view pa_qcs pa_sig pa_view].
    now rewrite (roundtrip_qcs _ Hl), (roundtrip_sig _ Hs), (u64_id _ Hv), (u64_id _ Hv).
  Qed.

  Lemma roundtrip_sync s : wf_sync s = true -> from_pb_sync (Some (to_pb_sync s)) = s.
  Proof.
    destruct s as [q t a]. unfold WireModel.wf_sync. cbn [si_qc si_tc si_agg]. intros Hw.
    apply andb_true_iff in Hw as [Hw Ha]. apply andb_true_iff in Hw as [Hq Ht].
    unfold to_pb_sync, WireModel.from_pb_sync. cbn [si_qc si_tc si_agg ps_qc ps_tc ps_agg].
    destruct q as [q|], t as [t|], a as [a|]; cbn [option_map wf_opt] in *;
      repeat rewrite roundtrip_qc by assumption; repeat rewrite roundtrip_tc by assumption;
      repeat rewrite roundtrip_agg by assumption; reflexivity.
  Qed.

  (* the timeout message as the receiving server reconstructs it: protobuf fields + the sender id
     the connection is authenticated for *)
  Lemma roundtrip_timeout m : wf_timeout m = true ->
    server_timeout bls_decode (tm_id m) (to_pb_timeout m) = m.
  Proof.
    destruct m as [i v vs ms si]. unfold WireModel.wf_timeout. cbn [tm_id tm_view tm_viewsig tm_msgsig tm_sync]. intros Hw.
    apply andb_true_iff in Hw as [Hw Hsi]. apply andb_true_iff in Hw as [Hw Hms]. apply andb_true_iff in Hw as [Hw Hvs].
    apply andb_true_iff in Hw as [Hi Hv].
    unfold server_timeout, to_pb_timeout, WireModel.from_pb_timeout.
    cbn [tm_id tm_view tm_viewsig tm_msgsig tm_sync pt_view pt_sync pt_viewsig pt_msgsig].
    rewrite (roundtrip_sync _ Hsi), (roundtrip_sig _ Hvs), (u64_id _ Hv), (u64_id _ Hv).
    destruct ms; try reflexivity; now rewrite (roundtrip_sig _ Hms).
  Qed.

  Lemma from_pb_ts_roundtrip t : wf_ts t = true -> from_pb_ts (to_pb_ts t) = t.
  Proof. destruct t as [s n]. unfold to_pb_ts, from_pb_ts. apply time_unix_id. Qed.

  Lemma roundtrip_block b : wf_block b = true -> from_pb_block (Some (to_pb_block b)) = Ok b.
  Proof.
    destruct b as [p i c q v t]. unfold WireModel.wf_block. cbn [b_parent b_proposer b_batch b_cert b_view b_ts]. intros Hw.
    apply andb_true_iff in Hw as [Hw Ht]. apply andb_true_iff in Hw as [Hw Hq]. apply andb_true_iff in Hw as [Hw Hv].
    apply andb_true_iff in Hw as [Hp Hi].
    unfold to_pb_block, WireModel.from_pb_block.
    cbn [b_parent b_proposer b_batch b_cert b_view b_ts pbb_parent pbb_qc pbb_view pbb_cmds pbb_proposer pbb_ts].
    now rewrite (fix32_id _ Hp), u32_idem, (u32_id _ Hi), (roundtrip_qc _ Hq), (u64_id _ Hv), (u64_id _ Hv), (from_pb_ts_roundtrip _ Ht).
  Qed.

  (* the proposal as the receiving server reconstructs it (server.go Propose): without a Kauri tree the
     id is that of the authenticated peer, with one it is read from the block *)
  Lemma roundtrip_proposal kauri p : wf_proposal p = true ->
    server_propose bls_decode kauri (p_id p) (to_pb_proposal p) = Ok p.
  Proof.
    destruct p as [i b a]. unfold WireModel.wf_proposal. cbn [p_id p_block p_agg]. intros Hw.
    apply andb_true_iff in Hw as [Hw Ha]. apply andb_true_iff in Hw as [Hw Hb]. apply andb_true_iff in Hw as [Hi Hib].
    apply N.eqb_eq in Hib.
    assert (Hpi : (b_proposer b <? 2^32) = true) by now rewrite <- Hib.
    unfold server_propose, to_pb_proposal. cbn [p_id p_block p_agg pp_block pp_agg].
    assert (Hid : (if kauri then u32 (pbb_proposer (to_pb_block b)) else i) = i).
    { destruct kauri; auto. unfold to_pb_block. cbn [pbb_proposer]. now rewrite u32_idem, (u32_id _ Hpi). }
    rewrite Hid.
    assert (Hb' : mkPbBlock (pbb_parent (to_pb_block b)) (pbb_qc (to_pb_block b)) (pbb_view (to_pb_block b))
                            (pbb_cmds (to_pb_block b)) (u32 i) (pbb_ts (to_pb_block b)) = to_pb_block b).
    { unfold to_pb_block. cbn [pbb_parent pbb_qc pbb_view pbb_cmds pbb_ts]. now rewrite Hib. }
    rewrite Hb'. unfold WireModel.from_pb_proposal. cbn [pp_block pp_agg].
    rewrite (roundtrip_block _ Hb). cbn [p_block p_agg].
    destruct a as [a|]; cbn [option_map wf_opt] in *; [now rewrite (roundtrip_agg _ Ha) | reflexivity].
  Qed.

  (* ---------- preserved observables (corollaries) ---------- *)
  Corollary bytes_to_sign_preserved_qc q : wf_qc q = true -> qc_bytes (from_pb_qc (Some (to_pb_qc q))) = qc_bytes q.
  Proof. intros Hw. now rewrite roundtrip_qc. Qed.

  Corollary participants_preserved_sig s : wf_sig s = true ->
    sig_participants (from_pb_sig (Some (to_pb_sig s))) = sig_participants s.
  Proof. intros Hw. now rewrite roundtrip_sig. Qed.

  Section Hash.
    Variable H : bytes -> bytes.
    Corollary hash_preserved b : wf_block b = true ->
      exists b', from_pb_block (Some (to_pb_block b)) = Ok b' /\ block_hash H b' = block_hash H b
                 /\ block_bytes b' = block_bytes b /\ obs_block b' = obs_block b.
    Proof. intros Hw. exists b. now rewrite roundtrip_block. Qed.
  End Hash.

  (* the observables of every kind are preserved *)
  Corollary observables_preserved :
    (forall s, wf_sig s = true -> obs_sig (from_pb_sig (Some (to_pb_sig s))) = obs_sig s) /\
    (forall c, wf_pc c = true -> exists c', from_pb_pc (Some (to_pb_pc c)) = Ok c' /\ obs_pc c' = obs_pc c) /\
    (forall q, wf_qc q = true -> obs_qc (from_pb_qc (Some (to_pb_qc q))) = obs_qc q) /\
    (forall t, wf_tc t = true -> obs_tc (from_pb_tc (Some (to_pb_tc t))) = obs_tc t) /\
    (forall a, wf_agg a = true -> obs_agg (from_pb_agg (Some (to_pb_agg a))) = obs_agg a) /\
    (forall s, wf_sync s = true -> obs_sync (from_pb_sync (Some (to_pb_sync s))) = obs_sync s) /\
    (forall m, wf_timeout m = true -> obs_timeout (server_timeout bls_decode (tm_id m) (to_pb_timeout m)) = obs_timeout m) /\
    (forall b, wf_block b = true -> exists b', from_pb_block (Some (to_pb_block b)) = Ok b' /\ obs_block b' = obs_block b) /\
    (forall k p, wf_proposal p = true ->
        exists p', server_propose bls_decode k (p_id p) (to_pb_proposal p) = Ok p' /\ obs_proposal p' = obs_proposal p).
  Proof.
    repeat split; intros.
    - now rewrite roundtrip_sig.
    - exists c. now rewrite roundtrip_pc.
    - now rewrite roundtrip_qc.
    - now rewrite roundtrip_tc.
    - now rewrite roundtrip_agg.
    - now rewrite roundtrip_sync.
    - now rewrite roundtrip_timeout.
    - exists b. now rewrite roundtrip_block.
    - exists p. now rewrite roundtrip_proposal.
  Qed.

  (* ---------- verdicts ---------- *)
  (* cert.Authority's Verify* functions read a certificate only through its fields (signature with
     its participants, view, block hash, the id -> QC map); whatever such a function V is (any scheme,
     block store, quorum size), it gives the same verdict after the round trip.  That the Go
     verifiers are functions of these fields is checked by the harness on the real Authority. *)
  Corollary verdict_preserved :
    (forall (V : pcert -> bool) c, wf_pc c = true ->
       exists c', from_pb_pc (Some (to_pb_pc c)) = Ok c' /\ V c' = V c) /\
    (forall (V : qc -> bool) q, wf_qc q = true -> V (from_pb_qc (Some (to_pb_qc q))) = V q) /\
    (forall (V : tc -> bool) t, wf_tc t = true -> V (from_pb_tc (Some (to_pb_tc t))) = V t) /\
    (forall (V : aggqc -> bool) a, wf_agg a = true -> V (from_pb_agg (Some (to_pb_agg a))) = V a) /\
    (forall (V : proposal -> bool) k p, wf_proposal p = true ->
       exists p', server_propose bls_decode k (p_id p) (to_pb_proposal p) = Ok p' /\ V p' = V p).
  Proof.
    repeat split; intros.
    - exists c. now rewrite roundtrip_pc.
    - now rewrite roundtrip_qc.
    - now rewrite roundtrip_tc.
    - now rewrite roundtrip_agg.
    - exists p. now rewrite roundtrip_proposal.
  Qed.

  (* ---------- fetch by hash ---------- *)
  Section Fetch.
    Variable H : bytes -> bytes.
    Hypothesis H_inj : forall a b, H a = H b -> a = b.
    Hypothesis H_len : forall a, length (H a) = 32%nat.

    Local Notation qf := (request_block_qf H bls_decode).

    Lemma qf_accepts_sound h r : qf_accepts H bls_decode h r = Ok true ->
      exists pb blk, r = Some pb /\ from_pb_block (Some pb) = Ok blk /\ block_hash H blk = fix32 h.
    Proof.
      unfold qf_accepts. destruct r as [pb|]; cbn [WireModel.from_pb_block]; [|discriminate].
      intros Hq. injection Hq as Hq. apply list_eqb_N_eq in Hq. eauto.
    Qed.

    (* whatever the iteration order, a returned reply is one of the replies and its recomputed hash is the
       requested one *)
    Lemma qf_sound h replies node pb : qf h replies = Ok (Some (node, pb)) ->
      In (node, Some pb) replies /\
      exists blk, from_pb_block (Some pb) = Ok blk /\ block_hash H blk = fix32 h.
    Proof.
      induction replies as [|[n r] rest IH]; cbn [request_block_qf]; [discriminate|].
      destruct (qf_accepts H bls_decode h r) as [[|]| |] eqn:Ha; try discriminate.
      - apply qf_accepts_sound in Ha as (pb' & blk & -> & Hf & Hh). intros Hq. injection Hq as -> ->.
        split; [now left | eauto].
      - intros Hq. apply IH in Hq as [Hin Hex]. split; [now right | exact Hex].
    Qed.

    Lemma qf_none h replies : qf h replies = Ok None ->
      forall n r, In (n, r) replies -> qf_accepts H bls_decode h r = Ok false.
    Proof.
      induction replies as [|[n r] rest IH]; cbn [request_block_qf]; [intros _ ? ? []|].
      destruct (qf_accepts H bls_decode h r) as [[|]| |] eqn:Ha; try discriminate.
      - destruct r; discriminate.
      - intros Hq n' r' [Heq|Hin]; [injection Heq as <- <-; exact Ha | eapply IH; eauto].
    Qed.

    (* the block handed to the block store by RequestBlock is named by the requested hash, and has the
       bytes of every block that hash names *)
    Theorem fetch_by_hash h replies blk : fetch_block H bls_decode h replies = Ok (Some blk) ->
      block_hash H blk = fix32 h /\
      (exists node pb, In (node, Some pb) replies /\ from_pb_block (Some pb) = Ok blk) /\
      forall orig, block_hash H orig = h -> block_bytes blk = block_bytes orig.
    Proof.
      unfold fetch_block. destruct (qf h replies) as [[[node pb]|]| |] eqn:Hq; try discriminate.
      apply qf_sound in Hq as [Hin (blk' & Hf & Hh)]. rewrite Hf. intros Heq. injection Heq as <-.
      split; [exact Hh|]. split; [eauto|].
      intros orig Ho. apply H_inj. unfold block_hash in *. rewrite Hh, <- Ho.
      apply fix_len_id. apply H_len.
    Qed.

    (* an honest reply (the conversion of a stored well-formed block with the requested hash) is accepted *)
    Lemma honest_reply_accepted orig : wf_block orig = true ->
      qf_accepts H bls_decode (block_hash H orig) (Some (to_pb_block orig)) = Ok true.
    Proof.
      intros Hw. unfold qf_accepts. rewrite (roundtrip_block _ Hw). f_equal. apply list_eqb_N_eq.
      unfold fix32. apply fix_len_id. apply H_len.
    Qed.

    Theorem fetch_finds_honest_reply orig replies node :
      wf_block orig = true -> In (node, Some (to_pb_block orig)) replies ->
      (forall n r, In (n, r) replies -> r <> None) ->
      exists blk, fetch_block H bls_decode (block_hash H orig) replies = Ok (Some blk)
                  /\ block_bytes blk = block_bytes orig.
    Proof.
      intros Hw Hin Hnn.
      assert (Hex : exists n pb, qf (block_hash H orig) replies = Ok (Some (n, pb))).
      { induction replies as [|[n r] rest IH]; [destruct Hin|]. cbn [request_block_qf].
        destruct r as [pb|]; [|exfalso; eapply Hnn; [now left | reflexivity]].
        unfold qf_accepts at 1. cbn [WireModel.from_pb_block].
        destruct (bytes_eqb _ _) eqn:He; [eauto|].
        destruct Hin as [Heq|Hin'].
        - injection Heq as -> Hpb. subst pb. pose proof (honest_reply_accepted _ Hw) as Ha.
          unfold qf_accepts in Ha. cbn [WireModel.from_pb_block] in Ha. rewrite He in Ha. discriminate.
        - apply IH; auto. intros n' r' Hi. eapply Hnn. right. exact Hi. }
      destruct Hex as (n & pb & Hq). unfold fetch_block. rewrite Hq.
      destruct (qf_sound _ _ _ _ Hq) as [_ (blk & Hf & Hh)]. rewrite Hf. exists blk. split; auto.
      apply H_inj. unfold block_hash in Hh. rewrite Hh. apply fix_len_id, H_len.
    Qed.
  End Fetch.
End RoundTrip.

(* ---------- what equal bytes-to-sign determine ---------- *)
Lemma app_inv_len {A} (a a' b b' : list A) : length a = length a' -> a ++ b = a' ++ b' -> a = a' /\ b = b'.
Proof.
  revert a'. induction a as [|x a IH]; intros [|y a'] Hl He; simpl in *; try discriminate; auto.
  injection He as -> He. injection Hl as Hl. destruct (IH _ Hl He) as [-> ->]. auto.
Qed.

Lemma le_bytes_length n v : length (le_bytes n v) = n.
Proof. revert v. induction n; intros; simpl; auto. Qed.

Lemma le_bytes_inj n v w : v < 256 ^ N.of_nat n -> w < 256 ^ N.of_nat n -> le_bytes n v = le_bytes n w -> v = w.
Proof.
  revert v w. induction n as [|n IH]; intros v w Hv Hw He.
  - simpl in Hv, Hw. lia.
  - cbn [le_bytes] in He. injection He as Hm Hr.
    rewrite Nat2N.inj_succ, N.pow_succ_r' in Hv, Hw.
    assert (v / 256 = w / 256).
    { apply IH; auto; apply N.div_lt_upper_bound; lia. }
    rewrite (N.div_mod v 256), (N.div_mod w 256) by lia. congruence.
Qed.

Lemma app_inv_tail_len {A} (a a' b b' : list A) : length b = length b' -> a ++ b = a' ++ b' -> a = a' /\ b = b'.
Proof.
  intros Hl He. apply app_inv_len; auto.
  apply (f_equal (@length A)) in He. rewrite !app_length in He. lia.
Qed.

Lemma pow256_4 : 256 ^ N.of_nat 4 = 2^32. Proof. reflexivity. Qed.
Lemma pow256_8 : 256 ^ N.of_nat 8 = 2^64. Proof. reflexivity. Qed.

Lemma le32_inj v w : v < 2^32 -> w < 2^32 -> le32 v = le32 w -> v = w.
Proof. intros. apply (le_bytes_inj 4); auto; now rewrite pow256_4. Qed.
Lemma le64_inj v w : v < 2^64 -> w < 2^64 -> le64 v = le64 w -> v = w.
Proof. intros. apply (le_bytes_inj 8); auto; now rewrite pow256_8. Qed.

Lemma concat_le32_length ids : length (concat (map le32 ids)) = (4 * length ids)%nat.
Proof.
  induction ids as [|i l IH]; [reflexivity|]. cbn [map concat length]. rewrite app_length, IH.
  unfold le32. rewrite le_bytes_length. lia.
Qed.

Lemma concat_le32_inj ids1 ids2 :
  Forall (fun i => i < 2^32) ids1 -> Forall (fun i => i < 2^32) ids2 ->
  concat (map le32 ids1) = concat (map le32 ids2) -> ids1 = ids2.
Proof.
  revert ids2. induction ids1 as [|i l IH]; intros [|j m] F1 F2 He; auto.
  - apply (f_equal (@length N)) in He. rewrite !concat_le32_length in He. cbn [length] in He. lia.
  - apply (f_equal (@length N)) in He. rewrite !concat_le32_length in He. cbn [length] in He. lia.
  - cbn [map concat] in He. inversion F1 as [|? ? Hi Fl]; inversion F2 as [|? ? Hj Fm]; subst.
    apply app_inv_len in He as [Hij Hr]; [|unfold le32; now rewrite !le_bytes_length].
    apply le32_inj in Hij; auto. subst. f_equal. now apply IH.
Qed.

(* the participant section can be read back from the end of a byte string *)
Lemma participants_tail_inj (Y1 Y2 T1 T2 : bytes) ids1 ids2 :
  length T1 = length T2 ->
  Forall (fun i => i < 2^32) ids1 -> Forall (fun i => i < 2^32) ids2 ->
  N.of_nat (length ids1) < 2^32 -> N.of_nat (length ids2) < 2^32 ->
  Y1 ++ participants_bytes ids1 ++ T1 = Y2 ++ participants_bytes ids2 ++ T2 ->
  Y1 = Y2 /\ ids1 = ids2 /\ T1 = T2.
Proof.
  intros HT F1 F2 L1 L2 He. unfold participants_bytes in He.
  rewrite !app_assoc in He.
  apply app_inv_tail_len in He as [He HTe]; auto.
  apply app_inv_tail_len in He as [He Hn]; [|unfold le32; now rewrite !le_bytes_length].
  apply le32_inj in Hn; auto. apply Nat2N.inj in Hn.
  apply app_inv_tail_len in He as [HY HC]; [|rewrite !concat_le32_length; exact (f_equal (Nat.mul 4) Hn)].
  apply concat_le32_inj in HC; auto.
Qed.

Lemma qc_sig_part_nonnil s : sig_is_nil s = false -> qc_sig_part s = sig_raw s ++ participants_bytes (sig_ids s).
Proof. destruct s; try discriminate; reflexivity. Qed.

Lemma qc_sig_part_nil s : sig_is_nil s = true -> qc_sig_part s = [].
Proof. destruct s; try discriminate; reflexivity. Qed.

Lemma participants_bytes_length ids : length (participants_bytes ids) = (4 * length ids + 4)%nat.
Proof. unfold participants_bytes. rewrite app_length, concat_le32_length. unfold le32. rewrite le_bytes_length. reflexivity. Qed.

Definition ids_ok (s : qsig) : Prop :=
  Forall (fun i => i < 2^32) (sig_ids s) /\ N.of_nat (length (sig_ids s)) < 2^32.

Lemma qc_sig_part_inj s1 s2 : ids_ok s1 -> ids_ok s2 -> qc_sig_part s1 = qc_sig_part s2 ->
  sig_is_nil s1 = sig_is_nil s2 /\ sig_raw s1 = sig_raw s2 /\ sig_ids s1 = sig_ids s2.
Proof.
  intros [F1 L1] [F2 L2] He.
  destruct (sig_is_nil s1) eqn:N1, (sig_is_nil s2) eqn:N2.
  - destruct s1, s2; try discriminate. auto.
  - rewrite (qc_sig_part_nil _ N1), (qc_sig_part_nonnil _ N2) in He.
    apply (f_equal (@length N)) in He. rewrite app_length, participants_bytes_length in He. cbn [length] in He. lia.
  - rewrite (qc_sig_part_nonnil _ N1), (qc_sig_part_nil _ N2) in He.
    apply (f_equal (@length N)) in He. rewrite app_length, participants_bytes_length in He. cbn [length] in He. lia.
  - rewrite (qc_sig_part_nonnil _ N1), (qc_sig_part_nonnil _ N2) in He.
    rewrite <- (app_nil_r (participants_bytes (sig_ids s1))), <- (app_nil_r (participants_bytes (sig_ids s2))) in He.
    apply participants_tail_inj in He as (HY & Hi & _); auto.
Qed.

(* equal certificate bytes: same view, same block hash, same nil-ness, same signature bytes and the
   same claimed signer ids (in the scheme's enumeration order) *)
Theorem qc_bytes_inj q1 q2 :
  length (qc_hash q1) = 32%nat -> length (qc_hash q2) = 32%nat ->
  qc_view q1 < 2^64 -> qc_view q2 < 2^64 -> ids_ok (qc_sig q1) -> ids_ok (qc_sig q2) ->
  qc_bytes q1 = qc_bytes q2 ->
  qc_view q1 = qc_view q2 /\ qc_hash q1 = qc_hash q2 /\ sig_is_nil (qc_sig q1) = sig_is_nil (qc_sig q2)
  /\ sig_raw (qc_sig q1) = sig_raw (qc_sig q2) /\ sig_ids (qc_sig q1) = sig_ids (qc_sig q2).
Proof.
  intros H1 H2 V1 V2 I1 I2 He. unfold qc_bytes in He.
  apply app_inv_len in He as [Hv He]; [|unfold le64; now rewrite !le_bytes_length].
  apply app_inv_len in He as [Hh He]; [|congruence].
  apply le64_inj in Hv; auto. destruct (qc_sig_part_inj _ _ I1 I2 He) as (A & B & C). auto.
Qed.

(* ---------- framed multi-signature bytes determine every entry ---------- *)
Definition entries_ok (l : list (rid * bytes)) : Prop :=
  Forall (fun e : rid * bytes => N.of_nat (length (snd e)) < 2^32) l.

Lemma framed_inj l1 l2 : entries_ok l1 -> entries_ok l2 -> length l1 = length l2 ->
  framed l1 = framed l2 -> map snd l1 = map snd l2.
Proof.
  revert l2. induction l1 as [|[i a] l IH]; intros [|[j b] m] F1 F2 Hl He; try discriminate; auto.
  unfold framed in He. cbn [map concat snd] in He. fold (framed l) in He. fold (framed m) in He.
  inversion F1 as [|? ? Ha Fl]; inversion F2 as [|? ? Hb Fm]; subst. cbn [snd] in Ha, Hb.
  rewrite <- !app_assoc in He.
  apply app_inv_len in He as [Hn He]; [|unfold le32; now rewrite !le_bytes_length].
  apply le32_inj in Hn; auto. apply Nat2N.inj in Hn.
  apply app_inv_len in He as [Hab He]; auto.
  cbn [map snd]. f_equal; [exact Hab|]. apply IH; auto.
Qed.

Lemma entries_eq (l1 l2 : list (rid * bytes)) : map fst l1 = map fst l2 -> map snd l1 = map snd l2 -> l1 = l2.
Proof.
  revert l2. induction l1 as [|[i a] l IH]; intros [|[j b] m] Hf Hs; try discriminate; auto.
  cbn [map fst snd] in Hf, Hs. injection Hf as -> Hf. injection Hs as -> Hs. f_equal. now apply IH.
Qed.

(* two multi-signatures with the same ToBytes and the same participants have the same entries *)
Lemma multi_entries_inj s1 s2 :
  sig_is_multi s1 = true -> sig_is_multi s2 = true ->
  entries_ok (sig_entries s1) -> entries_ok (sig_entries s2) ->
  sig_raw s1 = sig_raw s2 -> sig_ids s1 = sig_ids s2 -> sig_entries s1 = sig_entries s2.
Proof.
  intros M1 M2 E1 E2 Hr Hi.
  assert (H1 : sig_raw s1 = framed (sig_entries s1) /\ sig_ids s1 = map fst (sig_entries s1)) by (destruct s1; try discriminate; auto).
  assert (H2 : sig_raw s2 = framed (sig_entries s2) /\ sig_ids s2 = map fst (sig_entries s2)) by (destruct s2; try discriminate; auto).
  destruct H1 as [R1 I1], H2 as [R2 I2]. rewrite R1, R2 in Hr. rewrite I1, I2 in Hi.
  apply entries_eq; auto. apply framed_inj; auto.
  apply (f_equal (@length rid)) in Hi. now rewrite !map_length in Hi.
Qed.

Lemma ts_nanos_lt t : ts_nanos t < 2^64.
Proof.
  unfold ts_nanos. pose proof (Z.mod_pos_bound (fst t * 10 ^ 9 + snd t) (2^64)%Z ltac:(reflexivity)) as Hb.
  change (2^64) with (Z.to_N (2^64)%Z). apply Z2N.inj_lt; lia.
Qed.

(* equal certificate bytes of two multi-signature certificates: the same (signer, signature) entries,
   hence - with view and hash - the same certificate up to the scheme tag *)
Theorem qc_bytes_name_entries q1 q2 :
  length (qc_hash q1) = 32%nat -> length (qc_hash q2) = 32%nat ->
  qc_view q1 < 2^64 -> qc_view q2 < 2^64 -> ids_ok (qc_sig q1) -> ids_ok (qc_sig q2) ->
  sig_is_multi (qc_sig q1) = true -> sig_is_multi (qc_sig q2) = true ->
  entries_ok (sig_entries (qc_sig q1)) -> entries_ok (sig_entries (qc_sig q2)) ->
  qc_bytes q1 = qc_bytes q2 ->
  qc_view q1 = qc_view q2 /\ qc_hash q1 = qc_hash q2 /\ sig_entries (qc_sig q1) = sig_entries (qc_sig q2).
Proof.
  intros H1 H2 V1 V2 I1 I2 M1 M2 E1 E2 He.
  destruct (qc_bytes_inj q1 q2 H1 H2 V1 V2 I1 I2 He) as (Hv & Hh & _ & Hr & Hi).
  repeat split; auto. now apply multi_entries_inj.
Qed.

(* two blocks with the same bytes agree on parent, proposer, view (fixed-width prefix) *)
Lemma block_bytes_prefix b1 b2 :
  length (b_parent b1) = 32%nat -> length (b_parent b2) = 32%nat ->
  b_proposer b1 < 2^32 -> b_proposer b2 < 2^32 -> b_view b1 < 2^64 -> b_view b2 < 2^64 ->
  block_bytes b1 = block_bytes b2 ->
  b_parent b1 = b_parent b2 /\ b_proposer b1 = b_proposer b2 /\ b_view b1 = b_view b2
  /\ le32 (N.of_nat (length (b_batch b1))) ++ b_batch b1 ++ qc_bytes (b_cert b1) ++ le64 (ts_nanos (b_ts b1))
     = le32 (N.of_nat (length (b_batch b2))) ++ b_batch b2 ++ qc_bytes (b_cert b2) ++ le64 (ts_nanos (b_ts b2)).
Proof.
  intros L1 L2 P1 P2 V1 V2 He. unfold block_bytes in He.
  apply app_inv_len in He as [Hp He]; [|congruence].
  apply app_inv_len in He as [Hi He]; [|unfold le32; now rewrite !le_bytes_length].
  apply app_inv_len in He as [Hv He]; [|unfold le64; now rewrite !le_bytes_length].
  apply le32_inj in Hi; auto. apply le64_inj in Hv; auto.
Qed.

(* the bytes of a block name the signers of its (signed) certificate, whatever the batches are *)
Theorem block_bytes_name_signers b1 b2 :
  sig_is_nil (qc_sig (b_cert b1)) = false -> sig_is_nil (qc_sig (b_cert b2)) = false ->
  ids_ok (qc_sig (b_cert b1)) -> ids_ok (qc_sig (b_cert b2)) ->
  block_bytes b1 = block_bytes b2 ->
  sig_ids (qc_sig (b_cert b1)) = sig_ids (qc_sig (b_cert b2)) /\ ts_nanos (b_ts b1) = ts_nanos (b_ts b2).
Proof.
  intros N1 N2 [F1 L1] [F2 L2] He. unfold block_bytes, qc_bytes in He.
  rewrite (qc_sig_part_nonnil _ N1), (qc_sig_part_nonnil _ N2) in He.
  assert (Hshape : forall (p i v l c qv qh r pb t : bytes),
             p ++ i ++ v ++ l ++ c ++ (qv ++ qh ++ r ++ pb) ++ t = (p ++ i ++ v ++ l ++ c ++ qv ++ qh ++ r) ++ pb ++ t).
  { intros. now rewrite <- !app_assoc. }
  rewrite !Hshape in He.
  assert (HT : length (le64 (ts_nanos (b_ts b1))) = length (le64 (ts_nanos (b_ts b2))))
    by (unfold le64; now rewrite !le_bytes_length).
  destruct (participants_tail_inj _ _ _ _ _ _ HT F1 F2 L1 L2 He) as (_ & Hi & Ht).
  split; auto. apply le64_inj in Ht; auto using ts_nanos_lt.
Qed.

(* equal bytes determine every component (the batch length prefix frames batch against certificate);
   batches are shorter than 2^32 bytes *)
Theorem block_bytes_inj b1 b2 :
  length (b_parent b1) = 32%nat -> length (b_parent b2) = 32%nat ->
  b_proposer b1 < 2^32 -> b_proposer b2 < 2^32 -> b_view b1 < 2^64 -> b_view b2 < 2^64 ->
  length (qc_hash (b_cert b1)) = 32%nat -> length (qc_hash (b_cert b2)) = 32%nat ->
  qc_view (b_cert b1) < 2^64 -> qc_view (b_cert b2) < 2^64 ->
  ids_ok (qc_sig (b_cert b1)) -> ids_ok (qc_sig (b_cert b2)) ->
  N.of_nat (length (b_batch b1)) < 2^32 -> N.of_nat (length (b_batch b2)) < 2^32 ->
  block_bytes b1 = block_bytes b2 ->
  b_parent b1 = b_parent b2 /\ b_proposer b1 = b_proposer b2 /\ b_view b1 = b_view b2 /\ b_batch b1 = b_batch b2
  /\ qc_view (b_cert b1) = qc_view (b_cert b2) /\ qc_hash (b_cert b1) = qc_hash (b_cert b2)
  /\ sig_is_nil (qc_sig (b_cert b1)) = sig_is_nil (qc_sig (b_cert b2))
  /\ sig_raw (qc_sig (b_cert b1)) = sig_raw (qc_sig (b_cert b2)) /\ sig_ids (qc_sig (b_cert b1)) = sig_ids (qc_sig (b_cert b2))
  /\ ts_nanos (b_ts b1) = ts_nanos (b_ts b2).
Proof.
  intros L1 L2 P1 P2 V1 V2 H1 H2 Q1 Q2 I1 I2 B1 B2 He.
  apply block_bytes_prefix in He as (Hp & Hi & Hv & He); auto.
  apply app_inv_len in He as [Hl He]; [|unfold le32; now rewrite !le_bytes_length].
  apply le32_inj in Hl; auto. apply Nat2N.inj in Hl.
  apply app_inv_len in He as [Hb He]; auto.
  apply app_inv_tail_len in He as [Hq Ht]; [|unfold le64; now rewrite !le_bytes_length].
  apply le64_inj in Ht; auto using ts_nanos_lt.
  apply qc_bytes_inj in Hq; auto. tauto.
Qed.

(* the encoding before the repair did not name the signers: relabelling them kept the bytes *)
Definition relabel_b1 : block :=
  mkBlock (repeat 0 32) 1 [] (mkQC (SigECDSA [(1, [7]); (2, [8])]) 1 (repeat 0 32)) 2 (0, 0)%Z.
Definition relabel_b2 : block :=
  mkBlock (repeat 0 32) 1 [] (mkQC (SigECDSA [(2, [7]); (1, [8])]) 1 (repeat 0 32)) 2 (0, 0)%Z.
Lemma old_block_bytes_name_signers_refuted :
  exists b1 b2, wf_block (fun _ => None) b1 = true /\ wf_block (fun _ => None) b2 = true /\
    block_bytes_old b1 = block_bytes_old b2 /\
    sig_ids (qc_sig (b_cert b1)) <> sig_ids (qc_sig (b_cert b2)) /\
    block_bytes b1 <> block_bytes b2.
Proof.
  exists relabel_b1, relabel_b2. repeat split; try (vm_compute; reflexivity); vm_compute; discriminate.
Qed.

(* before the length prefix, batch and certificate could trade bytes: a block without commands whose
   certificate's view field holds the 8 bytes 0a 06 1a 04 d0 d1 d2 d3, and a block whose batch is those 8
   bytes (one command with data d0 d1 d2 d3), had the same bytes *)
Definition shift_h2 : bytes := repeat 7 24 ++ repeat 9 8.
Definition shift_b1 : block :=
  mkBlock (repeat 0 32) 1 [] (mkQC (SigECDSA [(1, repeat 9 8 ++ [1; 2; 3])]) 15263492778464249354 (le64 41 ++ repeat 7 24)) 42 (5, 0)%Z.
Definition shift_b2 : block :=
  mkBlock (repeat 0 32) 1 [10; 6; 26; 4; 208; 209; 210; 211] (mkQC (SigECDSA [(1, [1; 2; 3])]) 41 shift_h2) 42 (5, 0)%Z.
Lemma unframed_block_bytes_refuted :
  exists b1 b2, wf_block (fun _ => None) b1 = true /\ wf_block (fun _ => None) b2 = true /\
    block_bytes_unframed b1 = block_bytes_unframed b2 /\
    b_batch b1 <> b_batch b2 /\ qc_view (b_cert b1) <> qc_view (b_cert b2) /\
    block_bytes b1 <> block_bytes b2.
Proof.
  exists shift_b1, shift_b2. repeat split; try (vm_compute; reflexivity); vm_compute; discriminate.
Qed.

(* before the per-signature length prefix, the same signers could carry the same bytes cut elsewhere *)
Definition part_b1 : block :=
  mkBlock (repeat 0 32) 1 [] (mkQC (SigECDSA [(1, [7]); (2, [8]); (3, [9])]) 1 (repeat 0 32)) 2 (0, 0)%Z.
Definition part_b2 : block :=
  mkBlock (repeat 0 32) 1 [] (mkQC (SigECDSA [(1, [7; 8]); (2, []); (3, [9])]) 1 (repeat 0 32)) 2 (0, 0)%Z.
Lemma unframed_signature_bytes_refuted :
  exists b1 b2, wf_block (fun _ => None) b1 = true /\ wf_block (fun _ => None) b2 = true /\
    block_bytes_v2 b1 = block_bytes_v2 b2 /\
    sig_ids (qc_sig (b_cert b1)) = sig_ids (qc_sig (b_cert b2)) /\
    sig_entries (qc_sig (b_cert b1)) <> sig_entries (qc_sig (b_cert b2)) /\
    block_bytes b1 <> block_bytes b2.
Proof.
  exists part_b1, part_b2. repeat split; try (vm_compute; reflexivity); vm_compute; discriminate.
Qed.

(* a block fetched by hash carries the certificate signers of the block that hash names *)
Theorem fetched_block_names_signers (d : bytes -> option bytes) (H : bytes -> bytes) :
  (forall a b, H a = H b -> a = b) -> (forall a, length (H a) = 32%nat) ->
  forall h replies blk orig,
    fetch_block H d h replies = Ok (Some blk) -> block_hash H orig = h ->
    sig_is_nil (qc_sig (b_cert blk)) = false -> sig_is_nil (qc_sig (b_cert orig)) = false ->
    ids_ok (qc_sig (b_cert blk)) -> ids_ok (qc_sig (b_cert orig)) ->
    sig_ids (qc_sig (b_cert blk)) = sig_ids (qc_sig (b_cert orig)) /\ ts_nanos (b_ts blk) = ts_nanos (b_ts orig).
Proof.
  intros Hinj Hlen h replies blk orig Hf Ho N1 N2 I1 I2.
  destruct (fetch_by_hash d H Hinj Hlen h replies blk Hf) as (_ & _ & Hb).
  apply block_bytes_name_signers; auto.
Qed.

(* C04 — executable model of the three consensus rulesets of /repo/protocol/rules
   (chainedhotstuff.go, fasthotstuff.go, simplehotstuff.go) together with the two
   block-store queries they use (security/blockchain/blockchain.go: Get, Extends).
   Definitions only; proofs are in RulesProofs.v, the published rules in RulesSpec.v.

   Conventions
   * hashes are interned to N; the all-zero hash (hotstuff.Hash{}) is 0.
   * a block is (hash, parent hash, view, qc) with qc = (certified hash, view label).
   * the block store is the list of stored blocks in order of insertion; [get] is the Go map
     lookup ([Store] never overwrites, so "first match" is the stored block).  A failed
     lookup models Get's failed fetch (the harness' sender never finds a block).
   * View is uint64: [+1] and [+2] wrap ([succ64], [add2_64]).
   * the lock (chained: bLock, simple: locked) is a block, as the Go pointer is.
   The simple-HotStuff commit rule is modelled WITH the repair of
   fixes/C04-simple-commit-direct-chain.patch (direct parent links and consecutive
   views); [simple_commit_unpatched] is the rule as it stands without the patch. *)
From HS Require Import Base.Prelude.
Open Scope N_scope.

Record qc := mkQC { qc_hash : hash; qc_view : view }.
Record block := mkBlock { b_hash : hash; b_parent : hash; b_view : view; b_qc : qc }.

(* ProposeMsg: the block and, for Fast-HotStuff, the optional AggregateQC, represented by the
   highest QC it attests (the rules never look at it: the voter has checked that it is the
   block's own QC) and the view the AggregateQC was created in. *)
Record aggqc := mkAgg { agg_high : qc; agg_view : view }.
Record proposal := mkProp { p_block : block; p_agg : option aggqc }.

Definition store := list block.

Definition zero_hash : hash := 0.
Definition two64 : N := 18446744073709551616.
Definition succ64 (v : view) : view := (v + 1) mod two64.
Definition add2_64 (v : view) : view := (v + 2) mod two64.

(* genesis.go: view 0, zero parent, QC (zero hash, view 0); its hash is interned as 1 *)
Definition genesis : block := mkBlock 1 zero_hash 0 (mkQC zero_hash 0).

(* Blockchain.Get / LocalGet *)
Definition get (f : store) (h : hash) : option block :=
  find (fun b => N.eqb (b_hash b) h) f.

(* Blockchain.Store: an existing hash is not overwritten *)
Definition store_block (f : store) (b : block) : store :=
  match get f (b_hash b) with
  | Some _ => f
  | None => f ++ [b]
  end.

(* qcRef (chained, fast): the zero hash refers to nothing *)
Definition qc_ref (f : store) (q : qc) : option block :=
  if N.eqb (qc_hash q) zero_hash then None else get f (qc_hash q).

(* Blockchain.Extends: walk parent links while the current view exceeds the target's view,
   then compare hashes.  Content addressing makes the parent relation acyclic, so the Go loop
   takes at most |store| steps; [fuel] stands for that bound. *)
Fixpoint extends_fuel (fuel : nat) (f : store) (cur target : block) : bool :=
  if N.ltb (b_view target) (b_view cur) then
    match fuel with
    | O => false
    | S k =>
        match get f (b_parent cur) with
        | None => false
        | Some p => extends_fuel k f p target
        end
    end
  else N.eqb (b_hash cur) (b_hash target).

Definition extends (f : store) (cur target : block) : bool :=
  extends_fuel (S (length f)) f cur target.

(* ---------------------------------------------------------------- chained HotStuff *)

Definition chained_vote (f : store) (lock : block) (_ : view) (p : proposal) : bool :=
  let blk := p_block p in
  match get f (qc_hash (b_qc blk)) with
  | Some qb => if N.ltb (b_view lock) (b_view qb) then true else extends f blk lock
  | None => extends f blk lock
  end.

(* returns (new lock, block to commit) *)
Definition chained_commit (f : store) (lock : block) (blk : block) : block * option block :=
  match qc_ref f (b_qc blk) with
  | None => (lock, None)
  | Some b1 =>
      match qc_ref f (b_qc b1) with
      | None => (lock, None)
      | Some b2 =>
          let lock' := if N.ltb (b_view lock) (b_view b2) then b2 else lock in
          match qc_ref f (b_qc b2) with
          | None => (lock', None)
          | Some b3 =>
              if N.eqb (b_parent b1) (b_hash b2) && N.eqb (b_view b1) (succ64 (b_view b2))
                 && N.eqb (b_parent b2) (b_hash b3) && N.eqb (b_view b2) (succ64 (b_view b3))
              then (lock', Some b3) else (lock', None)
          end
      end
  end.

(* ---------------------------------------------------------------- Fast-HotStuff *)

Definition fast_vote (f : store) (v : view) (p : proposal) : bool :=
  let blk := p_block p in
  match p_agg p with
  | Some a =>
      if N.ltb (succ64 (agg_view a)) (b_view blk) then false
      else match get f (qc_hash (b_qc blk)) with
           | Some hb => extends f blk hb
           | None => false
           end
  | None => N.leb v (b_view blk) && N.eqb (b_view blk) (succ64 (qc_view (b_qc blk)))
  end.

Definition fast_commit (f : store) (blk : block) : option block :=
  match qc_ref f (b_qc blk) with
  | None => None
  | Some par =>
      match qc_ref f (b_qc par) with
      | None => None
      | Some gp =>
          if N.eqb (b_parent blk) (b_hash par) && N.eqb (b_view blk) (succ64 (b_view par))
             && N.eqb (b_parent par) (b_hash gp) && N.eqb (b_view par) (succ64 (b_view gp))
          then Some gp else None
      end
  end.

(* ---------------------------------------------------------------- simple HotStuff *)

Definition simple_vote (f : store) (lock : block) (v : view) (p : proposal) : bool :=
  let blk := p_block p in
  if N.ltb (b_view blk) v then false
  else match get f (qc_hash (b_qc blk)) with
       | None => false
       | Some par => negb (N.ltb (b_view par) (b_view lock))
       end.

(* [direct]: does the rule also ask for parent links and consecutive views (patched rule)? *)
Definition simple_commit_gen (direct : bool) (f : store) (lock : block) (blk : block)
  : block * option block :=
  match get f (qc_hash (b_qc blk)) with
  | None => (lock, None)
  | Some p =>
      match get f (qc_hash (b_qc p)) with
      | None => (lock, None)
      | Some gp =>
          let lock' := if N.ltb (b_view lock) (b_view gp) then gp else lock in
          match get f (qc_hash (b_qc gp)) with
          | None => (lock', None)
          | Some ggp =>
              if N.eqb (add2_64 (b_view ggp)) (b_view p)
                 && (negb direct
                     || (N.eqb (b_parent p) (b_hash gp) && N.eqb (b_view p) (succ64 (b_view gp))
                         && N.eqb (b_parent gp) (b_hash ggp)
                         && N.eqb (b_view gp) (succ64 (b_view ggp))))
              then (lock', Some ggp) else (lock', None)
          end
      end
  end.

Definition simple_commit := simple_commit_gen true.
Definition simple_commit_unpatched := simple_commit_gen false.

(* ---------------------------------------------------------------- runs *)

Inductive ruleset := Chained | Fast | Simple.

Definition vote_rule (rs : ruleset) (f : store) (lock : block) (v : view) (p : proposal) : bool :=
  match rs with
  | Chained => chained_vote f lock v p
  | Fast => fast_vote f v p
  | Simple => simple_vote f lock v p
  end.

Definition commit_rule (rs : ruleset) (f : store) (lock : block) (blk : block)
  : block * option block :=
  match rs with
  | Chained => chained_commit f lock blk
  | Fast => (lock, fast_commit f blk)
  | Simple => simple_commit f lock blk
  end.

(* What the surrounding code does with a ruleset (consensus/voter.go, committer.go):
   SVote   = Voter.Verify's call  VoteRule(view, proposal)           (state unchanged)
   SCommit = Committer.TryCommit: Store(block); CommitRule(block)    (store and lock change)
   SStore  = a block entering the store by a successful fetch        (store changes) *)
Inductive step :=
| SVote (v : view) (p : proposal)
| SCommit (b : block)
| SStore (b : block).

Inductive obs :=
| OVote (r : bool)
| OCommit (committed : option hash) (lock_after : hash)
| OStore.

Definition state := (store * block)%type.
Definition init_state : state := ([genesis], genesis).

Definition do_step (rs : ruleset) (st : state) (s : step) : state * obs :=
  let '(f, lock) := st in
  match s with
  | SVote v p => (st, OVote (vote_rule rs f lock v p))
  | SCommit b =>
      let f' := store_block f b in
      let '(lock', c) := commit_rule rs f' lock b in
      ((f', lock'), OCommit (option_map b_hash c) (b_hash lock'))
  | SStore b => ((store_block f b, lock), OStore)
  end.

Fixpoint run (rs : ruleset) (st : state) (ss : list step) : state * list obs :=
  match ss with
  | [] => (st, [])
  | s :: r =>
      let '(st', o) := do_step rs st s in
      let '(st'', os) := run rs st' r in
      (st'', o :: os)
  end.

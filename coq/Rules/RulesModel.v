(* C04 — executable model of the three consensus rulesets of /repo/protocol/rules
   (chainedhotstuff.go, fasthotstuff.go, simplehotstuff.go) together with the two
   block-store queries they use (security/blockchain/blockchain.go: Get, Extends).
   Definitions only; proofs are in RulesProofs.v, the published rules in RulesSpec.v.

   Conventions
   * hashes are interned to N; the all-zero hash (hotstuff.Hash{}) is 0.
   * a block is (hash, parent hash, view, qc) with qc = (certified hash, view label).
   * the block store is the list of stored blocks in order of insertion; [get] is the Go map
     lookup ([Store] never overwrites, so "first match" is the stored block).
   * Blockchain.Get fetches a block it does not have from a peer and STORES it.  The first part
     of this file gives the rules as pure functions of the blocks that are AVAILABLE (stored or
     obtainable); the last part ([fetch], [*_io]) mirrors the Go code Get by Get, threading the
     store through every call, for a given set [net] of blocks the peers can supply.
     RulesProofs shows that the threaded rules decide what the pure rules decide on
     [stored ++ net] and only add fetched blocks to the store.
   * View is uint64: [+1] and [+2] wrap ([succ64], [add2_64]).
   * the lock (chained: bLock, simple: locked) is a block, as the Go pointer is.
   The simple-HotStuff commit rule is modelled WITH the repair of
   fixes/C04-simple-commit-direct-chain.patch (direct parent links and consecutive
   views); [simple_commit_unpatched] is the rule as it stands without the patch. *)
From HS Require Import Base.Prelude.
Open Scope N_scope.

Record qc := mkQC { qc_hash : hash; qc_view : view }.
Record block := mkBlock { b_hash : hash; b_parent : hash; b_view : view; b_qc : qc }.

(* ProposeMsg: the block and, for Fast-HotStuff, the optional AggregateQC, represented by the
   highest QC it attests (the rules never look at it: the voter has checked that it is the
   block's own QC) and the view the AggregateQC was created in. *)
Record aggqc := mkAgg { agg_high : qc; agg_view : view }.
Record proposal := mkProp { p_block : block; p_agg : option aggqc }.

Definition store := list block.

Definition zero_hash : hash := 0.
Definition two64 : N := 18446744073709551616.
Definition succ64 (v : view) : view := (v + 1) mod two64.
Definition add2_64 (v : view) : view := (v + 2) mod two64.

(* genesis.go: view 0, zero parent, QC (zero hash, view 0); its hash is interned as 1 *)
Definition genesis : block := mkBlock 1 zero_hash 0 (mkQC zero_hash 0).

(* Blockchain.Get / LocalGet *)
Definition get (f : store) (h : hash) : option block :=
  find (fun b => N.eqb (b_hash b) h) f.

(* Blockchain.Store: an existing hash is not overwritten *)
Definition store_block (f : store) (b : block) : store :=
  match get f (b_hash b) with
  | Some _ => f
  | None => f ++ [b]
  end.

(* qcRef (chained, fast): the zero hash refers to nothing *)
Definition qc_ref (f : store) (q : qc) : option block :=
  if N.eqb (qc_hash q) zero_hash then None else get f (qc_hash q).

(* Blockchain.Extends: walk parent links while the current view exceeds the target's view,
   then compare hashes.  Content addressing makes the parent relation acyclic, so the Go loop
   takes at most |store| steps; [fuel] stands for that bound. *)
Fixpoint extends_fuel (fuel : nat) (f : store) (cur target : block) : bool :=
  if N.ltb (b_view target) (b_view cur) then
    match fuel with
    | O => false
    | S k =>
        match get f (b_parent cur) with
        | None => false
        | Some p => extends_fuel k f p target
        end
    end
  else N.eqb (b_hash cur) (b_hash target).

Definition extends (f : store) (cur target : block) : bool :=
  extends_fuel (S (length f)) f cur target.

(* ---------------------------------------------------------------- chained HotStuff *)

(* the block the lock must move to when a block certifying [qb] is processed (CommitRule):
   [true] when it is there, or when [qb] carries the placeholder certificate (zero hash) *)
Definition lock_target_ok (f : store) (qb : block) : bool :=
  if N.eqb (qc_hash (b_qc qb)) zero_hash then true
  else match get f (qc_hash (b_qc qb)) with Some _ => true | None => false end.

Definition chained_vote (f : store) (lock : block) (_ : view) (p : proposal) : bool :=
  let blk := p_block p in
  match get f (qc_hash (b_qc blk)) with
  | Some qb =>
      if negb (lock_target_ok f qb) then false
      else if N.ltb (b_view lock) (b_view qb) then true else extends f blk lock
  | None => extends f blk lock
  end.

(* returns (new lock, block to commit) *)
Definition chained_commit (f : store) (lock : block) (blk : block) : block * option block :=
  match qc_ref f (b_qc blk) with
  | None => (lock, None)
  | Some b1 =>
      match qc_ref f (b_qc b1) with
      | None => (lock, None)
      | Some b2 =>
          let lock' := if N.ltb (b_view lock) (b_view b2) then b2 else lock in
          match qc_ref f (b_qc b2) with
          | None => (lock', None)
          | Some b3 =>
              if N.eqb (b_parent b1) (b_hash b2) && N.eqb (b_view b1) (succ64 (b_view b2))
                 && N.eqb (b_parent b2) (b_hash b3) && N.eqb (b_view b2) (succ64 (b_view b3))
              then (lock', Some b3) else (lock', None)
          end
      end
  end.

(* ---------------------------------------------------------------- Fast-HotStuff *)

Definition fast_vote (f : store) (v : view) (p : proposal) : bool :=
  let blk := p_block p in
  match p_agg p with
  | Some a =>
      if N.ltb (succ64 (agg_view a)) (b_view blk) then false
      else match get f (qc_hash (b_qc blk)) with
           | Some hb => extends f blk hb
           | None => false
           end
  | None => N.leb v (b_view blk) && N.eqb (b_view blk) (succ64 (qc_view (b_qc blk)))
  end.

Definition fast_commit (f : store) (blk : block) : option block :=
  match qc_ref f (b_qc blk) with
  | None => None
  | Some par =>
      match qc_ref f (b_qc par) with
      | None => None
      | Some gp =>
          if N.eqb (b_parent blk) (b_hash par) && N.eqb (b_view blk) (succ64 (b_view par))
             && N.eqb (b_parent par) (b_hash gp) && N.eqb (b_view par) (succ64 (b_view gp))
          then Some gp else None
      end
  end.

(* ---------------------------------------------------------------- simple HotStuff *)

Definition simple_vote (f : store) (lock : block) (v : view) (p : proposal) : bool :=
  let blk := p_block p in
  if N.ltb (b_view blk) v then false
  else match get f (qc_hash (b_qc blk)) with
       | None => false
       | Some par =>
           if negb (lock_target_ok f par) then false
           else negb (N.ltb (b_view par) (b_view lock))
       end.

(* [direct]: does the rule also ask for parent links and consecutive views (patched rule)? *)
Definition simple_commit_gen (direct : bool) (f : store) (lock : block) (blk : block)
  : block * option block :=
  match get f (qc_hash (b_qc blk)) with
  | None => (lock, None)
  | Some p =>
      match get f (qc_hash (b_qc p)) with
      | None => (lock, None)
      | Some gp =>
          let lock' := if N.ltb (b_view lock) (b_view gp) then gp else lock in
          match get f (qc_hash (b_qc gp)) with
          | None => (lock', None)
          | Some ggp =>
              if N.eqb (add2_64 (b_view ggp)) (b_view p)
                 && (negb direct
                     || (N.eqb (b_parent p) (b_hash gp) && N.eqb (b_view p) (succ64 (b_view gp))
                         && N.eqb (b_parent gp) (b_hash ggp)
                         && N.eqb (b_view gp) (succ64 (b_view ggp))))
              then (lock', Some ggp) else (lock', None)
          end
      end
  end.

Definition simple_commit := simple_commit_gen true.
Definition simple_commit_unpatched := simple_commit_gen false.

(* ---------------------------------------------------------------- runs *)

Inductive ruleset := Chained | Fast | Simple.

Definition vote_rule (rs : ruleset) (f : store) (lock : block) (v : view) (p : proposal) : bool :=
  match rs with
  | Chained => chained_vote f lock v p
  | Fast => fast_vote f v p
  | Simple => simple_vote f lock v p
  end.

Definition commit_rule (rs : ruleset) (f : store) (lock : block) (blk : block)
  : block * option block :=
  match rs with
  | Chained => chained_commit f lock blk
  | Fast => (lock, fast_commit f blk)
  | Simple => simple_commit f lock blk
  end.

(* What the surrounding code does with a ruleset (consensus/voter.go, committer.go):
   SVote   = Voter.Verify's call  VoteRule(view, proposal)           (state unchanged)
   SCommit = Committer.TryCommit: Store(block); CommitRule(block)    (store and lock change)
   SStore  = a block entering the store by a successful fetch        (store changes) *)
Inductive step :=
| SVote (v : view) (p : proposal)
| SCommit (b : block)
| SStore (b : block).

Inductive obs :=
| OVote (r : bool)
| OCommit (committed : option hash) (lock_after : hash)
| OStore.

Definition state := (store * block)%type.
Definition init_state : state := ([genesis], genesis).

Definition do_step (rs : ruleset) (st : state) (s : step) : state * obs :=
  let '(f, lock) := st in
  match s with
  | SVote v p => (st, OVote (vote_rule rs f lock v p))
  | SCommit b =>
      let f' := store_block f b in
      let '(lock', c) := commit_rule rs f' lock b in
      ((f', lock'), OCommit (option_map b_hash c) (b_hash lock'))
  | SStore b => ((store_block f b, lock), OStore)
  end.

Fixpoint run (rs : ruleset) (st : state) (ss : list step) : state * list obs :=
  match ss with
  | [] => (st, [])
  | s :: r =>
      let '(st', o) := do_step rs st s in
      let '(st'', os) := run rs st' r in
      (st'', o :: os)
  end.

(* ================================================================ the rules with fetching *)
(* Blockchain.Get: local lookup, else RequestBlock; a fetched block is stored under its hash *)
Definition fetch (net f : store) (h : hash) : store * option block :=
  match get f h with
  | Some b => (f, Some b)
  | None =>
      match get net h with
      | Some b => (f ++ [b], Some b)
      | None => (f, None)
      end
  end.

Definition qc_ref_io (net f : store) (q : qc) : store * option block :=
  if N.eqb (qc_hash q) zero_hash then (f, None) else fetch net f (qc_hash q).

Fixpoint extends_io (fuel : nat) (net f : store) (cur target : block) : store * bool :=
  if N.ltb (b_view target) (b_view cur) then
    match fuel with
    | O => (f, false)
    | S k =>
        match fetch net f (b_parent cur) with
        | (f', None) => (f', false)
        | (f', Some p) => extends_io k net f' p target
        end
    end
  else (f, N.eqb (b_hash cur) (b_hash target)).

(* the lock-target test of the vote rules: Get(qb.QuorumCert().BlockHash()) unless zero *)
Definition lock_target_io (net f : store) (qb : block) : store * bool :=
  if N.eqb (qc_hash (b_qc qb)) zero_hash then (f, true)
  else match fetch net f (qc_hash (b_qc qb)) with
       | (f', Some _) => (f', true)
       | (f', None) => (f', false)
       end.

Definition chained_vote_io (net f : store) (lock : block) (_ : view) (p : proposal) : store * bool :=
  let blk := p_block p in
  let fuel := S (length f + length net) in
  match fetch net f (qc_hash (b_qc blk)) with
  | (f1, Some qb) =>
      match lock_target_io net f1 qb with
      | (f2, false) => (f2, false)
      | (f2, true) =>
          if N.ltb (b_view lock) (b_view qb) then (f2, true) else extends_io fuel net f2 blk lock
      end
  | (f1, None) => extends_io fuel net f1 blk lock
  end.

Definition chained_commit_io (net f : store) (lock blk : block) : store * (block * option block) :=
  match qc_ref_io net f (b_qc blk) with
  | (f1, None) => (f1, (lock, None))
  | (f1, Some b1) =>
      match qc_ref_io net f1 (b_qc b1) with
      | (f2, None) => (f2, (lock, None))
      | (f2, Some b2) =>
          let lock' := if N.ltb (b_view lock) (b_view b2) then b2 else lock in
          match qc_ref_io net f2 (b_qc b2) with
          | (f3, None) => (f3, (lock', None))
          | (f3, Some b3) =>
              if N.eqb (b_parent b1) (b_hash b2) && N.eqb (b_view b1) (succ64 (b_view b2))
                 && N.eqb (b_parent b2) (b_hash b3) && N.eqb (b_view b2) (succ64 (b_view b3))
              then (f3, (lock', Some b3)) else (f3, (lock', None))
          end
      end
  end.

Definition fast_vote_io (net f : store) (v : view) (p : proposal) : store * bool :=
  let blk := p_block p in
  let fuel := S (length f + length net) in
  match p_agg p with
  | Some a =>
      if N.ltb (succ64 (agg_view a)) (b_view blk) then (f, false)
      else match fetch net f (qc_hash (b_qc blk)) with
           | (f1, Some hb) => extends_io fuel net f1 blk hb
           | (f1, None) => (f1, false)
           end
  | None => (f, N.leb v (b_view blk) && N.eqb (b_view blk) (succ64 (qc_view (b_qc blk))))
  end.

Definition fast_commit_io (net f : store) (blk : block) : store * option block :=
  match qc_ref_io net f (b_qc blk) with
  | (f1, None) => (f1, None)
  | (f1, Some par) =>
      match qc_ref_io net f1 (b_qc par) with
      | (f2, None) => (f2, None)
      | (f2, Some gp) =>
          if N.eqb (b_parent blk) (b_hash par) && N.eqb (b_view blk) (succ64 (b_view par))
             && N.eqb (b_parent par) (b_hash gp) && N.eqb (b_view par) (succ64 (b_view gp))
          then (f2, Some gp) else (f2, None)
      end
  end.

Definition simple_vote_io (net f : store) (lock : block) (v : view) (p : proposal) : store * bool :=
  let blk := p_block p in
  if N.ltb (b_view blk) v then (f, false)
  else match fetch net f (qc_hash (b_qc blk)) with
       | (f1, None) => (f1, false)
       | (f1, Some par) =>
           match lock_target_io net f1 par with
           | (f2, false) => (f2, false)
           | (f2, true) => (f2, negb (N.ltb (b_view par) (b_view lock)))
           end
       end.

Definition simple_commit_io (net f : store) (lock blk : block) : store * (block * option block) :=
  match fetch net f (qc_hash (b_qc blk)) with
  | (f1, None) => (f1, (lock, None))
  | (f1, Some p) =>
      match fetch net f1 (qc_hash (b_qc p)) with
      | (f2, None) => (f2, (lock, None))
      | (f2, Some gp) =>
          let lock' := if N.ltb (b_view lock) (b_view gp) then gp else lock in
          match fetch net f2 (qc_hash (b_qc gp)) with
          | (f3, None) => (f3, (lock', None))
          | (f3, Some ggp) =>
              if N.eqb (add2_64 (b_view ggp)) (b_view p)
                 && (N.eqb (b_parent p) (b_hash gp) && N.eqb (b_view p) (succ64 (b_view gp))
                     && N.eqb (b_parent gp) (b_hash ggp) && N.eqb (b_view gp) (succ64 (b_view ggp)))
              then (f3, (lock', Some ggp)) else (f3, (lock', None))
          end
      end
  end.

Definition vote_rule_io (rs : ruleset) (net f : store) (lock : block) (v : view) (p : proposal)
  : store * bool :=
  match rs with
  | Chained => chained_vote_io net f lock v p
  | Fast => fast_vote_io net f v p
  | Simple => simple_vote_io net f lock v p
  end.

Definition commit_rule_io (rs : ruleset) (net f : store) (lock blk : block)
  : store * (block * option block) :=
  match rs with
  | Chained => chained_commit_io net f lock blk
  | Fast => let '(f', c) := fast_commit_io net f blk in (f', (lock, c))
  | Simple => simple_commit_io net f lock blk
  end.

(* runs with a network: SNet = the set of blocks the peers can supply changes;
   SQuery = no effect (the harness reads which blocks are stored) *)
Inductive nstep :=
| NVote (v : view) (p : proposal)
| NCommit (b : block)
| NStore (b : block)
| NNet (net : store)
| NQuery.

Inductive nobs :=
| NOVote (r : bool)
| NOCommit (committed : option hash) (lock_after : hash)
| NONone
| NOStored (stored : store).

Definition nstate := (store * block * store)%type.   (* stored blocks, lock, net *)
Definition init_nstate : nstate := ([genesis], genesis, []).

Definition do_nstep (rs : ruleset) (st : nstate) (s : nstep) : nstate * nobs :=
  let '(f, lock, net) := st in
  match s with
  | NVote v p =>
      let '(f', r) := vote_rule_io rs net f lock v p in ((f', lock, net), NOVote r)
  | NCommit b =>
      let '(f', (lock', c)) := commit_rule_io rs net (store_block f b) lock b in
      ((f', lock', net), NOCommit (option_map b_hash c) (b_hash lock'))
  | NStore b => ((store_block f b, lock, net), NONone)
  | NNet net' => ((f, lock, net'), NONone)
  | NQuery => (st, NOStored f)
  end.

Fixpoint nrun (rs : ruleset) (st : nstate) (ss : list nstep) : nstate * list nobs :=
  match ss with
  | [] => (st, [])
  | s :: r =>
      let '(st', o) := do_nstep rs st s in
      let '(st'', os) := nrun rs st' r in
      (st'', o :: os)
  end.

(* C04 — the PUBLISHED rules, written in the papers' vocabulary over a block forest,
   independently of the control flow of the Go code (no early returns, no fuel, no store
   queries other than "the block is known").

   Sources
   * chained HotStuff: Yin, Malkhi, Reiter, Gueta, Abraham, "HotStuff: BFT consensus in the lens
     of blockchain" (PODC'19), Algorithm 4 (safeNode) and Algorithm 5 (update / onCommit).
   * Fast-HotStuff: Jalalzai, Niu, Feng, Gai, "Fast-HotStuff: a fast and resilient HotStuff
     protocol" (arXiv 2010.11454), pipelined algorithm: SafeProposal and the direct two-chain.
   * simplified HotStuff: Jehl, "Formal verification of HotStuff" (FORTE'21): vote in increasing
     rounds, vote only on a parent not older than the lock, lock the grandparent, commit b when
     a grandchild b'' with b''.view = b.view + 2 is certified.

   Only the data types [block], [qc], [proposal], [store], [get] and [zero_hash] are shared
   with the model. *)
From HS Require Import Base.Prelude Rules.RulesModel.
Open Scope N_scope.

Section Spec.
Variable f : store.   (* the blocks available to the replica: stored, or obtainable from a peer *)

(* [b] is known and is the block certified by the certificate carried in [c]
   (c.justify.node = b).  The placeholder certificate of the genesis block (all-zero hash)
   certifies nothing. *)
Definition certified_by (c b : block) : Prop :=
  qc_hash (b_qc c) <> zero_hash /\ get f (qc_hash (b_qc c)) = Some b.

(* c is a direct child of b (c.parent = b) *)
Definition direct (c b : block) : Prop := b_parent c = b_hash b.
(* c was proposed in the view right after b's *)
Definition consecutive (c b : block) : Prop := b_view c = b_view b + 1.

(* [dc_chain k top tail]: from [top] down to [tail] there are k links, each one certified
   (the upper block carries the certificate of the lower), direct and view-consecutive. *)
Inductive dc_chain : nat -> block -> block -> Prop :=
| dc_nil : forall b, dc_chain 0 b b
| dc_cons : forall k top mid tail,
    certified_by top mid -> direct top mid -> consecutive top mid ->
    dc_chain k mid tail -> dc_chain (S k) top tail.

(* [qc_chain k top tail]: k certificate links, nothing asked about parents or views *)
Inductive qc_chain : nat -> block -> block -> Prop :=
| qcc_nil : forall b, qc_chain 0 b b
| qcc_cons : forall k top mid tail,
    certified_by top mid -> qc_chain k mid tail -> qc_chain (S k) top tail.

(* b extends t: t is b itself or an ancestor of b along parent links through known blocks *)
Inductive extends_spec : block -> hash -> Prop :=
| ext_refl : forall b, extends_spec b (b_hash b)
| ext_step : forall b p t, get f (b_parent b) = Some p -> extends_spec p t -> extends_spec b t.

(* ------------------------------------------------------------------ chained HotStuff *)
(* b* = new block, b'' <- b*.justify, b' <- b''.justify, b <- b'.justify.
   Lock: b' (the head of the two-chain b' <- b'') when it is higher than the current lock.
   Decide: b when b <- b' <- b'' is a direct three-chain (our blocks have no dummy nodes, so
   "direct" includes "views are consecutive"). *)
Definition chained_lock_candidate (bstar b' : block) : Prop := qc_chain 2 bstar b'.

Definition chained_lock_spec (lock bstar lock' : block) : Prop :=
  (exists b', chained_lock_candidate bstar b' /\ b_view lock < b_view b' /\ lock' = b')
  \/ ((forall b', chained_lock_candidate bstar b' -> b_view b' <= b_view lock) /\ lock' = lock).

Definition chained_commit_spec (bstar b : block) : Prop :=
  exists b'', certified_by bstar b'' /\ dc_chain 2 b'' b.

(* Missing blocks.  The published rules are stated for replicas that have the blocks they
   refer to.  Processing a block that certifies [qb] moves the lock to the block certified by
   [qb]'s own certificate; when that block is not available the lock cannot be moved, and the
   stated behaviour is "no vote" (a vote without the lock update is what the rules forbid).
   [qb] carrying the placeholder certificate (zero hash: genesis) has no lock target. *)
Definition lock_target_available (qb : block) : Prop :=
  qc_hash (b_qc qb) <> zero_hash -> exists t, get f (qc_hash (b_qc qb)) = Some t.

(* safeNode: liveness rule (the certified block is higher than the lock) or safety rule
   (the proposal extends the lock) *)
Definition chained_vote_spec (lock : block) (p : proposal) : Prop :=
  (forall qb, get f (qc_hash (b_qc (p_block p))) = Some qb -> lock_target_available qb) /\
  ((exists qb, get f (qc_hash (b_qc (p_block p))) = Some qb /\ b_view lock < b_view qb)
   \/ extends_spec (p_block p) (b_hash lock)).

(* ------------------------------------------------------------------ Fast-HotStuff *)
(* SafeProposal: with a plain QC, B.view >= curView and B.view = qc.view + 1; with an AggQC,
   B extends the block of the highest QC in the AggQC.  In the paper the AggQC is the one the
   leader of B.view collected from the NEWVIEW messages of the preceding view; an AggQC object
   carries its view explicitly here, so "the AggQC belongs to this proposal" is the condition
   that it is from the preceding view or later. *)
Definition fast_vote_spec (cur : view) (p : proposal) : Prop :=
  match p_agg p with
  | None => cur <= b_view (p_block p) /\ b_view (p_block p) = qc_view (b_qc (p_block p)) + 1
  | Some a =>
      b_view (p_block p) <= agg_view a + 1 /\
      exists hb, get f (qc_hash (agg_high a)) = Some hb /\ extends_spec (p_block p) (b_hash hb)
  end.

(* commit B'' when B'' <- B' <- B* is a direct two-chain (parents and consecutive views) *)
Definition fast_commit_spec (bstar b : block) : Prop := dc_chain 2 bstar b.

(* ------------------------------------------------------------------ simplified HotStuff *)
(* rule 1: increasing rounds; rule 2: the (certified) parent is not older than the lock *)
Definition simple_vote_spec (lock : block) (cur : view) (p : proposal) : Prop :=
  cur <= b_view (p_block p) /\
  exists par, get f (qc_hash (b_qc (p_block p))) = Some par /\
              lock_target_available par /\ b_view lock <= b_view par.

(* the lock is the grandparent of the new block, if higher *)
Definition simple_lock_candidate (bnew gp : block) : Prop :=
  exists p, get f (qc_hash (b_qc bnew)) = Some p /\ get f (qc_hash (b_qc p)) = Some gp.

Definition simple_lock_spec (lock bnew lock' : block) : Prop :=
  (exists gp, simple_lock_candidate bnew gp /\ b_view lock < b_view gp /\ lock' = gp)
  \/ ((forall gp, simple_lock_candidate bnew gp -> b_view gp <= b_view lock) /\ lock' = lock).

(* In the paper a block's only link is to its certified parent and rounds increase along
   it; b is committed when it has a certified grandchild b'' with b''.view = b.view + 2.
   Over forests where the parent pointer and the certificate may differ and rounds are
   arbitrary, that reads: b <- b' <- b'' are linked by parent AND certificate, rounds increase
   along the links, and the gap is exactly 2. *)
Definition simple_link (c b : block) : Prop :=
  get f (qc_hash (b_qc c)) = Some b /\ direct c b /\ b_view b < b_view c.

Definition simple_commit_spec (bnew b : block) : Prop :=
  exists b'' b', get f (qc_hash (b_qc bnew)) = Some b'' /\
                 simple_link b'' b' /\ simple_link b' b /\ b_view b'' = b_view b + 2.

(* what the unpatched Go rule decides: certificate links only, only the total gap *)
Definition simple_commit_spec_qc_only (bnew b : block) : Prop :=
  exists b'' b', get f (qc_hash (b_qc bnew)) = Some b'' /\
                 get f (qc_hash (b_qc b'')) = Some b' /\ get f (qc_hash (b_qc b')) = Some b /\
                 b_view b'' = b_view b + 2.

End Spec.

(* a decision "commit c / commit nothing" agrees with a commit relation R *)
Definition commit_agrees (R : block -> Prop) (c : option block) : Prop :=
  match c with
  | Some b => R b
  | None => forall b, ~ R b
  end.

(* ---------------------------------------------------------------- side conditions *)
(* no stored block has the all-zero hash (SHA-256 idealisation); used only to phrase the
   simple-HotStuff chain with [certified_by], whose Go code has no zero-hash test *)
Definition no_zero (f : store) : Prop := get f zero_hash = None.

(* the hash determines the block (SHA-256 idealisation) among the blocks at hand *)
Definition content_addressed (bs : list block) : Prop :=
  forall b1 b2, In b1 bs -> In b2 bs -> b_hash b1 = b_hash b2 -> b1 = b2.

(* views stay clear of the uint64 wrap-around *)
Definition views_small (f : store) (blk : block) : Prop :=
  (forall b, In b f -> b_view b < two64 - 2) /\ b_view blk < two64 - 2
  /\ qc_view (b_qc blk) < two64 - 2.
Definition agg_small (p : proposal) : Prop :=
  forall a, p_agg p = Some a -> agg_view a < two64 - 2.
(* the voter's check: the block's own certificate is the AggQC's highest QC *)
Definition agg_matches (p : proposal) : Prop :=
  forall a, p_agg p = Some a -> qc_hash (agg_high a) = qc_hash (b_qc (p_block p)).

(* views increase along parent links, as in every block tree of the papers:
   needed only where a rule asks whether one block extends another *)
Definition parent_views_increase (f : store) (blk : block) : Prop :=
  forall b, In b (blk :: f) -> forall p, get f (b_parent b) = Some p -> b_view p < b_view b.

(* the chain each ruleset must have seen before it may commit [b] on receiving [bnew] *)
Definition required_chain (rs : ruleset) (f : store) (bnew b : block) : Prop :=
  match rs with
  | Chained => exists b'', certified_by f bnew b'' /\ dc_chain f 2 b'' b   (* three-chain *)
  | Fast => dc_chain f 2 bnew b                                            (* two-chain *)
  | Simple => exists b'', certified_by f bnew b'' /\ dc_chain f 2 b'' b
  end.

(* C04 — the model of the Go rulesets (RulesModel.v) decides exactly what the published rules
   (RulesSpec.v) decide. *)
From Coq Require Import Permutation.
From HS Require Import Base.Prelude Rules.RulesModel Rules.RulesSpec.
Open Scope N_scope.

(* ------------------------------------------------------------------ store queries *)

Lemma get_some : forall f h b, get f h = Some b -> In b f /\ b_hash b = h.
Proof.
  unfold get. intros f h b H. apply find_some in H. destruct H as [Hin He].
  apply N.eqb_eq in He. auto.
Qed.

Lemma qc_ref_some : forall f q b,
  qc_ref f q = Some b <-> (qc_hash q <> zero_hash /\ get f (qc_hash q) = Some b).
Proof.
  unfold qc_ref. intros f q b. destruct (N.eqb_spec (qc_hash q) zero_hash) as [E | E].
  - split; [discriminate | intros [H _]; contradiction].
  - split; [auto | intros [_ H]; exact H].
Qed.

Lemma qc_ref_certified : forall f c b, qc_ref f (b_qc c) = Some b <-> certified_by f c b.
Proof. intros. unfold certified_by. apply qc_ref_some. Qed.

Lemma certified_fun : forall f c b1 b2, certified_by f c b1 -> certified_by f c b2 -> b1 = b2.
Proof. unfold certified_by. intros f c b1 b2 [_ H1] [_ H2]. congruence. Qed.

Lemma qc_ref_none_not_certified : forall f c, qc_ref f (b_qc c) = None -> forall b, ~ certified_by f c b.
Proof. intros f c H b Hc. apply qc_ref_certified in Hc. congruence. Qed.

Lemma succ64_small : forall v, v < two64 - 1 -> succ64 v = v + 1.
Proof. intros v H. unfold succ64. apply N.mod_small. unfold two64 in *. lia. Qed.

Lemma add2_64_small : forall v, v < two64 - 2 -> add2_64 v = v + 2.
Proof. intros v H. unfold add2_64. apply N.mod_small. unfold two64 in *. lia. Qed.

(* ------------------------------------------------------------------ chains *)

Lemma qc_chain2_iff : forall f a c,
  qc_chain f 2 a c <-> exists m, certified_by f a m /\ certified_by f m c.
Proof.
  intros f a c. split.
  - intros H. inversion H as [| k top mid tail H1 H2]; subst.
    inversion H2 as [| k' top' mid' tail' H3 H4]; subst.
    inversion H4; subst. eauto.
  - intros [m [H1 H2]]. econstructor; [exact H1 |]. econstructor; [exact H2 |]. constructor.
Qed.

Lemma dc_chain2_iff : forall f a c,
  dc_chain f 2 a c <->
  exists m, certified_by f a m /\ direct a m /\ consecutive a m /\
            certified_by f m c /\ direct m c /\ consecutive m c.
Proof.
  intros f a c. split.
  - intros H. inversion H as [| k top mid tail H1 H2 H3 H4]; subst.
    inversion H4 as [| k' top' mid' tail' H5 H6 H7 H8]; subst.
    inversion H8; subst. exists mid. auto 10.
  - intros [m [H1 [H2 [H3 [H4 [H5 H6]]]]]].
    econstructor; eauto. econstructor; eauto. constructor.
Qed.

Lemma dc_chain_fun : forall f k a c1, dc_chain f k a c1 -> forall c2, dc_chain f k a c2 -> c1 = c2.
Proof.
  induction 1 as [b | k top mid tail Hc Hd Hv Hch IH]; intros c2 H2.
  - inversion H2; subst; reflexivity.
  - inversion H2 as [| k' top' mid' tail' Hc' Hd' Hv' Hch']; subst.
    assert (mid = mid') by (eapply certified_fun; eauto). subst. apply IH. exact Hch'.
Qed.

Lemma qc_chain_fun : forall f k a c1, qc_chain f k a c1 -> forall c2, qc_chain f k a c2 -> c1 = c2.
Proof.
  induction 1 as [b | k top mid tail Hc Hch IH]; intros c2 H2.
  - inversion H2; subst; reflexivity.
  - inversion H2 as [| k' top' mid' tail' Hc' Hch']; subst.
    assert (mid = mid') by (eapply certified_fun; eauto). subst. apply IH. exact Hch'.
Qed.

Lemma dc_chain_is_qc_chain : forall f k a c, dc_chain f k a c -> qc_chain f k a c.
Proof. induction 1; econstructor; eauto. Qed.

(* a direct consecutive chain spans exactly k views *)
Lemma dc_chain_views : forall f k a c, dc_chain f k a c -> b_view a = b_view c + N.of_nat k.
Proof.
  induction 1 as [b | k top mid tail Hc Hd Hv Hch IH].
  - simpl. lia.
  - unfold consecutive in Hv. rewrite Nat2N.inj_succ. lia.
Qed.

(* ------------------------------------------------------------------ extends *)

(* whenever the walk says yes, the target is an ancestor: no side condition *)
Lemma extends_fuel_sound : forall fuel f cur t,
  extends_fuel fuel f cur t = true -> extends_spec f cur (b_hash t).
Proof.
  induction fuel as [| k IH]; intros f cur t H; simpl in H.
  - destruct (N.ltb (b_view t) (b_view cur)); [discriminate |].
    apply N.eqb_eq in H. rewrite <- H. constructor.
  - destruct (N.ltb (b_view t) (b_view cur)).
    + destruct (get f (b_parent cur)) as [p |] eqn:G; [| discriminate].
      eapply ext_step; [exact G | apply IH; exact H].
    + apply N.eqb_eq in H. rewrite <- H. constructor.
Qed.

Lemma extends_sound : forall f cur t, extends f cur t = true -> extends_spec f cur (b_hash t).
Proof. intros. eapply extends_fuel_sound; eauto. Qed.

Definition below (f : store) (b : block) : nat :=
  length (filter (fun x => N.ltb (b_view x) (b_view b)) f).

Lemma filter_length_le : forall (A : Type) (P : A -> bool) l, (length (filter P l) <= length l)%nat.
Proof. induction l as [| x r IH]; simpl; [lia |]. destruct (P x); simpl; lia. Qed.

Lemma filter_length_lt : forall (A : Type) (P Q : A -> bool) l,
  (forall x, P x = true -> Q x = true) ->
  (exists x, In x l /\ Q x = true /\ P x = false) ->
  (length (filter P l) < length (filter Q l))%nat.
Proof.
  intros A P Q l Himp. induction l as [| y r IH]; intros [x [Hin [Hq Hp]]].
  - destruct Hin.
  - assert (Hle : (length (filter P r) <= length (filter Q r))%nat).
    { clear -Himp. induction r as [| z r IH]; simpl; [lia |].
      destruct (P z) eqn:Pz.
      - rewrite (Himp z Pz). simpl. lia.
      - destruct (Q z); simpl; lia. }
    simpl. destruct Hin as [-> | Hin].
    + rewrite Hp, Hq. simpl. lia.
    + assert (Hlt : (length (filter P r) < length (filter Q r))%nat) by (apply IH; eauto).
      destruct (P y) eqn:Py.
      * rewrite (Himp y Py). simpl. lia.
      * destruct (Q y); simpl; lia.
Qed.

Lemma below_parent : forall f p b, In p f -> b_view p < b_view b -> (below f p < below f b)%nat.
Proof.
  intros f p b Hin Hlt. unfold below. apply filter_length_lt.
  - intros x Hx. apply N.ltb_lt in Hx. apply N.ltb_lt. lia.
  - exists p. split; [exact Hin |]. split; [apply N.ltb_lt; exact Hlt | apply N.ltb_ge; lia].
Qed.

Section ExtendsComplete.
  Variable f : store.
  Variable blk t : block.
  Hypothesis CA : content_addressed (t :: blk :: f).
  Hypothesis MONO : parent_views_increase f blk.

  Lemma ancestor_view_le : forall cur th, extends_spec f cur th ->
    In cur (blk :: f) -> th = b_hash t -> b_view t <= b_view cur.
  Proof.
    induction 1 as [b | b p th G Hext IH]; intros Hin Eq.
    - assert (b = t) by (apply CA; [right; exact Hin | left; reflexivity | exact Eq]).
      subst. lia.
    - destruct (get_some _ _ _ G) as [Hp _].
      assert (b_view p < b_view b) by (eapply MONO; eauto).
      assert (b_view t <= b_view p) by (apply IH; [right; exact Hp | exact Eq]). lia.
  Qed.

  Lemma extends_fuel_complete : forall cur th, extends_spec f cur th ->
    In cur (blk :: f) -> th = b_hash t ->
    forall fuel, (below f cur < fuel)%nat -> extends_fuel fuel f cur t = true.
  Proof.
    induction 1 as [b | b p th G Hext IH]; intros Hin Eq fuel Hfuel.
    - assert (b = t) by (apply CA; [right; exact Hin | left; reflexivity | exact Eq]). subst b.
      destruct fuel; simpl; rewrite N.ltb_irrefl; apply N.eqb_refl.
    - destruct (get_some _ _ _ G) as [Hp _].
      assert (Hlt : b_view p < b_view b) by (eapply MONO; eauto).
      assert (Hle : b_view t <= b_view p)
        by (eapply ancestor_view_le; [exact Hext | right; exact Hp | exact Eq]).
      destruct fuel as [| k]; [lia |]. simpl.
      assert (Hb : N.ltb (b_view t) (b_view b) = true) by (apply N.ltb_lt; lia).
      rewrite Hb, G. apply IH; [right; exact Hp | exact Eq |].
      assert ((below f p < below f b)%nat) by (apply below_parent; assumption). lia.
  Qed.

  Lemma extends_complete : extends_spec f blk (b_hash t) -> extends f blk t = true.
  Proof.
    intros H. unfold extends.
    eapply extends_fuel_complete; [exact H | left; reflexivity | reflexivity |].
    unfold below. pose proof (filter_length_le _ (fun x => N.ltb (b_view x) (b_view blk)) f). lia.
  Qed.
End ExtendsComplete.

Lemma extends_iff : forall f blk t,
  content_addressed (t :: blk :: f) -> parent_views_increase f blk ->
  (extends f blk t = true <-> extends_spec f blk (b_hash t)).
Proof.
  intros f blk t CA MONO. split; [apply extends_sound | apply extends_complete; assumption].
Qed.

(* ------------------------------------------------------------------ chained HotStuff *)

Lemma lock_target_ok_iff : forall f qb, lock_target_ok f qb = true <-> lock_target_available f qb.
Proof.
  intros f qb. unfold lock_target_ok, lock_target_available.
  destruct (N.eqb_spec (qc_hash (b_qc qb)) zero_hash) as [E | E].
  - split; [intros _ H; contradiction | reflexivity].
  - destruct (get f (qc_hash (b_qc qb))) as [t |].
    + split; [intros _ _; eauto | reflexivity].
    + split; [discriminate | intros H; destruct (H E) as [t Ht]; discriminate].
Qed.

Lemma chained_vote_sound : forall f lock v p,
  chained_vote f lock v p = true -> chained_vote_spec f lock p.
Proof.
  unfold chained_vote, chained_vote_spec. intros f lock v p H.
  destruct (get f (qc_hash (b_qc (p_block p)))) as [qb |] eqn:G.
  - destruct (lock_target_ok f qb) eqn:LT; simpl in H; [| discriminate].
    split; [intros qb' E; inversion E; subst; apply lock_target_ok_iff; exact LT |].
    destruct (N.ltb_spec (b_view lock) (b_view qb)) as [L | L].
    + left. eauto.
    + right. apply extends_sound. exact H.
  - split; [intros qb' E; discriminate |]. right. apply extends_sound. exact H.
Qed.

Lemma chained_vote_correct : forall f lock v p,
  content_addressed (lock :: p_block p :: f) -> parent_views_increase f (p_block p) ->
  (chained_vote f lock v p = true <-> chained_vote_spec f lock p).
Proof.
  intros f lock v p CA MONO. split; [apply chained_vote_sound |].
  unfold chained_vote, chained_vote_spec. intros [LT D].
  destruct (get f (qc_hash (b_qc (p_block p)))) as [qb |] eqn:G.
  - assert (LT' : lock_target_ok f qb = true) by (apply lock_target_ok_iff; apply LT; reflexivity).
    rewrite LT'. simpl. destruct D as [[qb' [G' L]] | E].
    + inversion G'; subst. apply N.ltb_lt in L. rewrite L. reflexivity.
    + apply (extends_complete f _ lock CA MONO) in E.
      destruct (N.ltb (b_view lock) (b_view qb)); [reflexivity | exact E].
  - destruct D as [[qb' [G' _]] | E]; [discriminate |].
    apply (extends_complete f _ lock CA MONO). exact E.
Qed.

Lemma chained_commit_correct : forall f lock blk lock' c,
  views_small f blk ->
  chained_commit f lock blk = (lock', c) ->
  chained_lock_spec f lock blk lock' /\ commit_agrees (chained_commit_spec f blk) c.
Proof.
  intros f lock blk lock' c [VS _] H. unfold chained_commit in H.
  destruct (qc_ref f (b_qc blk)) as [b1 |] eqn:R1.
  2:{ inversion H; subst. split.
      - right. split; [| reflexivity]. intros b' Hc. apply qc_chain2_iff in Hc.
        destruct Hc as [m [Hm _]]. exfalso. eapply qc_ref_none_not_certified; eauto.
      - simpl. intros b [b'' [Hc _]]. eapply qc_ref_none_not_certified; eauto. }
  apply qc_ref_certified in R1.
  destruct (qc_ref f (b_qc b1)) as [b2 |] eqn:R2.
  2:{ inversion H; subst. split.
      - right. split; [| reflexivity]. intros b' Hc. apply qc_chain2_iff in Hc.
        destruct Hc as [m [Hm Hm2]]. assert (m = b1) by (eapply certified_fun; eauto). subst.
        exfalso. eapply qc_ref_none_not_certified; eauto.
      - simpl. intros b [b'' [Hc Hd]]. assert (b'' = b1) by (eapply certified_fun; eauto). subst.
        apply dc_chain2_iff in Hd. destruct Hd as [m [Hm _]].
        eapply qc_ref_none_not_certified; eauto. }
  apply qc_ref_certified in R2.
  assert (Hlock : chained_lock_spec f lock blk
                    (if N.ltb (b_view lock) (b_view b2) then b2 else lock)).
  { destruct (N.ltb_spec (b_view lock) (b_view b2)) as [L | L].
    - left. exists b2. split; [apply qc_chain2_iff; eauto | auto].
    - right. split; [| reflexivity]. intros b' Hc. apply qc_chain2_iff in Hc.
      destruct Hc as [m [Hm Hm2]]. assert (m = b1) by (eapply certified_fun; eauto). subst.
      assert (b' = b2) by (eapply certified_fun; eauto). subst. exact L. }
  destruct (qc_ref f (b_qc b2)) as [b3 |] eqn:R3.
  2:{ inversion H; subst. split; [exact Hlock |].
      simpl. intros b [b'' [Hc Hd]]. assert (b'' = b1) by (eapply certified_fun; eauto). subst.
      apply dc_chain2_iff in Hd. destruct Hd as [m [Hm [_ [_ [Hm2 _]]]]].
      assert (m = b2) by (eapply certified_fun; eauto). subst.
      eapply qc_ref_none_not_certified; eauto. }
  apply qc_ref_certified in R3.
  assert (In2 : In b2 f) by (destruct R2 as [_ G]; apply get_some in G; tauto).
  assert (In3 : In b3 f) by (destruct R3 as [_ G]; apply get_some in G; tauto).
  pose proof (VS _ In2) as V2. pose proof (VS _ In3) as V3.
  rewrite !succ64_small in H by lia.
  destruct (N.eqb_spec (b_parent b1) (b_hash b2)) as [E1 | E1];
  destruct (N.eqb_spec (b_view b1) (b_view b2 + 1)) as [E2 | E2];
  destruct (N.eqb_spec (b_parent b2) (b_hash b3)) as [E3 | E3];
  destruct (N.eqb_spec (b_view b2) (b_view b3 + 1)) as [E4 | E4];
  simpl in H; inversion H; subst; (split; [exact Hlock |]); simpl.
  1:{ exists b1. split; [exact R1 |]. apply dc_chain2_iff. exists b2. unfold direct, consecutive. auto 10. }
  all: intros b [b'' [Hc Hd]]; assert (b'' = b1) by (eapply certified_fun; eauto); subst;
       apply dc_chain2_iff in Hd; destruct Hd as [m [Hm [D1 [C1 [Hm2 [D2 C2]]]]]];
       assert (m = b2) by (eapply certified_fun; eauto); subst;
       assert (b = b3) by (eapply certified_fun; eauto); subst;
       unfold direct, consecutive in *; congruence.
Qed.

(* ------------------------------------------------------------------ Fast-HotStuff *)

Lemma fast_vote_sound : forall f v p,
  agg_matches p -> agg_small p -> views_small f (p_block p) ->
  fast_vote f v p = true -> fast_vote_spec f v p.
Proof.
  unfold fast_vote, fast_vote_spec, agg_matches, agg_small. intros f v p Hagg AS [_ [_ VQ]] H.
  destruct (p_agg p) as [a |].
  - rewrite (Hagg a eq_refl). specialize (AS a eq_refl). rewrite succ64_small in H by lia.
    destruct (N.ltb_spec (agg_view a + 1) (b_view (p_block p))) as [L | L]; [discriminate |].
    split; [exact L |].
    destruct (get f (qc_hash (b_qc (p_block p)))) as [hb |] eqn:G; [| discriminate].
    exists hb. split; [reflexivity | apply extends_sound; exact H].
  - rewrite succ64_small in H by lia. apply andb_true_iff in H. destruct H as [H1 H2].
    apply N.leb_le in H1. apply N.eqb_eq in H2. auto.
Qed.

Lemma fast_vote_correct : forall f v p,
  agg_matches p -> agg_small p -> views_small f (p_block p) ->
  content_addressed (p_block p :: f) -> parent_views_increase f (p_block p) ->
  (fast_vote f v p = true <-> fast_vote_spec f v p).
Proof.
  intros f v p Hagg AS VS CA MONO. split; [apply fast_vote_sound; assumption |].
  unfold fast_vote, fast_vote_spec. destruct VS as [_ [_ VQ]]. unfold agg_matches, agg_small in *.
  destruct (p_agg p) as [a |].
  - rewrite (Hagg a eq_refl). specialize (AS a eq_refl). rewrite succ64_small by lia.
    intros [L [hb [G E]]].
    destruct (N.ltb_spec (agg_view a + 1) (b_view (p_block p))) as [L' | L']; [lia |].
    rewrite G. apply extends_complete; [| exact MONO | exact E].
    intros b1 b2 H1 H2. apply CA.
    + destruct H1 as [<- | H1]; [right; apply get_some in G; tauto | exact H1].
    + destruct H2 as [<- | H2]; [right; apply get_some in G; tauto | exact H2].
  - rewrite succ64_small by lia. intros [H1 H2].
    apply andb_true_iff. split; [apply N.leb_le; exact H1 | apply N.eqb_eq; exact H2].
Qed.

Lemma fast_commit_correct : forall f blk c,
  views_small f blk -> fast_commit f blk = c -> commit_agrees (fast_commit_spec f blk) c.
Proof.
  intros f blk c [VS _] H. unfold fast_commit in H. unfold fast_commit_spec.
  destruct (qc_ref f (b_qc blk)) as [par |] eqn:R1.
  2:{ subst. simpl. intros b Hd. apply dc_chain2_iff in Hd. destruct Hd as [m [Hm _]].
      eapply qc_ref_none_not_certified; eauto. }
  apply qc_ref_certified in R1.
  destruct (qc_ref f (b_qc par)) as [gp |] eqn:R2.
  2:{ subst. simpl. intros b Hd. apply dc_chain2_iff in Hd.
      destruct Hd as [m [Hm [_ [_ [Hm2 _]]]]]. assert (m = par) by (eapply certified_fun; eauto).
      subst. eapply qc_ref_none_not_certified; eauto. }
  apply qc_ref_certified in R2.
  assert (In1 : In par f) by (destruct R1 as [_ G]; apply get_some in G; tauto).
  assert (In2 : In gp f) by (destruct R2 as [_ G]; apply get_some in G; tauto).
  pose proof (VS _ In1) as V1. pose proof (VS _ In2) as V2.
  rewrite !succ64_small in H by lia.
  destruct (N.eqb_spec (b_parent blk) (b_hash par)) as [E1 | E1];
  destruct (N.eqb_spec (b_view blk) (b_view par + 1)) as [E2 | E2];
  destruct (N.eqb_spec (b_parent par) (b_hash gp)) as [E3 | E3];
  destruct (N.eqb_spec (b_view par) (b_view gp + 1)) as [E4 | E4];
  simpl in H; subst c; simpl.
  1:{ apply dc_chain2_iff. exists par. unfold direct, consecutive. auto 10. }
  all: intros b Hd; apply dc_chain2_iff in Hd; destruct Hd as [m [Hm [D1 [C1 [Hm2 [D2 C2]]]]]];
       assert (m = par) by (eapply certified_fun; eauto); subst;
       assert (b = gp) by (eapply certified_fun; eauto); subst;
       unfold direct, consecutive in *; congruence.
Qed.

(* ------------------------------------------------------------------ simple HotStuff *)

Lemma simple_vote_correct : forall f lock v p,
  simple_vote f lock v p = true <-> simple_vote_spec f lock v p.
Proof.
  intros f lock v p. unfold simple_vote, simple_vote_spec.
  destruct (N.ltb_spec (b_view (p_block p)) v) as [L | L].
  - split; [discriminate | intros [H _]; lia].
  - destruct (get f (qc_hash (b_qc (p_block p)))) as [par |] eqn:G.
    + destruct (lock_target_ok f par) eqn:LT; simpl.
      * apply lock_target_ok_iff in LT.
        destruct (N.ltb_spec (b_view par) (b_view lock)) as [L2 | L2]; simpl.
        -- split; [discriminate |]. intros [_ [par' [E [_ Hle]]]]. inversion E; subst. lia.
        -- split; [| reflexivity]. intros _. split; [exact L | eauto].
      * split; [discriminate |]. intros [_ [par' [E [LT' _]]]]. inversion E; subst.
        apply lock_target_ok_iff in LT'. congruence.
    + split; [discriminate |]. intros [_ [par' [E _]]]. discriminate.
Qed.

Lemma simple_commit_correct : forall f lock blk lock' c,
  views_small f blk ->
  simple_commit f lock blk = (lock', c) ->
  simple_lock_spec f lock blk lock' /\ commit_agrees (simple_commit_spec f blk) c.
Proof.
  intros f lock blk lock' c [VS _] H. unfold simple_commit, simple_commit_gen in H.
  destruct (get f (qc_hash (b_qc blk))) as [p |] eqn:G1.
  2:{ inversion H; subst. split.
      - right. split; [| reflexivity]. intros gp [p [E _]]. congruence.
      - simpl. intros b [b'' [b' [E _]]]. congruence. }
  destruct (get f (qc_hash (b_qc p))) as [gp |] eqn:G2.
  2:{ inversion H; subst. split.
      - right. split; [| reflexivity]. intros gp [p' [E1 E2]]. congruence.
      - simpl. intros b [b'' [b' [E [[E2 _] _]]]]. congruence. }
  assert (Hlock : simple_lock_spec f lock blk (if N.ltb (b_view lock) (b_view gp) then gp else lock)).
  { destruct (N.ltb_spec (b_view lock) (b_view gp)) as [L | L].
    - left. exists gp. split; [exists p; auto | auto].
    - right. split; [| reflexivity]. intros gp' [p' [E1 E2]].
      assert (p' = p) by congruence. subst. assert (gp' = gp) by congruence. subst. exact L. }
  destruct (get f (qc_hash (b_qc gp))) as [ggp |] eqn:G3.
  2:{ inversion H; subst. split; [exact Hlock |].
      simpl. intros b [b'' [b' [E [[E2 _] [[E3 _] _]]]]].
      assert (b'' = p) by congruence. subst. assert (b' = gp) by congruence. subst. congruence. }
  assert (In1 : In p f) by (apply get_some in G1; tauto).
  assert (In2 : In gp f) by (apply get_some in G2; tauto).
  assert (In3 : In ggp f) by (apply get_some in G3; tauto).
  pose proof (VS _ In1) as V1. pose proof (VS _ In2) as V2. pose proof (VS _ In3) as V3.
  rewrite !succ64_small, add2_64_small in H by lia. simpl negb in H. rewrite orb_false_l in H.
  destruct (N.eqb_spec (b_view ggp + 2) (b_view p)) as [E0 | E0];
  destruct (N.eqb_spec (b_parent p) (b_hash gp)) as [E1 | E1];
  destruct (N.eqb_spec (b_view p) (b_view gp + 1)) as [E2 | E2];
  destruct (N.eqb_spec (b_parent gp) (b_hash ggp)) as [E3 | E3];
  destruct (N.eqb_spec (b_view gp) (b_view ggp + 1)) as [E4 | E4];
  simpl in H; inversion H; subst; (split; [exact Hlock |]); simpl.
  1:{ exists p, gp. unfold simple_link, direct. repeat split; auto; lia. }
  all: intros b [b'' [b' [E [[L1 [D1 W1]] [[L2 [D2 W2]] GAP]]]]];
       assert (b'' = p) by congruence; subst;
       assert (b' = gp) by congruence; subst;
       assert (b = ggp) by congruence; subst;
       unfold direct in *; try congruence; try lia.
Qed.

(* the paper's gap form and the chain form of the simple commit condition coincide *)
Lemma simple_commit_spec_iff_chain : forall f bnew b,
  simple_commit_spec f bnew b <->
  exists b'' b', get f (qc_hash (b_qc bnew)) = Some b'' /\
                 get f (qc_hash (b_qc b'')) = Some b' /\ direct b'' b' /\ consecutive b'' b' /\
                 get f (qc_hash (b_qc b')) = Some b /\ direct b' b /\ consecutive b' b.
Proof.
  intros f bnew b. unfold simple_commit_spec, simple_link, consecutive. split.
  - intros [b'' [b' [E [[L1 [D1 W1]] [[L2 [D2 W2]] GAP]]]]].
    exists b'', b'. repeat split; auto; lia.
  - intros [b'' [b' [E [L1 [D1 [C1 [L2 [D2 C2]]]]]]]].
    exists b'', b'. repeat split; auto; lia.
Qed.

(* the rule without the patch: certificate links and the total gap only *)
Lemma simple_commit_unpatched_char : forall f lock blk lock' c,
  views_small f blk ->
  simple_commit_unpatched f lock blk = (lock', c) ->
  commit_agrees (simple_commit_spec_qc_only f blk) c.
Proof.
  intros f lock blk lock' c [VS _] H. unfold simple_commit_unpatched, simple_commit_gen in H.
  unfold simple_commit_spec_qc_only.
  destruct (get f (qc_hash (b_qc blk))) as [p |] eqn:G1.
  2:{ inversion H; subst. simpl. intros b [b'' [b' [E _]]]. congruence. }
  destruct (get f (qc_hash (b_qc p))) as [gp |] eqn:G2.
  2:{ inversion H; subst. simpl. intros b [b'' [b' [E [E2 _]]]]. congruence. }
  destruct (get f (qc_hash (b_qc gp))) as [ggp |] eqn:G3.
  2:{ inversion H; subst. simpl. intros b [b'' [b' [E [E2 [E3 _]]]]].
      assert (b'' = p) by congruence. subst. assert (b' = gp) by congruence. subst. congruence. }
  assert (In3 : In ggp f) by (apply get_some in G3; tauto). pose proof (VS _ In3) as V3.
  rewrite add2_64_small in H by lia. simpl in H. rewrite andb_true_r in H.
  destruct (N.eqb_spec (b_view ggp + 2) (b_view p)) as [E0 | E0]; inversion H; subst; simpl.
  - exists p, gp. auto.
  - intros b [b'' [b' [E [E2 [E3 GAP]]]]].
    assert (b'' = p) by congruence. subst. assert (b' = gp) by congruence. subst.
    assert (b = ggp) by congruence. subst. lia.
Qed.

(* ------------------------------------------------------------------ uniqueness of decisions *)

Lemma chained_commit_spec_fun : forall f blk b1 b2,
  chained_commit_spec f blk b1 -> chained_commit_spec f blk b2 -> b1 = b2.
Proof.
  intros f blk b1 b2 [x [Hx Hd1]] [y [Hy Hd2]].
  assert (x = y) by (eapply certified_fun; eauto). subst. eapply dc_chain_fun; eauto.
Qed.

Lemma simple_commit_spec_fun : forall f blk b1 b2,
  simple_commit_spec f blk b1 -> simple_commit_spec f blk b2 -> b1 = b2.
Proof.
  intros f blk b1 b2 [x [x' [E [[L1 _] [[L2 _] _]]]]] [y [y' [E' [[L1' _] [[L2' _] _]]]]].
  assert (x = y) by congruence. subst. assert (x' = y') by congruence. subst. congruence.
Qed.

Lemma chained_lock_spec_fun : forall f lock blk l1 l2,
  chained_lock_spec f lock blk l1 -> chained_lock_spec f lock blk l2 -> l1 = l2.
Proof.
  intros f lock blk l1 l2 [[x [Hx [Lx ->]]] | [Nx ->]] [[y [Hy [Ly ->]]] | [Ny ->]]; auto.
  - eapply qc_chain_fun; eauto.
  - specialize (Ny _ Hx). lia.
  - specialize (Nx _ Hy). lia.
Qed.

Lemma simple_lock_spec_fun : forall f lock blk l1 l2,
  simple_lock_spec f lock blk l1 -> simple_lock_spec f lock blk l2 -> l1 = l2.
Proof.
  intros f lock blk l1 l2 [[x [Hx [Lx ->]]] | [Nx ->]] [[y [Hy [Ly ->]]] | [Ny ->]]; auto.
  - destruct Hx as [p [E1 E2]]. destruct Hy as [p' [E1' E2']].
    assert (p = p') by congruence. subst. congruence.
  - specialize (Ny _ Hx). lia.
  - specialize (Nx _ Hy). lia.
Qed.

(* ------------------------------------------------------------------ the exported statements *)

(* every ruleset, every store, every lock, every proposal: the decision of the model is the
   decision of the published rule (and that decision is unique) *)
Theorem rules_equal_spec : forall f lock v p,
  let blk := p_block p in
  views_small f blk ->
  (* commit and lock decisions: any forest, any views, any pointers, any missing blocks *)
  (forall lock' c, chained_commit f lock blk = (lock', c) ->
     chained_lock_spec f lock blk lock' /\ commit_agrees (chained_commit_spec f blk) c) /\
  commit_agrees (fast_commit_spec f blk) (fast_commit f blk) /\
  (forall lock' c, simple_commit f lock blk = (lock', c) ->
     simple_lock_spec f lock blk lock' /\ commit_agrees (simple_commit_spec f blk) c) /\
  (* the relations determine the decision *)
  (forall b1 b2, chained_commit_spec f blk b1 -> chained_commit_spec f blk b2 -> b1 = b2) /\
  (forall b1 b2, fast_commit_spec f blk b1 -> fast_commit_spec f blk b2 -> b1 = b2) /\
  (forall b1 b2, simple_commit_spec f blk b1 -> simple_commit_spec f blk b2 -> b1 = b2) /\
  (forall l1 l2, chained_lock_spec f lock blk l1 -> chained_lock_spec f lock blk l2 -> l1 = l2) /\
  (forall l1 l2, simple_lock_spec f lock blk l1 -> simple_lock_spec f lock blk l2 -> l1 = l2) /\
  (* vote decisions *)
  (simple_vote f lock v p = true <-> simple_vote_spec f lock v p) /\
  (chained_vote f lock v p = true -> chained_vote_spec f lock p) /\
  (agg_matches p -> agg_small p -> fast_vote f v p = true -> fast_vote_spec f v p) /\
  (* the "extends" disjuncts are complete on block trees (views increase along parents) *)
  (content_addressed (lock :: blk :: f) -> parent_views_increase f blk ->
   (chained_vote f lock v p = true <-> chained_vote_spec f lock p) /\
   (agg_matches p -> agg_small p -> (fast_vote f v p = true <-> fast_vote_spec f v p))).
Proof.
  intros f lock v p blk VS. subst blk.
  split; [intros; eapply chained_commit_correct; eauto |].
  split; [eapply fast_commit_correct; eauto |].
  split; [intros; eapply simple_commit_correct; eauto |].
  split; [apply chained_commit_spec_fun |].
  split; [intros b1 b2 H1 H2; eapply dc_chain_fun; eauto |].
  split; [apply simple_commit_spec_fun |].
  split; [apply chained_lock_spec_fun |].
  split; [apply simple_lock_spec_fun |].
  split; [apply simple_vote_correct |].
  split; [apply chained_vote_sound |].
  split; [intros; eapply fast_vote_sound; eauto |].
  intros CA MONO. split; [apply chained_vote_correct; assumption |].
  intros Hagg AS. apply fast_vote_correct; try assumption.
  intros b1 b2 H1 H2. apply CA; right; assumption.
Qed.

(* a block is committed only as the tail of the required chain of directly linked,
   consecutively numbered, certified blocks *)
Theorem commit_only_tail : forall rs f lock blk lock' b,
  views_small f blk -> no_zero f ->
  commit_rule rs f lock blk = (lock', Some b) -> required_chain rs f blk b.
Proof.
  intros rs f lock blk lock' b VS NZ H. destruct rs; simpl in *.
  - apply chained_commit_correct in H; [| exact VS]. destruct H as [_ H]. exact H.
  - inversion H as [[H1 H2]]. pose proof (fast_commit_correct f blk _ VS eq_refl) as Hc.
    rewrite H2 in Hc. exact Hc.
  - apply simple_commit_correct in H; [| exact VS]. destruct H as [_ H]. simpl in H.
    apply simple_commit_spec_iff_chain in H.
    destruct H as [b'' [b' [E [L1 [D1 [C1 [L2 [D2 C2]]]]]]]].
    assert (NZ' : forall c x, get f (qc_hash (b_qc c)) = Some x -> certified_by f c x).
    { intros c x G. split; [| exact G]. intros Z. rewrite Z in G. unfold no_zero in NZ. congruence. }
    exists b''. split; [apply NZ'; exact E |]. apply dc_chain2_iff. exists b'. auto 10.
Qed.

(* the committed block lies exactly [2] views below the top of its chain, and the new block
   itself is above: a view gap anywhere in the chain prevents the commit *)
Corollary commit_view_distance : forall rs f lock blk lock' b,
  views_small f blk -> no_zero f ->
  commit_rule rs f lock blk = (lock', Some b) ->
  match rs with
  | Fast => b_view blk = b_view b + 2
  | _ => exists b'', certified_by f blk b'' /\ b_view b'' = b_view b + 2
  end.
Proof.
  intros rs f lock blk lock' b VS NZ H. apply commit_only_tail in H; try assumption.
  destruct rs; simpl in H.
  - destruct H as [b'' [Hc Hd]]. exists b''. split; [exact Hc |]. apply dc_chain_views in Hd. simpl in Hd. lia.
  - apply dc_chain_views in H. simpl in H. lia.
  - destruct H as [b'' [Hc Hd]]. exists b''. split; [exact Hc |]. apply dc_chain_views in Hd. simpl in Hd. lia.
Qed.

(* ------------------------------------------------------------------ runs *)

Lemma commit_rule_lock_view : forall rs f lock blk lock' c,
  commit_rule rs f lock blk = (lock', c) -> b_view lock <= b_view lock'.
Proof.
  intros rs f lock blk lock' c H. destruct rs; simpl in H.
  - unfold chained_commit in H.
    destruct (qc_ref f (b_qc blk)) as [b1 |]; [| inversion H; subst; lia].
    destruct (qc_ref f (b_qc b1)) as [b2 |]; [| inversion H; subst; lia].
    assert (b_view lock <= b_view (if N.ltb (b_view lock) (b_view b2) then b2 else lock)).
    { destruct (N.ltb_spec (b_view lock) (b_view b2)); lia. }
    destruct (qc_ref f (b_qc b2)) as [b3 |]; [| inversion H; subst; assumption].
    destruct (_ && _); inversion H; subst; assumption.
  - inversion H; subst; lia.
  - unfold simple_commit, simple_commit_gen in H.
    destruct (get f (qc_hash (b_qc blk))) as [p |]; [| inversion H; subst; lia].
    destruct (get f (qc_hash (b_qc p))) as [gp |]; [| inversion H; subst; lia].
    assert (b_view lock <= b_view (if N.ltb (b_view lock) (b_view gp) then gp else lock)).
    { destruct (N.ltb_spec (b_view lock) (b_view gp)); lia. }
    destruct (get f (qc_hash (b_qc gp))) as [ggp |]; [| inversion H; subst; assumption].
    destruct (_ && _); inversion H; subst; assumption.
Qed.

(* whatever is presented in whatever order, the lock never moves to a lower view *)
Theorem lock_view_monotone : forall rs ss st st' os,
  run rs st ss = (st', os) -> b_view (snd st) <= b_view (snd st').
Proof.
  intros rs ss. induction ss as [| s r IH]; intros st st' os H; simpl in H.
  - inversion H; subst. lia.
  - destruct (do_step rs st s) as [st1 o] eqn:D.
    destruct (run rs st1 r) as [st2 os2] eqn:R. inversion H; subst.
    apply IH in R. enough (b_view (snd st) <= b_view (snd st1)) by lia.
    destruct st as [f lock]. destruct s as [v p | b | b]; simpl in D.
    + inversion D; subst. simpl. lia.
    + destruct (commit_rule rs (store_block f b) lock b) as [lock1 c] eqn:C.
      inversion D; subst. simpl. eapply commit_rule_lock_view; eauto.
    + inversion D; subst. simpl. lia.
Qed.

(* reachable states: the store holds one block per hash, the lock and every committed block
   are stored blocks (so the side conditions of the theorems above are met along every run) *)
Definition state_ok (st : state) : Prop :=
  NoDup (map b_hash (fst st)) /\ In (snd st) (fst st).

Lemma get_none_notin : forall f h, get f h = None -> ~ In h (map b_hash f).
Proof.
  unfold get. intros f h H Hin. apply in_map_iff in Hin. destruct Hin as [b [E Hb]].
  pose proof (find_none _ _ H b Hb) as N. simpl in N. rewrite E, N.eqb_refl in N. discriminate.
Qed.

Lemma store_block_ok : forall f b, NoDup (map b_hash f) ->
  NoDup (map b_hash (store_block f b)) /\ (forall x, In x f -> In x (store_block f b)).
Proof.
  intros f b ND. unfold store_block. destruct (get f (b_hash b)) eqn:G; [auto |].
  split.
  - rewrite map_app. simpl. apply get_none_notin in G.
    assert (NoDup (b_hash b :: map b_hash f)) by (constructor; assumption).
    eapply Permutation_NoDup; [| exact H]. apply Permutation_cons_append.
  - intros x Hx. apply in_or_app. auto.
Qed.

Lemma qc_ref_in : forall f q b, qc_ref f q = Some b -> In b f.
Proof. intros f q b H. apply qc_ref_some in H. destruct H as [_ G]. apply get_some in G. tauto. Qed.

Lemma commit_rule_in_store : forall rs f lock blk lock' c,
  In lock f -> commit_rule rs f lock blk = (lock', c) ->
  In lock' f /\ (forall b, c = Some b -> In b f).
Proof.
  intros rs f lock blk lock' c Hl H. destruct rs; simpl in H.
  - unfold chained_commit in H.
    destruct (qc_ref f (b_qc blk)) as [b1 |] eqn:R1; [| inversion H; subst; split; [auto | discriminate]].
    destruct (qc_ref f (b_qc b1)) as [b2 |] eqn:R2; [| inversion H; subst; split; [auto | discriminate]].
    assert (In (if N.ltb (b_view lock) (b_view b2) then b2 else lock) f)
      by (destruct (N.ltb _ _); [eapply qc_ref_in; eauto | exact Hl]).
    destruct (qc_ref f (b_qc b2)) as [b3 |] eqn:R3; [| inversion H; subst; split; [auto | discriminate]].
    destruct (_ && _); inversion H; subst; (split; [assumption |]); intros b E; inversion E; subst.
    eapply qc_ref_in; eauto.
  - inversion H; subst. split; [exact Hl |]. intros b E. unfold fast_commit in E.
    destruct (qc_ref f (b_qc blk)) as [par |]; [| discriminate].
    destruct (qc_ref f (b_qc par)) as [gp |] eqn:R2; [| discriminate].
    destruct (_ && _); inversion E; subst. eapply qc_ref_in; eauto.
  - unfold simple_commit, simple_commit_gen in H.
    destruct (get f (qc_hash (b_qc blk))) as [p |]; [| inversion H; subst; split; [auto | discriminate]].
    destruct (get f (qc_hash (b_qc p))) as [gp |] eqn:G2; [| inversion H; subst; split; [auto | discriminate]].
    assert (In (if N.ltb (b_view lock) (b_view gp) then gp else lock) f)
      by (destruct (N.ltb _ _); [apply get_some in G2; tauto | exact Hl]).
    destruct (get f (qc_hash (b_qc gp))) as [ggp |] eqn:G3; [| inversion H; subst; split; [auto | discriminate]].
    destruct (_ && _); inversion H; subst; (split; [assumption |]); intros b E; inversion E; subst.
    apply get_some in G3. tauto.
Qed.

Lemma init_state_ok : state_ok init_state.
Proof. split; simpl; [repeat constructor; simpl; tauto | auto]. Qed.

Theorem run_state_ok : forall rs ss st st' os,
  state_ok st -> run rs st ss = (st', os) -> state_ok st'.
Proof.
  intros rs ss. induction ss as [| s r IH]; intros st st' os OK H; simpl in H.
  - inversion H; subst. exact OK.
  - destruct (do_step rs st s) as [st1 o] eqn:D.
    destruct (run rs st1 r) as [st2 os2] eqn:R. inversion H; subst.
    eapply IH; [| exact R]. clear IH R H.
    destruct st as [f lock]. destruct OK as [ND Hl]. simpl in ND, Hl.
    destruct s as [v p | b | b]; simpl in D.
    + inversion D; subst. split; assumption.
    + destruct (commit_rule rs (store_block f b) lock b) as [lock1 c] eqn:C.
      inversion D; subst. destruct (store_block_ok f b ND) as [ND' Inc].
      split; simpl; [exact ND' |]. exact (proj1 (commit_rule_in_store _ _ _ _ _ _ (Inc _ Hl) C)).
    + inversion D; subst. destruct (store_block_ok f b ND) as [ND' Inc]. split; simpl; auto.
Qed.

Theorem reachable_state_ok : forall rs ss st' os,
  run rs init_state ss = (st', os) ->
  NoDup (map b_hash (fst st')) /\ In (snd st') (fst st').
Proof. intros rs ss st' os H. exact (run_state_ok rs ss init_state st' os init_state_ok H). Qed.

Theorem extends_is_ancestry : forall f blk t,
  (extends f blk t = true -> extends_spec f blk (b_hash t)) /\
  (content_addressed (t :: blk :: f) -> parent_views_increase f blk ->
   (extends f blk t = true <-> extends_spec f blk (b_hash t))).
Proof. intros f blk t. split; [exact (extends_sound f blk t) | exact (extends_iff f blk t)]. Qed.

(* ------------------------------------------------------------------ fetching *)
(* The Go rules call Blockchain.Get, which fetches and stores missing blocks.  The threaded
   rules ([*_io], RulesModel.v) decide exactly what the pure rules decide on the AVAILABLE
   blocks [f ++ net]; the store only grows, by blocks taken from [net], one per hash. *)

Lemma get_app : forall a b h,
  get (a ++ b) h = match get a h with Some x => Some x | None => get b h end.
Proof.
  unfold get. induction a as [| x a IH]; intros b h; simpl; [reflexivity |].
  destruct (N.eqb (b_hash x) h); [reflexivity | apply IH].
Qed.

Definition grows (net f f' : store) : Prop :=
  (forall h, get (f' ++ net) h = get (f ++ net) h) /\
  (exists extra, f' = f ++ extra /\ incl extra net) /\
  (NoDup (map b_hash f) -> NoDup (map b_hash f')).

Lemma grows_refl : forall net f, grows net f f.
Proof.
  intros. split; [reflexivity |]. split; [| auto].
  exists []. rewrite app_nil_r. split; [reflexivity | intros x []].
Qed.

Lemma grows_trans : forall net a b c, grows net a b -> grows net b c -> grows net a c.
Proof.
  intros net a b c [E1 [[x1 [-> I1]] N1]] [E2 [[x2 [-> I2]] N2]]. split; [| split].
  - intros h. rewrite E2. apply E1.
  - exists (x1 ++ x2). rewrite app_assoc. split; [reflexivity | apply incl_app; assumption].
  - auto.
Qed.

Lemma grows_in : forall net f f' b, grows net f f' -> In b f -> In b f'.
Proof. intros net f f' b [_ [[x [-> _]] _]] H. apply in_or_app. auto. Qed.

Lemma grows_get : forall net f f' h, grows net f f' -> get (f' ++ net) h = get (f ++ net) h.
Proof. intros net f f' h [E _]. apply E. Qed.

Lemma grows_nodup : forall net f f', grows net f f' -> NoDup (map b_hash f) -> NoDup (map b_hash f').
Proof. intros net f f' [_ [_ N]]. exact N. Qed.

Lemma fetch_spec : forall net f h f' r,
  fetch net f h = (f', r) ->
  r = get (f ++ net) h /\ grows net f f' /\ (forall b, r = Some b -> In b f').
Proof.
  unfold fetch. intros net f h f' r H. rewrite get_app.
  destruct (get f h) as [b |] eqn:G.
  - inversion H; subst. split; [reflexivity |]. split; [apply grows_refl |].
    intros b' E. inversion E; subst. apply get_some in G. tauto.
  - destruct (get net h) as [b |] eqn:Gn; inversion H; subst.
    + destruct (get_some _ _ _ Gn) as [Hin Hb].
      split; [reflexivity |]. split.
      * split.
        -- intros h'. rewrite <- app_assoc, !get_app. destruct (get f h') as [x |] eqn:G'; [reflexivity |].
           unfold get at 1. simpl. fold (get net h').
           destruct (N.eqb_spec (b_hash b) h') as [E | E]; [| reflexivity].
           rewrite <- E, Hb. symmetry. exact Gn.
        -- split.
           ++ exists [b]. split; [reflexivity |]. intros x [<- | []]. exact Hin.
           ++ intros ND. rewrite map_app. simpl. apply get_none_notin in G. rewrite <- Hb in G.
              assert (NoDup (b_hash b :: map b_hash f)) by (constructor; assumption).
              eapply Permutation_NoDup; [| exact H0]. apply Permutation_cons_append.
      * intros b' E. inversion E; subst. apply in_or_app. right. left. reflexivity.
    + split; [reflexivity |]. split; [apply grows_refl | discriminate].
Qed.

Lemma qc_ref_ext : forall s1 s2 q, (forall h, get s1 h = get s2 h) -> qc_ref s1 q = qc_ref s2 q.
Proof. intros s1 s2 q E. unfold qc_ref. rewrite E. reflexivity. Qed.

Lemma lock_target_ok_ext : forall s1 s2 qb, (forall h, get s1 h = get s2 h) ->
  lock_target_ok s1 qb = lock_target_ok s2 qb.
Proof. intros s1 s2 qb E. unfold lock_target_ok. rewrite E. reflexivity. Qed.

Lemma extends_fuel_ext : forall fuel s1 s2 cur t, (forall h, get s1 h = get s2 h) ->
  extends_fuel fuel s1 cur t = extends_fuel fuel s2 cur t.
Proof.
  induction fuel as [| k IH]; intros s1 s2 cur t E; simpl; [reflexivity |].
  destruct (N.ltb (b_view t) (b_view cur)); [| reflexivity].
  rewrite E. destruct (get s2 (b_parent cur)); [apply IH; exact E | reflexivity].
Qed.

Lemma qc_ref_io_spec : forall net f q f' r,
  qc_ref_io net f q = (f', r) ->
  r = qc_ref (f ++ net) q /\ grows net f f' /\ (forall b, r = Some b -> In b f').
Proof.
  unfold qc_ref_io, qc_ref. intros net f q f' r H.
  destruct (N.eqb (qc_hash q) zero_hash).
  - inversion H; subst. split; [reflexivity |]. split; [apply grows_refl | discriminate].
  - apply fetch_spec. exact H.
Qed.

Lemma lock_target_io_spec : forall net f qb f' r,
  lock_target_io net f qb = (f', r) -> r = lock_target_ok (f ++ net) qb /\ grows net f f'.
Proof.
  unfold lock_target_io, lock_target_ok. intros net f qb f' r H.
  destruct (N.eqb (qc_hash (b_qc qb)) zero_hash).
  - inversion H; subst. split; [reflexivity | apply grows_refl].
  - destruct (fetch net f (qc_hash (b_qc qb))) as [f1 r1] eqn:F.
    apply fetch_spec in F. destruct F as [-> [G _]].
    destruct (get (f ++ net) (qc_hash (b_qc qb))); inversion H; subst; auto.
Qed.

Lemma extends_io_spec : forall fuel net f cur t f' r,
  extends_io fuel net f cur t = (f', r) ->
  r = extends_fuel fuel (f ++ net) cur t /\ grows net f f'.
Proof.
  induction fuel as [| k IH]; intros net f cur t f' r H; simpl in *.
  - destruct (N.ltb (b_view t) (b_view cur)); inversion H; subst; split; auto using grows_refl.
  - destruct (N.ltb (b_view t) (b_view cur)).
    + destruct (fetch net f (b_parent cur)) as [f1 r1] eqn:F.
      apply fetch_spec in F. destruct F as [-> [G _]].
      destruct (get (f ++ net) (b_parent cur)) as [p |].
      * apply IH in H. destruct H as [-> G2]. split; [| eapply grows_trans; eauto].
        apply extends_fuel_ext. intros h. apply grows_get. exact G.
      * inversion H; subst. auto.
    + inversion H; subst. split; auto using grows_refl.
Qed.

Ltac ext_get G := let h := fresh "h" in intros h; apply grows_get; exact G.

Theorem vote_rule_io_pure : forall rs net f lock v p f' r,
  vote_rule_io rs net f lock v p = (f', r) ->
  r = vote_rule rs (f ++ net) lock v p /\ grows net f f'.
Proof.
  intros rs net f lock v p f' r H. destruct rs; unfold vote_rule_io, vote_rule in *.
  - unfold chained_vote_io in H. unfold chained_vote, extends. rewrite app_length.
    destruct (fetch net f (qc_hash (b_qc (p_block p)))) as [f1 r1] eqn:F1.
    apply fetch_spec in F1. destruct F1 as [-> [G1 _]].
    destruct (get (f ++ net) (qc_hash (b_qc (p_block p)))) as [qb |].
    + destruct (lock_target_io net f1 qb) as [f2 r2] eqn:L.
      apply lock_target_io_spec in L. destruct L as [-> G2].
      rewrite (lock_target_ok_ext (f1 ++ net) (f ++ net)) in H by (ext_get G1).
      assert (G12 : grows net f f2) by (eapply grows_trans; eauto).
      destruct (lock_target_ok (f ++ net) qb); cbn [negb].
      * destruct (N.ltb (b_view lock) (b_view qb)); [inversion H; subst; auto |].
        apply extends_io_spec in H. destruct H as [-> G3]. split; [| eapply grows_trans; eauto].
        apply extends_fuel_ext. ext_get G12.
      * inversion H; subst. auto.
    + apply extends_io_spec in H. destruct H as [-> G3]. split; [| eapply grows_trans; eauto].
      apply extends_fuel_ext. ext_get G1.
  - unfold fast_vote_io in H. unfold fast_vote, extends. rewrite app_length.
    destruct (p_agg p) as [a |]; [| inversion H; subst; auto using grows_refl].
    destruct (N.ltb (succ64 (agg_view a)) (b_view (p_block p))); [inversion H; subst; auto using grows_refl |].
    destruct (fetch net f (qc_hash (b_qc (p_block p)))) as [f1 r1] eqn:F1.
    apply fetch_spec in F1. destruct F1 as [-> [G1 _]].
    destruct (get (f ++ net) (qc_hash (b_qc (p_block p)))) as [hb |]; [| inversion H; subst; auto].
    apply extends_io_spec in H. destruct H as [-> G3]. split; [| eapply grows_trans; eauto].
    apply extends_fuel_ext. ext_get G1.
  - unfold simple_vote_io in H. unfold simple_vote.
    destruct (N.ltb (b_view (p_block p)) v); [inversion H; subst; auto using grows_refl |].
    destruct (fetch net f (qc_hash (b_qc (p_block p)))) as [f1 r1] eqn:F1.
    apply fetch_spec in F1. destruct F1 as [-> [G1 _]].
    destruct (get (f ++ net) (qc_hash (b_qc (p_block p)))) as [par |]; [| inversion H; subst; auto].
    destruct (lock_target_io net f1 par) as [f2 r2] eqn:L.
    apply lock_target_io_spec in L. destruct L as [-> G2].
    rewrite (lock_target_ok_ext (f1 ++ net) (f ++ net)) in H by (ext_get G1).
    assert (G12 : grows net f f2) by (eapply grows_trans; eauto).
    destruct (lock_target_ok (f ++ net) par); cbn [negb]; cbv beta iota in H; inversion H; subst; auto.
Qed.

Ltac fin4 := split; [reflexivity | split; [assumption | split; [auto | try (intros; discriminate)]]].

Theorem commit_rule_io_pure : forall rs net f lock blk f' lock' c,
  commit_rule_io rs net f lock blk = (f', (lock', c)) ->
  commit_rule rs (f ++ net) lock blk = (lock', c) /\ grows net f f' /\
  (lock' = lock \/ In lock' f') /\ (forall b, c = Some b -> In b f').
Proof.
  intros rs net f lock blk f' lock' c H. destruct rs; unfold commit_rule_io, commit_rule in *.
  - unfold chained_commit_io in H. unfold chained_commit.
    destruct (qc_ref_io net f (b_qc blk)) as [f1 r1] eqn:Q1.
    apply qc_ref_io_spec in Q1. destruct Q1 as [-> [G1 _]].
    destruct (qc_ref (f ++ net) (b_qc blk)) as [b1 |];
      [| inversion H; subst; fin4].
    destruct (qc_ref_io net f1 (b_qc b1)) as [f2 r2] eqn:Q2.
    apply qc_ref_io_spec in Q2. destruct Q2 as [-> [G2 I2]].
    rewrite (qc_ref_ext (f1 ++ net) (f ++ net)) in * by (ext_get G1).
    assert (G12 : grows net f f2) by (eapply grows_trans; eauto).
    destruct (qc_ref (f ++ net) (b_qc b1)) as [b2 |];
      [| inversion H; subst; fin4].
    specialize (I2 b2 eq_refl).
    destruct (qc_ref_io net f2 (b_qc b2)) as [f3 r3] eqn:Q3.
    apply qc_ref_io_spec in Q3. destruct Q3 as [-> [G3 I3]].
    rewrite (qc_ref_ext (f2 ++ net) (f ++ net)) in * by (ext_get G12).
    assert (G13 : grows net f f3) by (eapply grows_trans; eauto).
    assert (HL : (if N.ltb (b_view lock) (b_view b2) then b2 else lock) = lock \/
                 In (if N.ltb (b_view lock) (b_view b2) then b2 else lock) f3).
    { destruct (N.ltb (b_view lock) (b_view b2)); [right; exact (grows_in _ _ _ _ G3 I2) | left; reflexivity]. }
    destruct (qc_ref (f ++ net) (b_qc b2)) as [b3 |];
      [| inversion H; subst; fin4].
    specialize (I3 b3 eq_refl).
    match type of H with (if ?c then _ else _) = _ => destruct c end; inversion H; subst; fin4.
    intros b E. inversion E; subst. exact I3.
  - destruct (fast_commit_io net f blk) as [f1 c1] eqn:FC. inversion H; subst. clear H.
    unfold fast_commit_io in FC. unfold fast_commit.
    destruct (qc_ref_io net f (b_qc blk)) as [f1 r1] eqn:Q1.
    apply qc_ref_io_spec in Q1. destruct Q1 as [-> [G1 _]].
    destruct (qc_ref (f ++ net) (b_qc blk)) as [par |];
      [| inversion FC; subst; fin4].
    destruct (qc_ref_io net f1 (b_qc par)) as [f2 r2] eqn:Q2.
    apply qc_ref_io_spec in Q2. destruct Q2 as [-> [G2 I2]].
    rewrite (qc_ref_ext (f1 ++ net) (f ++ net)) in * by (ext_get G1).
    assert (G12 : grows net f f2) by (eapply grows_trans; eauto).
    destruct (qc_ref (f ++ net) (b_qc par)) as [gp |];
      [| inversion FC; subst; fin4].
    specialize (I2 gp eq_refl).
    match type of FC with (if ?c then _ else _) = _ => destruct c end; inversion FC; subst; fin4.
    intros b E. inversion E; subst. exact I2.
  - unfold simple_commit_io in H. unfold simple_commit, simple_commit_gen.
    destruct (fetch net f (qc_hash (b_qc blk))) as [f1 r1] eqn:Q1.
    apply fetch_spec in Q1. destruct Q1 as [-> [G1 _]].
    destruct (get (f ++ net) (qc_hash (b_qc blk))) as [p |];
      [| inversion H; subst; fin4].
    destruct (fetch net f1 (qc_hash (b_qc p))) as [f2 r2] eqn:Q2.
    apply fetch_spec in Q2. destruct Q2 as [-> [G2 I2]].
    rewrite (grows_get _ _ _ _ G1) in *.
    assert (G12 : grows net f f2) by (eapply grows_trans; eauto).
    destruct (get (f ++ net) (qc_hash (b_qc p))) as [gp |];
      [| inversion H; subst; fin4].
    specialize (I2 gp eq_refl).
    destruct (fetch net f2 (qc_hash (b_qc gp))) as [f3 r3] eqn:Q3.
    apply fetch_spec in Q3. destruct Q3 as [-> [G3 I3]].
    rewrite (grows_get _ _ _ _ G12) in *.
    assert (G13 : grows net f f3) by (eapply grows_trans; eauto).
    assert (HL : (if N.ltb (b_view lock) (b_view gp) then gp else lock) = lock \/
                 In (if N.ltb (b_view lock) (b_view gp) then gp else lock) f3).
    { destruct (N.ltb (b_view lock) (b_view gp)); [right; exact (grows_in _ _ _ _ G3 I2) | left; reflexivity]. }
    destruct (get (f ++ net) (qc_hash (b_qc gp))) as [ggp |];
      [| inversion H; subst; fin4].
    specialize (I3 ggp eq_refl). simpl negb. rewrite orb_false_l.
    match type of H with (if ?c then _ else _) = _ => destruct c end; inversion H; subst; fin4.
    intros b E. inversion E; subst. exact I3.
Qed.

(* ------------------------------------------------------------------ runs with fetching *)
Definition nstate_ok (st : nstate) : Prop :=
  let '(f, lock, _) := st in NoDup (map b_hash f) /\ In lock f.

Lemma do_nstep_ok : forall rs st s st' o,
  nstate_ok st -> do_nstep rs st s = (st', o) ->
  nstate_ok st' /\ b_view (snd (fst st)) <= b_view (snd (fst st')).
Proof.
  intros rs [[f lock] net] s st' o [ND Hl] D. destruct s as [v p | b | b | net' |]; simpl in D.
  - destruct (vote_rule_io rs net f lock v p) as [f' r] eqn:V. inversion D; subst.
    apply vote_rule_io_pure in V. destruct V as [_ G]. simpl. split; [| lia].
    split; [eapply grows_nodup; eauto | eapply grows_in; eauto].
  - destruct (commit_rule_io rs net (store_block f b) lock b) as [f' [lock' c]] eqn:C.
    inversion D; subst. apply commit_rule_io_pure in C. destruct C as [P [G [HL _]]].
    destruct (store_block_ok f b ND) as [ND' Inc]. simpl. split.
    + split; [eapply grows_nodup; eauto |].
      destruct HL as [-> | HL]; [eapply grows_in; eauto | exact HL].
    + eapply commit_rule_lock_view; eauto.
  - inversion D; subst. destruct (store_block_ok f b ND) as [ND' Inc]. simpl. split; [auto | lia].
  - inversion D; subst. simpl. split; [auto | lia].
  - inversion D; subst. simpl. split; [auto | lia].
Qed.

Theorem nrun_ok : forall rs ss st st' os,
  nstate_ok st -> nrun rs st ss = (st', os) ->
  nstate_ok st' /\ b_view (snd (fst st)) <= b_view (snd (fst st')).
Proof.
  intros rs ss. induction ss as [| s r IH]; intros st st' os OK H; simpl in H.
  - inversion H; subst. split; [exact OK | lia].
  - destruct (do_nstep rs st s) as [st1 o] eqn:D.
    destruct (nrun rs st1 r) as [st2 os2] eqn:R. inversion H; subst.
    destruct (do_nstep_ok _ _ _ _ _ OK D) as [OK1 L1].
    destruct (IH _ _ _ OK1 R) as [OK2 L2]. split; [exact OK2 | lia].
Qed.

Lemma init_nstate_ok : nstate_ok init_nstate.
Proof. simpl. split; [repeat constructor; simpl; tauto | auto]. Qed.

(* with an empty network the threaded run is the pure run *)
Theorem reachable_nstate_ok : forall rs ss st' os,
  nrun rs init_nstate ss = (st', os) ->
  NoDup (map b_hash (fst (fst st'))) /\ In (snd (fst st')) (fst (fst st')).
Proof.
  intros rs ss [[f lock] net] os H.
  destruct (nrun_ok rs ss init_nstate _ os init_nstate_ok H) as [OK _]. exact OK.
Qed.

(* ------------------------------------------------------------------ the defect, as a theorem *)
(* Without the patch the simple ruleset commits a block that is not the tail of a direct,
   consecutive chain: B1(view 1) <-qc- B2(view 5, parent = genesis) <-qc- B3(view 3) <-qc- B4. *)
Definition ex_g  := genesis.
Definition ex_b1 := mkBlock 2 1 1 (mkQC 1 0).
Definition ex_b2 := mkBlock 3 1 5 (mkQC 2 1).
Definition ex_b3 := mkBlock 4 3 3 (mkQC 3 5).
Definition ex_b4 := mkBlock 5 4 6 (mkQC 4 3).
Definition ex_store := [ex_g; ex_b1; ex_b2; ex_b3; ex_b4].

Theorem simple_unpatched_commits_off_chain :
  exists f lock blk lock' b,
    views_small f blk /\ no_zero f /\
    simple_commit_unpatched f lock blk = (lock', Some b) /\
    ~ required_chain Simple f blk b /\
    simple_commit f lock blk = (lock', None).
Proof.
  exists ex_store, ex_g, ex_b4, ex_b2, ex_b1.
  split.
  { unfold views_small, two64. split; [| split; simpl; lia].
    intros b Hin. simpl in Hin. repeat (destruct Hin as [<- | Hin]; [simpl; lia |]). destruct Hin. }
  split; [reflexivity |].
  split; [vm_compute; reflexivity |].
  split; [| vm_compute; reflexivity].
  intros [b'' [Hc Hd]]. apply dc_chain2_iff in Hd.
  destruct Hd as [m [Hm [D1 [C1 [Hm2 [D2 C2]]]]]].
  destruct Hc as [_ G]. vm_compute in G. inversion G; subst b''.
  destruct Hm as [_ G2]. vm_compute in G2. inversion G2; subst m.
  unfold consecutive in C1. vm_compute in C1. discriminate.
Qed.
